#!/usr/bin/env bash
# tools/confirm_e2e_seed.sh <Cxx> <A|B> [check-prop] : confirm a sub-agent's seeded change myself, then run the check against it.
#  1. demo on the unchanged tree (want exit 0)  2. apply patch to /repo, demo again (want exit 1)
#  3. existing tests of the compiler crates with the patch (want pass)  4. ./check <prop> with the patch  5. revert
set -u
P=$1; V=$2; CP=${3:-$P}
OUT=/tmp/seed/$P.out/$V; LOG=$OUT/confirm.log
cd /repo; if ! git diff --quiet; then echo "/repo dirty"; exit 3; fi
. /tmp/seedkit/env.sh $P >/dev/null 2>&1
export WT=/repo PAVEXC=/repo/target/debug/pavexc
: > $LOG
echo "## demo WITHOUT change" >> $LOG
bash $OUT/demo/run.sh >> $LOG 2>&1; RC0=$?
git -C /repo apply $OUT/patch.diff || { echo "CONFIRM $P $V: patch does not apply" | tee -a $LOG; exit 9; }
echo "## demo WITH change" >> $LOG
bash $OUT/demo/run.sh >> $LOG 2>&1; RC1=$?
echo "## existing tests WITH change" >> $LOG
( cd /repo && HOME=/root cargo test --offline -j 8 -p pavexc -p pavexc_cli -p pavex 2>&1 | grep -E "^test result|FAILED|panicked" ) > $OUT/confirm_existing.log 2>&1
FAILED=$(grep -cE "FAILED|[1-9][0-9]* failed" $OUT/confirm_existing.log)
echo "## check $CP WITH change" >> $LOG
( cd /verif && HOME=/root ./check $CP > /verif/.work/seed-run.log 2>&1 ); RCC=$?
grep -E "^(VIOLATION|KNOWN-FINDING|summary|INFRA)" /verif/.work/seed-run.log | head -5 >> $LOG
grep -A6 "violation detail" /verif/.work/seed-run.log | head -24 >> $LOG
git -C /repo checkout -- .
echo "CONFIRM $P $V: demo_without_rc=$RC0 (want 0) demo_with_rc=$RC1 (want 1) existing_failed=$FAILED check_${CP}_rc=$RCC" | tee -a $LOG
grep -E "^(VIOLATION|summary)" /verif/.work/seed-run.log | head -3
grep -A4 "violation detail" /verif/.work/seed-run.log | head -10
