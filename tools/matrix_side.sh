#!/usr/bin/env bash
# tools/matrix_side.sh <worktree> <seed ids...> : seed matrix for changes judged by the END-TO-END engine (C01-C10, C19 part b):
# each patch is applied to a scratch worktree of /repo (never to /repo), the compiler is rebuilt there and the quick
# check runs as a side run (own lanes / evidence; VERIF_SIDE, PX_PAVEXC_BIN, PX_REPO_ROOT) with seeds 0, 1, 2 until it fails.
# Several instances (one worktree each) may run side by side and next to the normal checks.
set -u
WT=$1; shift
TAG=$(basename "$WT")
declare -A ALT=( [C04-B]="C04 C08" [C09-A]="C09 C08" [C04r3-B]="C04 C08" [C02r3-B]="C02 C07" [C09r3-B]="C09 C07" )
cd "$WT" || exit 9
for id in "$@"; do
  prop=${id%%-*}; prop=${prop%r2}; prop=${prop%r3}; prop=${prop%r4}; checks=${ALT[$id]:-$prop}
  PATCHF=/verif/seeded/$id/patch.diff; [ -f /verif/seeded/$id/patch.rebased.diff ] && PATCHF=/verif/seeded/$id/patch.rebased.diff
  git checkout -q -- . ; git checkout -q --detach "$(git -C /repo rev-parse HEAD)"
  if ! git apply --check "$PATCHF" 2>/dev/null; then echo "$id: PATCH-DOES-NOT-APPLY"; continue; fi
  git apply "$PATCHF"
  if ! cargo build --offline -j 6 -p pavexc_cli --bin pavexc >/verif/.work/matrix-build-$TAG.log 2>&1; then echo "$id: DOES-NOT-BUILD"; git checkout -q -- .; continue; fi
  res=""
  for c in $checks; do
    caught=""
    for s in 0 1 2; do
      ( cd /verif && VERIF_SEED=$s VERIF_SIDE=$TAG PX_NO_SHRINK=1 PX_PAVEXC_BIN=$WT/target/debug/pavexc PX_REPO_ROOT=$WT /verif/.work/target/debug/pxe2e $c --tier quick > /verif/.work/matrix-$id-$c-$s.log 2>&1 ); rc=$?
      if [ $rc -eq 1 ]; then caught="seed$s"; break; fi
      if [ $rc -ne 0 ]; then caught="exit$rc@seed$s"; break; fi
    done
    res="$res $c:${caught:-MISSED(seeds 0-2)}"
    [ -n "$caught" ] && [ "${caught#seed}" != "$caught" ] && break
  done
  git checkout -q -- .
  echo "$id:$res"
done
rm -rf /verif/.work-side-$TAG
