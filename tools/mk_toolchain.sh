#!/usr/bin/env bash
# Builds /verif/toolchain: a fake toolchain root (symlinks to the real `nightly` + locally generated
# std/core/alloc rustdoc JSON, which the `rust-docs-json` component would provide) and a `rustup` shim.
set -eu
TC=${TC:-/verif/toolchain}
REAL=$(rustup which --toolchain nightly cargo)      # .../toolchains/nightly-.../bin/cargo
REAL_ROOT=$(dirname "$(dirname "$REAL")")
REAL_RUSTUP=$(command -v rustup)
mkdir -p "$TC/root/share/doc/rust/json" "$TC/shim"
for d in bin lib libexec etc; do
  [ -e "$REAL_ROOT/$d" ] && ln -sfn "$REAL_ROOT/$d" "$TC/root/$d"
done
for d in "$REAL_ROOT"/share/*; do
  b=$(basename "$d"); [ "$b" = doc ] && continue
  ln -sfn "$d" "$TC/root/share/$b"
done
if [ ! -s "$TC/root/share/doc/rust/json/std.json" ]; then
  SCRATCH=/verif/.work/stddocs
  mkdir -p "$SCRATCH"
  RUSTC_BOOTSTRAP=1 RUSTDOCFLAGS="-Zunstable-options --output-format json" \
    cargo +nightly doc --offline --no-deps -p std -p core -p alloc \
      --manifest-path "$REAL_ROOT/lib/rustlib/src/rust/library/sysroot/Cargo.toml" \
      --target-dir "$SCRATCH" >/verif/.work/stddocs.log 2>&1
  cp "$SCRATCH"/doc/{std,core,alloc}.json "$TC/root/share/doc/rust/json/"
  rm -rf "$SCRATCH"
fi
cat > "$TC/shim/rustup" <<SHIM
#!/usr/bin/env bash
# rustup shim for pavexc: \`which\` answers with the fake root, \`run\` forwards to the real nightly.
case "\${1:-}" in
  which) echo "$TC/root/bin/cargo" ;;
  run) shift; shift; exec "$REAL_RUSTUP" run nightly "\$@" ;;
  *) exec "$REAL_RUSTUP" "\$@" ;;
esac
SHIM
chmod +x "$TC/shim/rustup"
ls -la "$TC/root/share/doc/rust/json/"
