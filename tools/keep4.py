#!/usr/bin/env python3
"""keep3.py <prop> <variant> <needs> <check-result>  -- round 4: copies a confirmed seeded change from /tmp/seed/<prop>.out/<variant> into /verif/seeded/<prop>r4-<variant>/"""
import sys, os, shutil, json, glob
prop, var, needs, result = sys.argv[1:5]
src = f"/tmp/seed/{prop}.out/{var}"
dst = f"/verif/seeded/{prop}r4-{var}"
os.makedirs(dst, exist_ok=True)
for f in glob.glob(src + "/*"):
    b = os.path.basename(f)
    if b in ("patch.diff", "patch.rebased.diff", "notes.md", "confirm.log") or b.startswith("demo"):
        if os.path.isdir(f):
            shutil.copytree(f, os.path.join(dst, b), dirs_exist_ok=True, ignore=shutil.ignore_patterns("target", "target-doc", "Cargo.lock", "*.log", "*.dot", "bp.ron"))
        elif os.path.getsize(f) < 200_000:
            shutil.copy(f, dst)
confirm = ""
try:
    confirm = [l for l in open(src + "/confirm.log") if l.startswith("CONFIRM")][-1].strip()
except Exception:
    pass
patch = "patch.rebased.diff" if os.path.exists(dst + "/patch.rebased.diff") else "patch.diff"
meta = {
    "id": f"{prop}r4-{var}",
    "breaks_property": prop,
    "origin": "independent sub-agent given only the property text and a scratch worktree (fourth round: all properties; told that randomized, model-based generation over small pools, boundary values, fault injection, concurrent callers and (for the compiler) small applications of all common shapes had caught the earlier rounds, and asked for a conjunction of at least three coinciding conditions)",
    "needs_to_manifest": needs,
    "confirmed": confirm,
    "how_confirmed": "tools/side_seed.sh (compiler changes: sub-agent's scratch worktree moved to the current /repo HEAD, pavexc rebuilt, check run as a side run against that binary) or tools/repo_seed.sh (runtime changes: patch applied to /repo, check run, /repo reverted) run by the main session: the demo exits 0 on HEAD and 1 with the patch, the existing tests of the touched crates pass with the patch",
    "check_result": result,
    "apply": f"git -C /repo apply /verif/seeded/{prop}r4-{var}/{patch} ; ./check <property> ; git -C /repo checkout -- .",
}
json.dump(meta, open(dst + "/meta.json", "w"), indent=1)
print("kept", dst)
