#!/usr/bin/env bash
# tools/px.sh <lane> <pavexc args...> : run the freshly built pavexc in a lane's workspace with the lane's environment (debug aid)
lane=/verif/.work/lanes/$1; shift
cd $lane/ws && PATH=/verif/toolchain/shim:$PATH HOME=$lane/home RUSTUP_HOME=/root/.rustup CARGO_HOME=/root/.cargo CARGO_NET_OFFLINE=true PAVEXC_DOCS_TOOLCHAIN=nightly CARGO_TERM_COLOR=never CARGO_TARGET_DIR=$lane/target-doc exec ${PAVEXC:-/verif/.work/target-pavexc/debug/pavexc} "$@"
