#!/usr/bin/env bash
# tools/seed_matrix.sh [ids...] : for every kept seeded change: apply to /repo, run the quick check of its property
# (seed 0, then 1, 2 if still silent), revert. Prints one line per seeded change. /repo must be clean.
set -u
cd /verif
IDS=("$@"); [ ${#IDS[@]} -eq 0 ] && IDS=($(ls seeded))
declare -A ALT=( [C04-B]="C08" [C09-A]="C09 C08" )
for id in "${IDS[@]}"; do
  prop=${id%%-*}; prop=${prop%r2}; prop=${prop%r3}; prop=${prop%r4}; checks=${ALT[$id]:-$prop}
  PATCHF=/verif/seeded/$id/patch.diff; [ -f /verif/seeded/$id/patch.rebased.diff ] && PATCHF=/verif/seeded/$id/patch.rebased.diff
  if ! git -C /repo diff --quiet; then echo "$id: /repo dirty, stopping"; exit 3; fi
  if ! git -C /repo apply --check $PATCHF 2>/dev/null; then echo "$id: PATCH-DOES-NOT-APPLY"; continue; fi
  git -C /repo apply $PATCHF
  res=""
  for c in $checks; do
    caught=""
    for s in 0 1 2; do
      VERIF_SEED=$s ./check $c > .work/matrix-$id-$c-$s.log 2>&1; rc=$?
      if [ $rc -eq 1 ]; then caught="seed$s"; break; fi
      if [ $rc -ne 0 ]; then caught="exit$rc@seed$s"; break; fi
    done
    res="$res $c:${caught:-MISSED(seeds 0-2)}"
  done
  git -C /repo checkout -- .
  echo "$id:$res"
done
