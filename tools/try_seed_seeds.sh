#!/usr/bin/env bash
# tools/try_seed_seeds.sh <patch> <Cxx> <seed>... : apply once, run the quick check for each seed, revert
set -u
PATCH=$1; PROP=$2; shift 2
cd /repo; git diff --quiet || { echo "/repo dirty"; exit 3; }
git apply "$PATCH" || exit 3
cd /verif
for s in "$@"; do
  VERIF_SEED=$s ./check $PROP > /verif/.work/seed-run-$s.log 2>&1; rc=$?
  echo "seed=$s exit=$rc $(grep -E '^summary' /verif/.work/seed-run-$s.log | cut -c1-120)"
  grep -E "^violation detail" /verif/.work/seed-run-$s.log | sort | uniq -c | head -3
done
git -C /repo checkout -- .
