#!/usr/bin/env python3
"""mkreplay.py <property> <name> <spec.json|violation.json> <signature> <message>: store a shrunk AppSpec as a committed replay"""
import json, sys
prop, name, src, sig, msg = sys.argv[1:6]
d = json.load(open(src))
spec = d["case"]["spec"] if "case" in d else d
out = {"property": prop, "campaign": "recorded", "signature": sig, "message": msg, "case": {"spec": spec}}
import os
os.makedirs(f"/verif/replays/{prop}", exist_ok=True)
json.dump(out, open(f"/verif/replays/{prop}/{name}.json", "w"), indent=1)
print(f"/verif/replays/{prop}/{name}.json")
