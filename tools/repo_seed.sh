#!/usr/bin/env bash
# tools/repo_seed.sh <ID e.g. C16> <A|B> <check-prop> [seeds, default "0"]
# Round-3 helper for seeded changes that touch the RUNTIME crates (the harness depends on them by path, so
# the change has to be applied to /repo itself): confirms the sub-agent's demo in its scratch worktree
# (exit 0 without / 1 with the change; existing tests of the touched crates), applies the patch to /repo,
# runs ./check <check-prop>, and reverts /repo straight afterwards. Nothing else may use /repo meanwhile.
set -u
P=$1; V=$2; CP=$3; SEEDS=${4:-0}; CRATES=${5:--p pavex}
WT=/tmp/seed/$P; OUT=/tmp/seed/$P.out/$V; LOG=$OUT/confirm.log
cd /repo; if ! git diff --quiet; then echo "/repo dirty"; exit 3; fi
cd "$WT" || exit 9
git checkout -q -- . ; git checkout -q --detach "$(git -C /repo rev-parse HEAD)" || exit 9
. /tmp/seedkit/env.sh "$P" >/dev/null 2>&1
: > "$LOG"
echo "## demo WITHOUT change (worktree at $(git rev-parse --short HEAD))" >> "$LOG"
bash "$OUT/demo/run.sh" >> "$LOG" 2>&1; RC0=$?
git apply "$OUT/patch.diff" || { echo "CONFIRM $P $V: patch does not apply" | tee -a "$LOG"; exit 9; }
echo "## demo WITH change" >> "$LOG"
bash "$OUT/demo/run.sh" >> "$LOG" 2>&1; RC1=$?
echo "## existing tests WITH change ($CRATES)" >> "$LOG"
( CARGO_INCREMENTAL=0 cargo test --offline -j 8 --no-fail-fast $CRATES 2>&1 | grep -E "^test result|FAILED|panicked|^error" ) > "$OUT/confirm_existing.log" 2>&1
FAILED=$(grep -E "FAILED|[1-9][0-9]* failed|^error" "$OUT/confirm_existing.log" | grep -v -i "mysql\|postgres\|redis" | wc -l)
git checkout -q -- .
echo "CONFIRM $P $V: demo_without_rc=$RC0 (want 0) demo_with_rc=$RC1 (want 1) existing_failed=$FAILED" | tee -a "$LOG"
cd /repo && git apply "$OUT/patch.diff" || { echo "patch does not apply to /repo"; exit 9; }
for S in $SEEDS; do
  ( cd /verif && HOME=/root VERIF_SEED=$S VERIF_SIDE=$P$V ./check "$CP" --tier quick > /verif/.work/repo-seed-$P$V.log 2>&1 ); RCC=$?
  echo "CHECK $P $V: check=$CP seed=$S rc=$RCC" | tee -a "$LOG"
  grep -E "^(VIOLATION|KNOWN-FINDING|summary|INFRA)" /verif/.work/repo-seed-$P$V.log | cut -c1-300 | head -4 | tee -a "$LOG"
  grep -A5 "^violation detail" /verif/.work/repo-seed-$P$V.log | cut -c1-400 | head -14 | tee -a "$LOG"
  [ $RCC -eq 1 ] && break
done
git -C /repo checkout -- .
rm -rf /verif/.work-side-$P$V
