#!/usr/bin/env bash
# tools/confirm_rt_seed.sh <ID e.g. C13r2> <A|B> <crate> <demo source file> <dest rel path of the test file> [extra cargo test args...]
# Confirms a seeded change in its scratch worktree /tmp/seed/<ID>: demo passes on HEAD, fails with the patch, existing tests of the crate pass with the patch.
set -u
P=$1; V=$2; CRATE=$3; DEMO=$4; DEST=$5; shift 5
WT=/tmp/seed/$P; OUT=/tmp/seed/$P.out/$V; LOG=$OUT/confirm.log
PATCH=$OUT/patch.diff; [ -f $OUT/patch.rebased.diff ] && PATCH=$OUT/patch.rebased.diff
NAME=$(basename "$DEST" .rs)
cd "$WT" || exit 9
git checkout -q -- . ; git checkout -q --detach $(git -C /repo rev-parse HEAD) 2>/dev/null; : > "$LOG"
mkdir -p "$(dirname "$WT/$DEST")"; cp "$OUT/$DEMO" "$WT/$DEST"
echo "## demo WITHOUT change" >> "$LOG"
cargo test --offline -j 8 -p "$CRATE" --test "$NAME" --target-dir "$WT/target" "$@" >> "$LOG" 2>&1; RC0=$?
git apply "$PATCH" || { echo "CONFIRM $P $V: patch does not apply" | tee -a "$LOG"; rm -f "$WT/$DEST"; exit 9; }
echo "## demo WITH change" >> "$LOG"
cargo test --offline -j 8 -p "$CRATE" --test "$NAME" --target-dir "$WT/target" "$@" >> "$LOG" 2>&1; RC1=$?
rm -f "$WT/$DEST"
echo "## existing tests WITH change" >> "$LOG"
cargo test --offline -j 8 --no-fail-fast -p "$CRATE" --target-dir "$WT/target" "$@" > "$OUT/confirm_existing.log" 2>&1
FAILED=$(grep -E "^test .* FAILED$" "$OUT/confirm_existing.log" | grep -v -i "mysql\|postgres\|redis" | wc -l)
git checkout -q -- .
echo "CONFIRM $P $V: demo_without_rc=$RC0 (want 0) demo_with_rc=$RC1 (want !=0) existing_non_db_failed_tests=$FAILED" | tee -a "$LOG"
