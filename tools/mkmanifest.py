#!/usr/bin/env python3
"""Regenerates /verif/MANIFEST.json from the table below (single source of truth)."""
import json, subprocess, os

CHECKS = {
 "C11": ("rtprops", "model-based property testing (proptest): generated request/operation histories against a map-based session model, real cookie pipeline, store inspected after every request",
         "Random histories (1-7 requests x 0-8 ops, 5-dimensional configuration, cookie replay choices, in-memory and SQLite stores) are run through the real extract->Session->finalize_session->inject pipeline; every op result, emitted cookie and the whole store are compared with a reference model after each step. Shallow and mid-depth state-machine defects (4 genuine ones found and fixed, 2 seeded ones) are found within tens of cases; cannot show absence.",
         "Trusted: the reference model in harness/rtprops/src/sess.rs. Creation of *empty* records is not judged; inserts between delete() and sync() are not executed; store is fault-free; TTLs never expire during a case.",
         "DESIGN.md §4 C11"),
 "C12": ("rtprops", "property-based testing (proptest): generated processor/cookie/session configurations x histories, independent rule evaluation + independent Set-Cookie parse + Debug scan",
         "Random (crypto rules x cookie config x session config x 1-3 request histories) cases through the real finalize_session + inject_response_cookies; the oracle re-derives sign/encrypt coverage from the rule assignment, checks that a cookie is attached only when adequately protected and that a failing request leaves no session cookie behind, compares all attributes (object and wire level) and scans Debug output for the id. Both seeded defects found in <=3 cases.",
         "Trusted: harness-side rule evaluation and Set-Cookie parser; each cookie name appears in at most one crypto rule.",
         "DESIGN.md §4 C12"),
 # id: (engine, technique, level text, level note, design_ref)
 "C17": ("rtprops", "property-based testing (proptest): algebraic laws + independent structural model + render/parse round trip over generated type pairs/triples",
         "Random search over pairs/triples of types (depth<=4) built as template/instantiation, renamed copies, single-point mutations and independent pairs; every law of the statement is an executable oracle. Finds shallow and mid-depth law violations with high probability (both seeded defects are found in <10 cases); cannot show absence.",
         "Trusted: the harness-side mirror type, its structural comparison and the syn->mirror reader. Lifetimes and fn-pointer parameter names are treated as irrelevant. Completeness of is_a_template_for is classified, not asserted.",
         "DESIGN.md §4 C17"),
}

PENDING = {}  # id -> reason, filled below for everything not in CHECKS

props = [json.loads(l)["id"] for l in open("/verif/properties.jsonl")]
for p in props:
    if p not in CHECKS:
        PENDING[p] = "check not built yet (work in progress; see DESIGN.md for the plan)"

def hook_commits():
    try:
        out = subprocess.run(["git", "-C", "/repo", "log", "--format=%H %s"], capture_output=True, text=True).stdout
        return [l.split()[0] for l in out.splitlines() if " verif-hook:" in l]
    except Exception:
        return []

manifest = {
 "version": 1,
 "setup_cmd": "./setup.sh",
 "hooks": {
   "guard": "cargo feature `verif_hooks` (crates pavex and pavexc), default off",
   "enable": "the harness crates under /verif/harness depend on /repo crates by path with features=[\"verif_hooks\"]; pavexc is built with `--features pavexc/verif_hooks`",
   "baseline_off_cmd": "cd /repo && cargo nextest run --workspace --no-fail-fast --test-threads 8 --offline || cargo test --workspace --no-fail-fast --offline",
   "source_commits": hook_commits(),
   "add_only": True,
 },
 "engines": [
   {"name": "rtprops", "path": "harness/rtprops", "serves_properties": [p for p in props if p in CHECKS and CHECKS[p][0]=="rtprops"],
    "kind_free_text": "in-process proptest checks against the real runtime/compiler library crates (path dependencies on /repo), fixed-seed TestRunner, shrunk failures saved as replay files"},
 ],
 "checks": [],
 "not_applicable": [{"property_id": p, "reason": r} for p, r in PENDING.items()],
 "notes": "All checks: ./check <id> [--tier quick|thorough] [--replay file]; VERIF_SEED selects the PRNG stream; exit 2 = infrastructure/inconclusive (never a violation). Known findings live in known_findings.json.",
}
for p in props:
    if p in CHECKS:
        eng, tech, text, note, ref = CHECKS[p]
        manifest["checks"].append({
            "property_id": p,
            "quick_cmd": f"./check {p} --tier quick",
            "thorough_cmd": f"./check {p} --tier thorough",
            "evidence_file": f"/verif/evidence/{p}.json",
            "replay_cmd_template": f"./check {p} --replay {{path}}",
            "engine": eng,
            "level_claimed": {"category": "exploration", "text": text, "design_ref": ref},
            "level_note": note,
            "technique": tech,
        })
json.dump(manifest, open("/verif/MANIFEST.json", "w"), indent=1)
print("wrote MANIFEST.json:", len(manifest["checks"]), "checks,", len(manifest["not_applicable"]), "pending")
