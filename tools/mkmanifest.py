#!/usr/bin/env python3
"""Regenerates /verif/MANIFEST.json from the table below (single source of truth)."""
import json, subprocess, os

CHECKS = {
 "C16": ("rtprops", "scenario-based property testing (proptest): generated shutdown scenarios over loopback with connection states pinned by handler signals and hook H4; per-request completion + timing-window oracle",
         "Each scenario starts a real pavex server (1-3 workers), puts connections into chosen states (mid-handler via start signal, queued behind a thread-blocking handler via hook H4, idle keep-alive), calls shutdown(Graceful/Forced, incl. Duration::MAX and a too-short timeout), optionally a second shutdown from another handle, and checks: every in-budget request answered in full, neither shutdown nor handle.await resolves before in-budget handlers finish, resolution near the last completion (not at the timeout), Forced prompt, connect refused afterwards, nothing served while draining. One genuine defect found and fixed; both seeded defects caught after two strengthenings. Interleavings inside hyper/tokio are sampled.",
         "Trusted: hook H4 (a counter), the raw TCP client, >=100 ms separation between generated durations and thresholds; slow resolutions within 10x slack are labelled inconclusive.",
         "DESIGN.md §4 C16"),
 "C20": ("cprops", "property-based testing (proptest): grammar + mutation generated guards x derived/near-miss hosts, independent validator and matcher vs the compiler's validator/pattern (hook H2) in a real matchit router; pairwise conflict relation",
         "Guards from a grammar and single mutations, judged by an independent validator; accepted guards are matched against hosts by an independent matcher and by a real matchit router loaded with the compiler's pattern under the documented host normalisation; pairs: reported conflicts need a common host, identically shaped guards must conflict. One genuine validator defect found and fixed; both seeded defects caught. The host normalisation of the generated server is covered end to end by the E2E engine.",
         "Trusted: hook H2 (a forwarding wrapper), the harness validator/matcher. Host case, non-ASCII parameter names and overlaps resolved by router specificity are classified only.",
         "DESIGN.md §4 C20"),
 "C18": ("rtprops", "property-based testing (proptest): generated key->sources assignments x profile x directory form, one child process per case, precedence model",
         "Each case writes base.yml/<profile>.yml, sets PX_ variables in a cleared child environment and loads the configuration with the real ConfigLoader (derive-macro profile enum incl. custom names with digits/upper case); the loaded map must equal env ?? profile ?? base for every key and contain nothing else; no valid profile / missing required key must be errors. Both seeded defects caught within 9 cases.",
         "Trusted: the harness YAML writer and flattening; values are strings figment cannot re-type. A missing profile *file* and profile selection purely via PX_PROFILE=<other valid> are classified only.",
         "DESIGN.md §4 C18"),
 "C19": ("rtprops", "property-based testing (proptest): generated Blueprint API call sequences through #[track_caller] wrappers against a reference schema built in parallel; persist -> ron::de round trip",
         "Part (a): random call sequences (all registration kinds, modifier chains incl. overriding calls, nesting depth<=5) build a real Blueprint and a reference pavex_bp_schema::Blueprint; persist() output read back exactly like pavexc_cli must equal the reference incl. every source location; persist twice / load+persist are byte-identical. Seed C19-A caught in the first case. Part (b) (attributes through the real macros -> rustdoc JSON -> annotation parser) is served by the E2E engine.",
         "Trusted: the reference construction in harness/rtprops/src/c19.rs.",
         "DESIGN.md §4 C19"),
 "C13": ("rtprops", "model-based property testing (proptest): generated store operation histories against a map-with-expiry model on both bundled stores; concurrent histories checked for serialisability by memoised search",
         "Sequential: 1-40 ops over 3 ids with arbitrary JSON states and ttl in {0,1h,10y}, every result compared with the model, final scan of every id. Concurrent: 2-4 tasks x 2-5 ops on 2 ids on a multi-thread runtime (memory store, SQLite file DB with 4 connections), repeated, accepted iff some program-order-respecting interleaving explains all results. Found and fixed a genuine SQLite boundary defect; both seeded defects (one sequential, one race) are caught. The thread schedule is sampled, not enumerated.",
         "Trusted: the map model (Model::step). create on a live id may answer Ok-without-effect; change_id onto an expired-but-unpurged id may be refused; floats restricted to text-roundtrip-safe values.",
         "DESIGN.md §4 C13"),
 "C14": ("rtprops", "property-based testing (proptest): generated (limit, length, framing, Content-Length) cases through hook H1 in-process and through a loopback pavex server with a raw TCP client",
         "In-process: arbitrary frame sequences (data, empty, trailers, injected stream error) fed to the real size-limited buffering code via hook H1, Content-Length from 7 classes incl. lies and garbage, followed by JsonBody/UrlEncodedBody; loopback: the real BufferedBody::extract behind pavex::server::Server with chunked / Content-Length framing chosen by a raw client. Boundary lengths N and N+1 are generated by construction. Both seeded defects caught (59 and ~1500 cases).",
         "Trusted: hook H1 (a forwarding wrapper), the harness Body implementation, the raw HTTP client. For malformed Content-Length values rejection is allowed on any lenient numeric reading, never required.",
         "DESIGN.md §4 C14"),
 "C15": ("rtprops", "property-based testing (proptest): encode->extract round trip over generated struct shapes/values with independent encoders (percent, form, JSON) and a real matchit router; generated malformations against documented error classes",
         "4 channels x 8 shapes x generated values x randomised encoders; field-by-name comparison of what the extractor returns with what was encoded; malformed inputs (wrong type, invalid UTF-8, missing field, 315 Content-Type variants, truncated JSON) must yield the documented error class. Both seeded defects caught within 21 cases.",
         "Trusted: the harness encoders and the shape tables. Query/form invalid UTF-8 is only classified (lossy decoding by the URL library); `key=` for Option<String> is not generated.",
         "DESIGN.md §4 C15"),
 "C11": ("rtprops", "model-based property testing (proptest): generated request/operation histories against a map-based session model, real cookie pipeline, store inspected after every request",
         "Random histories (1-7 requests x 0-8 ops, 5-dimensional configuration, cookie replay choices, in-memory and SQLite stores) are run through the real extract->Session->finalize_session->inject pipeline; every op result, emitted cookie and the whole store are compared with a reference model after each step. Shallow and mid-depth state-machine defects (4 genuine ones found and fixed, 2 seeded ones) are found within tens of cases; cannot show absence.",
         "Trusted: the reference model in harness/rtprops/src/sess.rs. Creation of *empty* records is not judged; inserts between delete() and sync() are not executed; store is fault-free; TTLs never expire during a case.",
         "DESIGN.md §4 C11"),
 "C12": ("rtprops", "property-based testing (proptest): generated processor/cookie/session configurations x histories, independent rule evaluation + independent Set-Cookie parse + Debug scan",
         "Random (crypto rules x cookie config x session config x 1-3 request histories) cases through the real finalize_session + inject_response_cookies; the oracle re-derives sign/encrypt coverage from the rule assignment, checks that a cookie is attached only when adequately protected and that a failing request leaves no session cookie behind, compares all attributes (object and wire level) and scans Debug output for the id. Both seeded defects found in <=3 cases.",
         "Trusted: harness-side rule evaluation and Set-Cookie parser; each cookie name appears in at most one crypto rule.",
         "DESIGN.md §4 C12"),
 # id: (engine, technique, level text, level note, design_ref)
 "C17": ("rtprops", "property-based testing (proptest): algebraic laws + independent structural model + render/parse round trip over generated type pairs/triples",
         "Random search over pairs/triples of types (depth<=4) built as template/instantiation, renamed copies, single-point mutations and independent pairs; every law of the statement is an executable oracle. Finds shallow and mid-depth law violations with high probability (both seeded defects are found in <10 cases); cannot show absence.",
         "Trusted: the harness-side mirror type, its structural comparison and the syn->mirror reader. Lifetimes and fn-pointer parameter names are treated as irrelevant. Completeness of is_a_template_for is classified, not asserted.",
         "DESIGN.md §4 C17"),
}

PENDING = {}  # id -> reason, filled below for everything not in CHECKS

props = [json.loads(l)["id"] for l in open("/verif/properties.jsonl")]
for p in props:
    if p not in CHECKS:
        PENDING[p] = "check not built yet (work in progress; see DESIGN.md for the plan)"

def hook_commits():
    try:
        out = subprocess.run(["git", "-C", "/repo", "log", "--format=%H %s"], capture_output=True, text=True).stdout
        return [l.split()[0] for l in out.splitlines() if " verif-hook:" in l]
    except Exception:
        return []

manifest = {
 "version": 1,
 "setup_cmd": "./setup.sh",
 "hooks": {
   "guard": "cargo feature `verif_hooks` (crates pavex and pavexc), default off",
   "enable": "the harness crates under /verif/harness depend on /repo crates by path with features=[\"verif_hooks\"]; pavexc is built with `--features pavexc/verif_hooks`",
   "baseline_off_cmd": "cd /repo && cargo nextest run --workspace --no-fail-fast --test-threads 8 --offline || cargo test --workspace --no-fail-fast --offline",
   "source_commits": hook_commits(),
   "add_only": True,
 },
 "engines": [
   {"name": "cprops", "path": "harness/cprops", "serves_properties": [p for p in props if p in CHECKS and CHECKS[p][0]=="cprops"],
    "kind_free_text": "in-process proptest checks that link the compiler library (pavexc, feature verif_hooks)"},
   {"name": "rtprops", "path": "harness/rtprops", "serves_properties": [p for p in props if p in CHECKS and CHECKS[p][0]=="rtprops"],
    "kind_free_text": "in-process proptest checks against the real runtime/compiler library crates (path dependencies on /repo), fixed-seed TestRunner, shrunk failures saved as replay files"},
 ],
 "checks": [],
 "not_applicable": [{"property_id": p, "reason": r} for p, r in PENDING.items()],
 "notes": "All checks: ./check <id> [--tier quick|thorough] [--replay file]; VERIF_SEED selects the PRNG stream; exit 2 = infrastructure/inconclusive (never a violation). Known findings live in known_findings.json.",
}
for p in props:
    if p in CHECKS:
        eng, tech, text, note, ref = CHECKS[p]
        manifest["checks"].append({
            "property_id": p,
            "quick_cmd": f"./check {p} --tier quick",
            "thorough_cmd": f"./check {p} --tier thorough",
            "evidence_file": f"/verif/evidence/{p}.json",
            "replay_cmd_template": f"./check {p} --replay {{path}}",
            "engine": eng,
            "level_claimed": {"category": "exploration", "text": text, "design_ref": ref},
            "level_note": note,
            "technique": tech,
        })
json.dump(manifest, open("/verif/MANIFEST.json", "w"), indent=1)
print("wrote MANIFEST.json:", len(manifest["checks"]), "checks,", len(manifest["not_applicable"]), "pending")
