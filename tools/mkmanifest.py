#!/usr/bin/env python3
"""Regenerates /verif/MANIFEST.json from the table below (single source of truth)."""
import json, subprocess, os

CHECKS = {
 "C16": ("rtprops", "scenario-based property testing (proptest): generated shutdown scenarios over loopback with connection states pinned by handler signals and hook H4; per-request completion + timing-window oracle",
         "Each scenario starts a real pavex server (1-3 workers), puts connections into chosen states (mid-handler via start signal, queued behind a thread-blocking handler via hook H4, idle keep-alive), calls shutdown(Graceful/Forced, incl. Duration::MAX and a too-short timeout), optionally a second shutdown from another handle, and checks: every in-budget request answered in full, neither shutdown nor handle.await resolves before in-budget handlers finish, resolution near the last completion (not at the timeout), Forced prompt, connect refused afterwards, nothing served while draining. One genuine defect found and fixed; both seeded defects caught after two strengthenings. Interleavings inside hyper/tokio are sampled.",
         "Trusted: hook H4 (a counter), the raw TCP client, >=100 ms separation between generated durations and thresholds; slow resolutions within 10x slack are labelled inconclusive.",
         "DESIGN.md §4 C16"),
 "C20": ("cprops", "property-based testing (proptest): grammar + mutation generated guards x derived/near-miss hosts, independent validator and matcher vs the compiler's validator/pattern (hook H2) in a real matchit router; pairwise conflict relation",
         "Guards from a grammar and single mutations, judged by an independent validator; accepted guards are matched against hosts by an independent matcher and by a real matchit router loaded with the compiler's pattern under the documented host normalisation; pairs: reported conflicts need a common host, identically shaped guards must conflict. Two genuine validator defects found and fixed (parameter names with blanks; more than 25 parameters crash the router: found by the libFuzzer stage of the thorough tier, then reproduced by the proptest campaign); both seeded defects caught. The host normalisation of the generated server is covered end to end by the E2E engine.",
         "Trusted: hook H2 (a forwarding wrapper), the harness validator/matcher. Host case, non-ASCII parameter names and overlaps resolved by router specificity are classified only.",
         "DESIGN.md §4 C20"),
 "C18": ("rtprops", "property-based testing (proptest): generated key->sources assignments x profile x directory form, one child process per case, precedence model",
         "Each case writes base.yml/<profile>.yml, sets PX_ variables in a cleared child environment and loads the configuration with the real ConfigLoader (derive-macro profile enum incl. custom names with digits/upper case); the loaded map must equal env ?? profile ?? base for every key and contain nothing else; no valid profile / missing required key must be errors. Both seeded defects caught within 9 cases.",
         "Trusted: the harness YAML writer and flattening; values are strings figment cannot re-type. A missing profile *file* and profile selection purely via PX_PROFILE=<other valid> are classified only.",
         "DESIGN.md §4 C18"),
 "C19": ("rtprops", "property-based testing (proptest): (a) generated Blueprint API call sequences through #[track_caller] wrappers against a reference schema built in parallel, persist -> ron::de round trip; (b) generated applications whose attribute arguments (lifecycle, cloning policy, allow lists, method sets incl. mixed-case custom methods, any_method) are written in the attributes and partly overridden at registration, through the real macros -> rustdoc JSON -> pavexc -> running server, judged by the lifecycle / routing reference models",
         "Part (a): random call sequences (all registration kinds, modifier chains incl. overriding calls, nesting depth<=5) build a real Blueprint and a reference pavex_bp_schema::Blueprint; persist() output read back exactly like pavexc_cli must equal the reference incl. every source location; persist twice / load+persist are byte-identical. Part (b) (engine pxe2e, evidence merged into the same file): the effective properties must be the ones observed at run time (instances per lifecycle, clones only for clone-if-necessary, unused-constructor warning iff no allow(unused), every route answering exactly its method set). Seed C19-A caught by (a) in the first case, C19-B (method names upper-cased by the attribute parser) by (b).",
         "Trusted: the reference construction in harness/rtprops/src/c19.rs; for (b) the emitter and the models of C03/C04/C07. Attribute arguments of config/prebuilt/error_handler(default) are exercised only as far as the generators use them.",
         "DESIGN.md §4 C19"),
 "C13": ("rtprops", "model-based property testing (proptest): generated store operation histories against a map-with-expiry model on both bundled stores; concurrent histories checked for serialisability by memoised search",
         "Sequential: 1-40 ops over 3 ids with arbitrary JSON states and ttl in {0,1h,10y}, every result compared with the model, final scan of every id. Concurrent: 2-4 tasks x 2-5 ops on 2 ids on a multi-thread runtime (memory store, SQLite file DB with 4 connections), repeated, accepted iff some program-order-respecting interleaving explains all results. Found and fixed a genuine SQLite boundary defect; both seeded defects (one sequential, one race) are caught. The thread schedule is sampled, not enumerated.",
         "Trusted: the map model (Model::step). create on a live id may answer Ok-without-effect; change_id onto an expired-but-unpurged id may be refused; floats restricted to text-roundtrip-safe values.",
         "DESIGN.md §4 C13"),
 "C14": ("rtprops", "property-based testing (proptest): generated (limit, length, framing, Content-Length) cases through hook H1 in-process and through a loopback pavex server with a raw TCP client",
         "In-process: arbitrary frame sequences (data, empty, trailers, injected stream error) fed to the real size-limited buffering code via hook H1, Content-Length from 7 classes incl. lies and garbage, followed by JsonBody/UrlEncodedBody; loopback: the real BufferedBody::extract behind pavex::server::Server with chunked / Content-Length framing chosen by a raw client. Boundary lengths N and N+1 are generated by construction. Both seeded defects caught (59 and ~1500 cases).",
         "Trusted: hook H1 (a forwarding wrapper), the harness Body implementation, the raw HTTP client. For malformed Content-Length values rejection is allowed on any lenient numeric reading, never required.",
         "DESIGN.md §4 C14"),
 "C15": ("rtprops", "property-based testing (proptest): encode->extract round trip over generated struct shapes/values with independent encoders (percent, form, JSON) and a real matchit router; generated malformations against documented error classes",
         "4 channels x 8 shapes x generated values x randomised encoders; field-by-name comparison of what the extractor returns with what was encoded; malformed inputs (wrong type, invalid UTF-8, missing field, 315 Content-Type variants, truncated JSON) must yield the documented error class. Both seeded defects caught within 21 cases.",
         "Trusted: the harness encoders and the shape tables. Query/form invalid UTF-8 is only classified (lossy decoding by the URL library); `key=` for Option<String> is not generated.",
         "DESIGN.md §4 C15"),
 "C11": ("rtprops", "model-based property testing (proptest): generated request/operation histories against a map-based session model, real cookie pipeline, store inspected after every request",
         "Random histories (1-7 requests x 0-8 ops, 5-dimensional configuration, cookie replay choices, in-memory and SQLite stores) are run through the real extract->Session->finalize_session->inject pipeline; every op result, emitted cookie and the whole store are compared with a reference model after each step. Shallow and mid-depth state-machine defects (4 genuine ones found and fixed, 2 seeded ones) are found within tens of cases; cannot show absence.",
         "Trusted: the reference model in harness/rtprops/src/sess.rs. Creation of *empty* records is not judged; inserts between delete() and sync() are not executed; store is fault-free; TTLs never expire during a case.",
         "DESIGN.md §4 C11"),
 "C12": ("rtprops", "property-based testing (proptest): generated processor/cookie/session configurations x histories, independent rule evaluation + independent Set-Cookie parse + Debug scan",
         "Random (crypto rules x cookie config x session config x 1-3 request histories) cases through the real finalize_session + inject_response_cookies; the oracle re-derives sign/encrypt coverage from the rule assignment, checks that a cookie is attached only when adequately protected and that a failing request leaves no session cookie behind, compares all attributes (object and wire level) and scans Debug output for the id. Both seeded defects found in <=3 cases.",
         "Trusted: harness-side rule evaluation and Set-Cookie parser; each cookie name appears in at most one crypto rule.",
         "DESIGN.md §4 C12"),
 # id: (engine, technique, level text, level note, design_ref)
 "C17": ("rtprops", "property-based testing (proptest) + coverage-guided fuzzing (libFuzzer, thorough tier): algebraic laws + independent structural model + render/parse round trip over generated type pairs/triples",
         "Random search over pairs/triples of types (depth<=4) built as template/instantiation, renamed copies, single-point mutations and independent pairs; every law of the statement is an executable oracle. The thorough tier adds a coverage-guided libFuzzer stage (ASan) whose input bytes are decoded into the same case classes and judged by the same oracle. Finds shallow and mid-depth law violations with high probability (both seeded defects are found in <10 cases); cannot show absence.",
         "Trusted: the harness-side mirror type, its structural comparison and the syn->mirror reader. Lifetimes and fn-pointer parameter names are treated as irrelevant. Completeness of is_a_template_for is classified, not asserted.",
         "DESIGN.md §4 C17"),
}

CHECKS.update({
 "C01": ("pxe2e", "generative end-to-end testing (proptest generator of application crates -> real pavexc -> rustc): differential 'pavexc accepted => rustc accepts the SDK'",
         "Application crates are generated from a typed genome (1-7 injectable types with lifecycle / cloning policy / Copy / fallibility / async-ness / two constructor variants, 0-6 middlewares of the three kinds, 1-4 routes incl. bulk imports, error handlers and observers at any nesting level, framework-provided inputs, generic constructors, attribute values overridden at registration, nesting <=3), plus stage-stress applications (many middlewares of one stage sharing clone-if-necessary / Copy values in every move/borrow pattern) and generated route tables with fallbacks; compiled by the real `pavexc generate` (one sub-application per module, several per round) and every accepted SDK is compiled by rustc together with the application. A rejection by rustc of code pavexc accepted is the violation. Finds shallow and mid-depth codegen defects in the generated class (both seeded defects at the default seed); cannot show absence; no trait-bound generics, trait objects or lifetime-parameterised user types.",
         "Trusted: the emitter (harness/pxe2e/src/emit.rs) produces what the spec says; toolchain alias `nightly` with locally built std JSON docs stands in for the pinned docs toolchain.",
         "DESIGN.md §3, §4 C01"),
 "C02": ("pxe2e", "generative end-to-end testing: applications generated inside the documented-rules class by construction; oracle 'accepted with no ERROR', alone and nested with siblings",
         "The generator assigns every injectable type a usage discipline (borrow-only, move-once, Copy, clone-if-necessary, transient) and builds constructors, middlewares and handlers that respect it, so that by the documented rules the application must be accepted; every rejection is a violation (or a listed finding). Three genuine defects found and fixed (Copy values across middleware stages; two compiler panics on rule-abiding applications: node ordering stuck, dangling pavex::Error::new). Cannot show absence.",
         "Trusted: the discipline assignment in harness/pxe2e/src/genr.rs encodes the documented rules (each rule is cited in DESIGN.md). Generic constructors are generated only in the dedicated generics family.",
         "DESIGN.md §4 C02"),
 "C03": ("pxe2e", "generative end-to-end testing with an instrumented application: event-log invariants over generated request scripts (model-based oracle for lifecycles)",
         "Every accepted generated application is built into a real server; a driver sends request scripts (each route x plans: none / early return / skip next / fail component) over loopback; constructors and components log construction and reception events with instance ids. Oracle: singleton built once before serving and shared, request-scoped at most once per request and shared, transient once per injection site (never shared, and on requests where nothing fails every transient that was built was injected somewhere), nothing received before it was built. Every third application writes lifecycles differently in the attribute and overrides them at registration. Samples schedules of a single-connection client; concurrency between requests is not explored here.",
         "Trusted: the instrumentation template (harness/pxe2e/src/templates/rt.rs) and the event-log oracle (oracles.rs).",
         "DESIGN.md §4 C03"),
 "C04": ("pxe2e", "generative end-to-end testing: scope-resolution reference model (nearest enclosing blueprint, latest registration) vs the constructor variant observed at run time; clone/move accounting",
         "Types get two constructor variants (possibly of different fallibility) registered at different nesting levels and twice in one blueprint; the instance id records which variant built the value each component received; compared with the reference resolution. Never-clone values must never be cloned, clone-if-necessary values only cloned (counted). Cannot show absence.",
         "Trusted: model::resolve_ctor and the instrumentation. Singletons have one registration (documented rule).",
         "DESIGN.md §4 C04"),
 "C05": ("pxe2e", "generative end-to-end testing: documented stage semantics of pre/post/wrapping middlewares as a reference interpreter; exact enter/exit trace comparison",
         "Arbitrary interleavings of pre-processing, post-processing and wrapping middleware registrations, routes and nested blueprints x plans (continue / early return / do-not-call-next); the observed enter/exit sequence, the response status/body and the post-processor stamps must equal the reference interpreter's prediction. Cannot show absence.",
         "Trusted: model::expected_trace (written from the middleware documentation).",
         "DESIGN.md §4 C05"),
 "C06": ("pxe2e", "generative end-to-end testing: per-failure oracle over the event log (error handler once, observers in order, dependants skipped, client sees the handler's response)",
         "Fallible constructors, middlewares and handlers are made to fail one at a time (and post-processors repeatedly) by the request plan; for every failure event in the log: exactly one designated error handler ran on that error, every observer in scope ran once each in registration order after it, no dependant of the failed value ran, the response comes from the error handler. Cannot show absence.",
         "Trusted: model::resolve_err_handler and oracles::check_failure. Every real error type has its handler in the root blueprint; nested blueprints register an extra handler for an error type nothing returns (scoped overrides of the same error type are not generated: the docs do not pin them down).",
         "DESIGN.md §4 C06"),
 "C07": ("pxe2e", "generative end-to-end testing + model-based oracle: generated route tables (static/param/catch-all segments, method guards incl. ANY and custom, prefixes, domains, fallbacks) vs an independent reference router, requests derived from the routes and mutated",
         "Route tables are generated, filtered by the documented conflict rules, compiled and served; requests derived from each route (matching, near-miss, wrong method, trailing slash, percent-encoding, Host variants incl. port / trailing dot / case) are sent over loopback and the answering handler, 404/405 + Allow set and the fallback chosen are compared with the reference router. Five genuine defects found and fixed (prefix off-by-one panic, exact-prefix fallback, start-up order conflicts, two trailing dots, nested fallback silently dropped under a parametric prefix). Cannot show absence.",
         "Trusted: model::route_request. A domain whose only content is nested under a prefix, and an un-prefixed nested fallback below a prefixed ancestor without its own fallback (pavexc reports an ambiguity), are not generated; static-vs-parameter priority and host case are classified only.",
         "DESIGN.md §4 C07"),
 "C08": ("pxe2e", "mutation-based generative testing: exactly one violation of one of 14 documented compile-time rules planted at a generated site of a rule-abiding application; oracle 'exit 1, >=1 ERROR, output crate untouched'",
         "For each base application every rule is planted at a seed-chosen site among the components pavexc must analyse (any dependency depth, nested blueprints, middlewares incl. wrapping ones, observers, error handlers, through a generic constructor); the crate still compiles as Rust; pavexc must refuse it with an error diagnostic, must not crash and must not touch the output crate. The first diagnostic is recorded per rule to show that the planted rule is the one reported. One genuine defect found and fixed (inputs of error handlers were not checked). Cannot show absence.",
         "Trusted: genr::plant (site selection = components reachable from a route) and the emitter.",
         "DESIGN.md §4 C08"),
 "C09": ("pxe2e", "generative robustness testing (chaos class): several planted violations + structural oddities; oracle 'terminates, exit 0 with SDK or exit 1 with ERROR, never a panic'; atomicity by checksum of a previously generated SDK",
         "Pairs (accepted base, chaos variant) are compiled into the same output crate; every compiler run must end within the watchdog with exit 0/1 coherent with its diagnostics and without panic; a failing variant must leave the base SDK byte-for-byte untouched. Recorded reproductions of the two repaired compiler panics are replayed on every run. A compiler process that burns more than 90 s of its own CPU time (warm runs: 1-5 s; independent of machine load) is reported as non-terminating; a run that merely exceeds the 150 s wall-clock watchdog makes the check exit 2 (inconclusive). Cannot show absence.",
         "Trusted: panic detection = exit code 101 / 'The application panicked' on stderr; checksum over all files of the output crate.",
         "DESIGN.md §4 C09"),
 "C10": ("pxe2e", "history-based property testing: generated accepted applications x a fixed history of compiler runs (repeat, --check, fresh processes with RAYON_NUM_THREADS 1/2/16, perturbation, cold cache) with byte/mtime comparison",
         "Each application goes through: generate; generate again (same bytes, same mtimes); --check (exit 0, nothing touched); three regenerations from a reset output crate in fresh processes with different thread counts (same bytes of Cargo.toml, lib.rs, diagnostics graph); one-byte perturbation -> --check exits non-zero and does not repair -> regenerate restores the bytes; thorough adds cold documentation cache runs. Hash seeds differ per process, so 6-7 independent samples per application; interleavings are sampled, not enumerated.",
         "Trusted: file hashing in round::fingerprint. The cache of each lane has been used by many other generated projects (shared-cache history).",
         "DESIGN.md §4 C10"),
})

# third session: what was added to each check (appended to the level text)
ADDENDA = {
 "C01": "Third session: types that hold a reference (views, holders by value, references to views), legal `&mut` injection, 'wild' applications (1-3 random edits of the ownership structure; accepted => must compile), naming / ordering stress, generic constructors incl. one with a lifetime; a failing SDK build is attributed to one sub-application, shrunk, and keyed by rustc's normalised first error. Two compiler defects found this way were repaired.",
 "C02": "Third session: the class now contains lifetime-carrying types whose referent is borrow-only / Copy / clone-if-necessary, a generic constructor with a lifetime argument, constructor-specific error handlers, constructors and error handlers written as methods; one shrunk report per distinct rejection verdict.",
 "C03": "Third session: singletons built from transients with an oracle over the events logged while the application state is built (start-up stress family), views, `&mut` injection and wild applications.",
 "C04": "Third session: generic wrappers carry provenance; a generic constructor and a concrete constructor for one instantiation are registered in different blueprints and the scope model says which one a route gets. One finding is recorded as open (components registered in an ancestor blueprint resolve constructors in their own scope) and kept out of the generated class; its reproduction is replayed by every run.",
 "C05": "Third session: chains of 11-16 middlewares of one kind (two-digit positions).",
 "C06": "Third session: error handlers attached to a constructor registration (they take precedence), error handlers written as methods of the error type or of an injected singleton.",
 "C07": "Third session: guarded blueprints that hold only nested blueprints, un-prefixed nested fallbacks below a guarded blueprint, 54 plain + 18 guarded tables per quick run.",
 "C08": "Third session: cross-scope variant of the observer rule (root observer, nested fallible constructor), path-parameter rule planted on middlewares incl. wrapping ones, generic singleton constructor registered in two blueprints. Two compiler defects found this way were repaired.",
 "C09": "Third session: route tables as variants, observer-only dependency cycles next to an infallible handler with a fallible input, 40 pairs per quick run.",
 "C10": "Third session: the stale-file step replaces one byte (same length: last bytes / middle / first byte) or appends one; ordering-, stage- and naming-stress applications; 30 applications per quick run.",
 "C12": "Third session: a second campaign with a store wrapper that fails / wipes records on schedule, two server-side reads polled concurrently, and a first request served by the previous deployment (the rule's fallback key and algorithm); its oracle reads the client-side state out of the emitted cookie itself.",
 "C16": "Third session: Forced shutdown while a handler keeps a worker thread busy for 1.5 s.",
 "C19": "Third session: part (a) persists over files that hold other content of the same or another length; part (b) also runs failure plans, so the error-handler attributes (which input is the error, methods with a receiver, handlers attached to constructors) are judged end to end.",
}

ADDENDA4 = {
 "C01": "Fourth session: borrow-checker stress family (independent move-vs-borrow crossings, capture chains value -> view -> by-value holders with inputs met at other depths, values consumed by a fallible constructor, its error handler and the request handler; registrations in a generated order), 24 such applications per quick run; long middleware chains of 12-20. One more compiler defect found this way was repaired (transitive captures computed out of dependency order).",
 "C05": "Fourth session: long chains are 12-20 middlewares of one kind, half of them without injected values.",
 "C06": "Fourth session: the user's fallback handler for pavex::Error (root blueprint, a quarter of the applications, one error type then has no handler of its own).",
 "C09": "Fourth session: 16 borrow-checker stress applications per quick run as variants (the fixed points of the borrow checker must terminate); a non-terminating fixed point was found and repaired; one open finding (a fallible transient constructor whose error handler needs the type it builds) is recorded under its own structural signature and replayed by every run.",
 "C13": "Fourth session: leftover sets of 520-3000 expired ids (in-memory store); renames onto an expired, unreaped id by 2-3 concurrent callers (at most one succeeds, losers keep their record).",
 "C14": "Fourth session: seven spellings of the chunked coding; the extractor also behind hyper's plain HTTP/1 connection driver; hyper / hyper-util pinned to the versions of the repository's lock file (with them a Content-Length that precedes Transfer-Encoding reaches the extractor).",
 "C15": "Fourth session: f32 fields as 20-60 digit decimals on / next to the mid-point of neighbouring floats with an exact digit-by-digit reference; Content-Type parameters that spell acceptable media types; data after a complete JSON document (a defect of JsonBody found this way was repaired).",
 "C16": "Fourth session: worker 0's queue filled to the brim (13-18 queued requests; it holds 15) and two workers blocked beyond the timeout (resolution judged at timeout + 1.2 s over three consecutive runs).",
 "C17": "Fourth session: occurrence-wise instantiation (occurrences of one template parameter bound to types equal only up to their own generic names), integer const arguments in several spellings.",
 "C18": "Fourth session: the configuration directory at two ancestor levels with the files split between them (only keys on which per-file and per-directory upward search agree are judged), variables that differ from PX_PROFILE by letter case, environment passed in a generated order.",
}

PENDING = {}  # id -> reason, filled below for everything not in CHECKS

props = [json.loads(l)["id"] for l in open("/verif/properties.jsonl")]
for p in props:
    if p not in CHECKS:
        PENDING[p] = "check not built yet (work in progress; see DESIGN.md for the plan)"

def hook_commits():
    try:
        out = subprocess.run(["git", "-C", "/repo", "log", "--format=%H %s"], capture_output=True, text=True).stdout
        return [l.split()[0] for l in out.splitlines() if " verif-hook:" in l]
    except Exception:
        return []

manifest = {
 "version": 1,
 "setup_cmd": "./setup.sh",
 "hooks": {
   "guard": "cargo feature `verif_hooks` (crates pavex and pavexc), default off",
   "enable": "harness/rtprops depends on /repo/runtime/pavex by path with features=[\"verif_hooks\"] (H1, H4), harness/cprops on /repo/compiler/pavexc with features=[\"verif_hooks\"] (H2); the end-to-end engine uses the plain `pavexc` binary built from /repo (no hook needed)",
   "baseline_off_cmd": "cd /repo && cargo nextest run --workspace --no-fail-fast --test-threads 8 --offline || cargo test --workspace --no-fail-fast --offline",
   "source_commits": hook_commits(),
   "add_only": True,
 },
 "engines": [
   {"name": "cprops", "path": "harness/cprops", "serves_properties": [p for p in props if p in CHECKS and CHECKS[p][0]=="cprops"],
    "kind_free_text": "in-process proptest checks that link the compiler library (pavexc, feature verif_hooks)"},
   {"name": "pxe2e", "path": "harness/pxe2e", "serves_properties": [p for p in props if p in CHECKS and CHECKS[p][0]=="pxe2e"] + ["C19"],
    "kind_free_text": "end-to-end engine: proptest-generated application crates -> Blueprint::persist -> real pavexc (rebuilt from /repo) -> rustc -> instrumented server driven over loopback; reference models for scopes, pipelines and routing; greedy spec shrinking; work lanes under /verif/.work"},
   {"name": "rtfuzz", "path": "harness/fuzz", "serves_properties": ["C17", "C20"],
    "kind_free_text": "cargo-fuzz / libFuzzer targets (nightly): fz_c17 (ASan) over rtprops::c17::case_from_bytes, fz_c20 (no sanitizer, links the compiler) over cprops::c20::case_from_bytes; same oracles as the proptest campaigns; thorough tier only"},
   {"name": "rtprops", "path": "harness/rtprops", "serves_properties": [p for p in props if p in CHECKS and CHECKS[p][0]=="rtprops"],
    "kind_free_text": "in-process proptest checks against the real runtime/compiler library crates (path dependencies on /repo), fixed-seed TestRunner, shrunk failures saved as replay files"},
 ],
 "checks": [],
 "not_applicable": [{"property_id": p, "reason": r} for p, r in PENDING.items()],
 "notes": "All checks: ./check <id> [--tier quick|thorough] [--replay file]; VERIF_SEED selects the PRNG stream; exit 2 = infrastructure/inconclusive (never a violation). Known findings live in known_findings.json.",
}
for p in props:
    if p in CHECKS:
        eng, tech, text, note, ref = CHECKS[p]
        manifest["checks"].append({
            "property_id": p,
            "quick_cmd": f"./check {p} --tier quick",
            "thorough_cmd": f"./check {p} --tier thorough",
            "evidence_file": f"/verif/evidence/{p}.json",
            "replay_cmd_template": f"./check {p} --replay {{path}}",
            "engine": eng,
            "level_claimed": {"category": "exploration", "text": (text + " " + ADDENDA.get(p, "") + " " + ADDENDA4.get(p, "")).strip(), "design_ref": ref + (", §7.8" if p in ADDENDA else "") + (", §7.9" if p in ADDENDA4 else "")},
            "level_note": note,
            "technique": tech,
        })
json.dump(manifest, open("/verif/MANIFEST.json", "w"), indent=1)
print("wrote MANIFEST.json:", len(manifest["checks"]), "checks,", len(manifest["not_applicable"]), "pending")
