#!/usr/bin/env python3
"""keep_seed.py <prop> <variant> <needs> <check-result-line>  -- copies a confirmed seeded change into /verif/seeded/<prop>-<variant>/"""
import sys, os, shutil, json, glob
prop, var, needs, result = sys.argv[1:5]
how = sys.argv[5] if len(sys.argv) > 5 else "tools: /tmp/seed/confirm_seed.sh (demo passes on HEAD, fails with patch; existing tests of the touched crates pass with patch) run by the main session in the scratch worktree"
src = f"/tmp/seed/{prop}.out/{var}"
dst = f"/verif/seeded/{prop}-{var}"
os.makedirs(dst, exist_ok=True)
for f in glob.glob(src + "/*"):
    b = os.path.basename(f)
    if b in ("patch.diff", "patch.rebased.diff", "notes.md", "confirm.log") or b.startswith("demo"):
        if os.path.isdir(f):
            shutil.copytree(f, os.path.join(dst, b), dirs_exist_ok=True, ignore=shutil.ignore_patterns("target", "Cargo.lock", "*.log"))
        elif os.path.getsize(f) < 200_000:
            shutil.copy(f, dst)
confirm = ""
try:
    confirm = [l for l in open(src + "/confirm.log") if l.startswith("CONFIRM")][-1].strip()
except Exception:
    pass
meta = {
    "id": f"{prop}-{var}",
    "breaks_property": prop[:-2] if prop.endswith("r2") else prop,
    "origin": "independent sub-agent given only the property text and a scratch worktree" + (" (second round: asked for changes that need at least three coinciding conditions, because the first round was caught quickly)" if prop.endswith("r2") else ""),
    "needs_to_manifest": needs,
    "confirmed": confirm,
    "how_confirmed": how,
    "check_result": result,
    "apply": f"git -C /repo apply /verif/seeded/{prop}-{var}/patch.diff ; ./check {prop[:-2] if prop.endswith('r2') else prop} ; git -C /repo checkout -- .",
}
json.dump(meta, open(dst + "/meta.json", "w"), indent=1)
print("kept", dst)
