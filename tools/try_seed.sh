#!/usr/bin/env bash
# usage: tools/try_seed.sh <patch.diff> <Cxx> [tier]   -- applies a seeded change to /repo, runs the check, reverts.
set -u
PATCH="$1"; PROP="$2"; TIER="${3:-quick}"
cd /repo
if ! git diff --quiet; then echo "/repo has uncommitted changes; refusing" >&2; exit 3; fi
git apply "$PATCH" || { echo "patch does not apply" >&2; exit 3; }
cd /verif
./check "$PROP" --tier "$TIER" > /verif/.work/seed-run.log 2>&1
RC=$?
git -C /repo checkout -- .
echo "exit=$RC"; grep -E "^(VIOLATION|KNOWN-FINDING|summary|INFRA)" /verif/.work/seed-run.log | head -5
grep -A3 "violation detail" /verif/.work/seed-run.log | head -12
