# Usage:  . /tmp/seedkit/env.sh <ID>     (ID = property id, e.g. C05; worktree /tmp/seed/<ID>)
# Sets up everything needed to run the Pavex compiler (pavexc) offline in this sandbox.
export SEED_PROP=$1
export WT=${WT:-/tmp/seed/$1}
export PAVEXC=${PAVEXC:-$WT/target/debug/pavexc}
export CARGO_NET_OFFLINE=true
export PAVEXC_DOCS_TOOLCHAIN=nightly          # the toolchain whose rustdoc JSON format pavexc understands
export PAVEXC_CACHE_WORKSPACE_PACKAGES=true
export CARGO_TERM_COLOR=never
export RUSTUP_HOME=/root/.rustup CARGO_HOME=/root/.cargo
# a `rustup` shim that points pavexc at a toolchain root containing JSON docs for std/core/alloc
case ":$PATH:" in *":/tmp/seedkit/toolchain/shim:"*) ;; *) export PATH=/tmp/seedkit/toolchain/shim:$PATH ;; esac
# private, pre-warmed rustdoc cache (pavexc keeps it under $HOME/.pavex); one per property id
if [ ! -d /tmp/seed/$1.home/.pavex ]; then mkdir -p /tmp/seed/$1.home && cp -r /tmp/seedkit/home/.pavex /tmp/seed/$1.home/ 2>/dev/null; fi
export HOME=/tmp/seed/$1.home
