//! Serves the generated application in-process on a loopback port and sends requests to it.
use tokio::io::{AsyncReadExt, AsyncWriteExt};

async fn send(addr: std::net::SocketAddr, raw: &str) -> String {
    let mut s = tokio::net::TcpStream::connect(addr).await.unwrap();
    s.write_all(raw.as_bytes()).await.unwrap();
    let mut buf = Vec::new();
    s.read_to_end(&mut buf).await.unwrap();
    String::from_utf8_lossy(&buf).to_string()
}

#[tokio::main]
async fn main() {
    let state = sdk::ApplicationState::new(sdk::ApplicationConfig {}).await.unwrap();
    let l = pavex::server::IncomingStream::bind("127.0.0.1:0".parse().unwrap()).await.unwrap();
    let addr = l.local_addr().unwrap();
    tokio::spawn(async move { sdk::run(pavex::server::Server::new().listen(l), state).await });
    let startup = app::take_log();
    let text = send(addr, "GET /hello HTTP/1.1\r\nhost: localhost\r\nconnection: close\r\n\r\n").await;
    let log = app::take_log();
    println!("startup log: {startup:?}\nrequest log: {log:?}\nresponse: {}", text.lines().next().unwrap_or(""));
    let ok = text.starts_with("HTTP/1.1 200") && text.ends_with("hello 1") && startup == ["greeter"] && log == ["visit", "gate", "hello"];
    println!("{}", if ok { "EXAMPLE: ok" } else { "EXAMPLE: unexpected" });
    std::process::exit(if ok { 0 } else { 1 });
}
