fn main() {
    let path = std::env::args().nth(1).expect("usage: app <blueprint.ron>");
    app::blueprint().persist(std::path::Path::new(&path)).expect("persist");
}
