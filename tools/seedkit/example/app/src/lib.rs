//! Minimal example application: one singleton, one request-scoped value, one pre-processing
//! middleware, one route. Every component appends its name to a process-wide log that the driver
//! reads after each request.
use pavex::middleware::Processing;
use pavex::{Blueprint, Response};
use std::sync::Mutex;

pub static LOG: Mutex<Vec<String>> = Mutex::new(Vec::new());
pub fn log(s: &str) { LOG.lock().unwrap().push(s.to_string()); }
pub fn take_log() -> Vec<String> { std::mem::take(&mut *LOG.lock().unwrap()) }

pub struct Greeter;
#[pavex::singleton(id = "GREETER")]
pub fn greeter() -> Greeter { log("greeter"); Greeter }

pub struct Visit(pub u32);
#[pavex::request_scoped(id = "VISIT")]
pub fn visit(_g: &Greeter) -> Visit { log("visit"); Visit(1) }

#[pavex::pre_process(id = "GATE")]
pub fn gate(_v: &Visit) -> Processing { log("gate"); Processing::Continue }

#[pavex::get(path = "/hello", id = "HELLO")]
pub fn hello(v: &Visit) -> Response { log("hello"); Response::ok().set_typed_body(format!("hello {}", v.0)) }

pub fn blueprint() -> Blueprint {
    let mut bp = Blueprint::new();
    bp.constructor(GREETER);
    bp.constructor(VISIT);
    bp.pre_process(GATE);
    bp.route(HELLO);
    bp
}
