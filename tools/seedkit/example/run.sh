#!/bin/bash
# Usage:  . /tmp/seedkit/env.sh C05 && bash /tmp/seedkit/example/run.sh
# Template for a demonstration: rebuilds pavexc from the worktree $WT (with or without a change applied),
# serialises the blueprint of ./app, runs `pavexc generate`, builds a driver that serves the generated SDK on
# loopback, sends requests and judges what it observes.
# exit 0 = as expected, 1 = unexpected behaviour, 2 = could not run.
set -u
: "${WT:?source /tmp/seedkit/env.sh <ID> first}"
SRC="$(cd "$(dirname "$0")" && pwd)"
PROJ=${PROJ:-/tmp/seed/$SEED_PROP.demo/example}
fail() { echo "could not run: $*"; exit 2; }
(cd "$WT" && cargo build --offline -j 6 -p pavexc_cli --bin pavexc 2>&1 | tail -2) || fail "pavexc build"
[ -x "$PAVEXC" ] || fail "no pavexc binary at $PAVEXC"
rm -rf "$PROJ" && mkdir -p "$PROJ" || fail "mkdir"
cp -r "$SRC"/Cargo.toml "$SRC"/app "$SRC"/sdk "$SRC"/driver "$PROJ"/ || fail "copy"
cp /tmp/seedkit/Cargo.lock "$PROJ"/Cargo.lock
sed "s#@WT@#$WT#" "$PROJ/app/Cargo.toml.tmpl" > "$PROJ/app/Cargo.toml"
sed "s#@WT@#$WT#" "$PROJ/driver/Cargo.toml.tmpl" > "$PROJ/driver/Cargo.toml"
cd "$PROJ" || fail "cd"
export CARGO_TARGET_DIR=/tmp/seed/$SEED_PROP.demo/target
cargo run --offline -q -j 6 -p app -- "$PROJ/bp.ron" || fail "blueprint serialisation"
# pavexc: exit 0 = accepted (SDK written to ./sdk), exit 1 + "ERROR:" blocks on stderr = rejected, 101 = panic
CARGO_TARGET_DIR=/tmp/seed/$SEED_PROP.demo/target-doc "$PAVEXC" --color never generate -b bp.ron -o sdk --diagnostics diag.dot \
    > "$PROJ/pavexc.log" 2>&1; RC=$?
echo "pavexc exit status: $RC"; [ $RC -eq 0 ] || { tail -40 "$PROJ/pavexc.log"; fail "pavexc generate"; }
cargo build --offline -q -j 6 -p driver 2> "$PROJ/build.log" || { tail -40 "$PROJ/build.log"; fail "driver build"; }
"$CARGO_TARGET_DIR/debug/driver"
