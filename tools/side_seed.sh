#!/usr/bin/env bash
# tools/side_seed.sh <ID e.g. C04> <A|B> <check-prop> [seeds, default "0"] [skip-confirm]
# Round-3 helper for COMPILER-ONLY seeded changes: confirms a sub-agent's change in its own scratch
# worktree /tmp/seed/<ID> (demo exits 0 without / 1 with the change, existing compiler tests pass),
# then runs the end-to-end check <check-prop> as a *side run* (VERIF_SIDE, PX_PAVEXC_BIN: see
# vcommon::side_dir) against the compiler built in that worktree. /repo is never touched, so the
# normal checks can run at the same time.
set -u
P=$1; V=$2; CP=$3; SEEDS=${4:-0}; SKIP=${5:-}
WT=/tmp/seed/$P; OUT=/tmp/seed/$P.out/$V; LOG=$OUT/confirm.log
cd "$WT" || exit 9
git checkout -q -- . ; git checkout -q --detach "$(git -C /repo rev-parse HEAD)" || exit 9
. /tmp/seedkit/env.sh "$P" >/dev/null 2>&1
PATCH=$OUT/patch.diff; [ -f "$OUT/patch.rebased.diff" ] && PATCH=$OUT/patch.rebased.diff
if [ -z "$SKIP" ]; then
  : > "$LOG"
  echo "## demo WITHOUT change (worktree at $(git rev-parse --short HEAD))" >> "$LOG"
  bash "$OUT/demo/run.sh" >> "$LOG" 2>&1; RC0=$?
  git apply "$PATCH" || { echo "CONFIRM $P $V: patch does not apply" | tee -a "$LOG"; exit 9; }
  echo "## demo WITH change" >> "$LOG"
  bash "$OUT/demo/run.sh" >> "$LOG" 2>&1; RC1=$?
  echo "## existing tests WITH change" >> "$LOG"
  ( cargo test --offline -j 6 -p pavexc -p pavexc_cli 2>&1 | grep -E "^test result|FAILED|panicked|^error" ) > "$OUT/confirm_existing.log" 2>&1
  FAILED=$(grep -cE "FAILED|[1-9][0-9]* failed|^error" "$OUT/confirm_existing.log")
  echo "CONFIRM $P $V: demo_without_rc=$RC0 (want 0) demo_with_rc=$RC1 (want 1) existing_failed=$FAILED" | tee -a "$LOG"
else
  git apply "$PATCH" || { echo "patch does not apply"; exit 9; }
fi
( cargo build --offline -j 6 -p pavexc_cli --bin pavexc 2>&1 | tail -1 )
for S in $SEEDS; do
  ( cd /verif && HOME=/root VERIF_SEED=$S VERIF_SIDE=$P$V PX_PAVEXC_BIN=$WT/target/debug/pavexc /verif/.work/target/debug/pxe2e "$CP" --tier quick > /verif/.work/side-$P$V.log 2>&1 ); RCC=$?
  echo "CHECK $P $V: check=$CP seed=$S rc=$RCC" | tee -a "$LOG"
  grep -E "^(VIOLATION|KNOWN-FINDING|summary|INFRA)" /verif/.work/side-$P$V.log | head -4 | tee -a "$LOG"
  grep -A5 "^violation detail" /verif/.work/side-$P$V.log | cut -c1-400 | head -14 | tee -a "$LOG"
  [ $RCC -eq 1 ] && break
done
git checkout -q -- .
# keep the violation files (small), drop the lanes of the side run (several GB)
mkdir -p "$OUT/side-violations"; cp -r /verif/.work-side-$P$V/violations/. "$OUT/side-violations/" 2>/dev/null
rm -rf /verif/.work-side-$P$V
