//! Shared plumbing for every check: seeds/tiers, evidence files, known findings,
//! a thin driver around proptest's `TestRunner`, replay files and the VIOLATION line.
use std::cell::{Cell, RefCell};
use std::collections::{BTreeMap, BTreeSet};
use std::fmt::Debug;
use std::path::{Path, PathBuf};
use std::time::Instant;

use proptest::strategy::Strategy;
use proptest::test_runner::{Config, RngAlgorithm, RngSeed, TestCaseError, TestError, TestRunner};
use serde::Serialize;
use serde::de::DeserializeOwned;
use serde_json::{Value, json};

pub mod util;

pub const VERIF_ROOT: &str = "/verif";

/// Debugging aid (never used by the registered commands): `VERIF_SIDE=<name>` redirects everything a
/// run writes (evidence, violations, end-to-end lanes) to `/verif/.work-side-<name>/` (same depth as `.work`: generated manifests use relative paths), so that a run
/// against another compiler binary (`PX_PAVEXC_BIN`) can go on next to the normal checks.
pub fn side_dir() -> Option<std::path::PathBuf> {
    std::env::var("VERIF_SIDE").ok().filter(|s| !s.is_empty()).map(|s| Path::new(VERIF_ROOT).join(format!(".work-side-{s}")))
}

fn evidence_dir() -> std::path::PathBuf {
    side_dir().map(|d| d.join("evidence")).unwrap_or_else(|| Path::new(VERIF_ROOT).join("evidence"))
}

#[derive(Clone, Copy, Debug, PartialEq, Eq)]
pub enum Tier {
    Quick,
    Thorough,
}

impl Tier {
    pub fn as_str(&self) -> &'static str {
        match self {
            Tier::Quick => "quick",
            Tier::Thorough => "thorough",
        }
    }
    /// Pick a case count per tier.
    pub fn pick(&self, quick: u32, thorough: u32) -> u32 {
        match self {
            Tier::Quick => quick,
            Tier::Thorough => thorough,
        }
    }
}

#[derive(Clone, Debug)]
pub struct Settings {
    pub prop: String,
    pub tier: Tier,
    pub seed: u64,
    pub replay: Option<PathBuf>,
    /// Free-form extra arguments (`--key value`).
    pub extra: BTreeMap<String, String>,
}

pub fn fnv(s: &str) -> u64 {
    let mut h: u64 = 0xcbf29ce484222325;
    for b in s.as_bytes() {
        h ^= *b as u64;
        h = h.wrapping_mul(0x100000001b3);
    }
    h
}

impl Settings {
    /// `args` = everything after the property id.
    pub fn from_env_and_args(prop: &str, args: &[String]) -> Settings {
        let mut tier = match std::env::var("VERIF_TIER").ok().as_deref() {
            Some("thorough") => Tier::Thorough,
            _ => Tier::Quick,
        };
        let seed = std::env::var("VERIF_SEED")
            .ok()
            .and_then(|s| s.trim().parse::<u64>().ok())
            .unwrap_or(0);
        let mut replay = None;
        let mut extra = BTreeMap::new();
        let mut i = 0;
        while i < args.len() {
            match args[i].as_str() {
                "--tier" => {
                    i += 1;
                    tier = match args.get(i).map(|s| s.as_str()) {
                        Some("thorough") => Tier::Thorough,
                        _ => Tier::Quick,
                    };
                }
                "--replay" => {
                    i += 1;
                    replay = args.get(i).map(PathBuf::from);
                }
                k if k.starts_with("--") => {
                    let key = k.trim_start_matches("--").to_string();
                    let val = args.get(i + 1).cloned().unwrap_or_default();
                    if val.starts_with("--") || val.is_empty() {
                        extra.insert(key, "true".into());
                    } else {
                        extra.insert(key, val);
                        i += 1;
                    }
                }
                _ => {}
            }
            i += 1;
        }
        Settings {
            prop: prop.to_string(),
            tier,
            seed,
            replay,
            extra,
        }
    }

    /// Seed for a sub-campaign: a pure function of VERIF_SEED, the property and the sub-name.
    pub fn sub_seed(&self, sub: &str) -> u64 {
        self.seed ^ fnv(&format!("{}/{}", self.prop, sub))
    }

    pub fn runner(&self, sub: &str, cases: u32) -> TestRunner {
        let mut seed_bytes = [0u8; 32];
        let s = self.sub_seed(sub);
        for (i, chunk) in seed_bytes.chunks_mut(8).enumerate() {
            chunk.copy_from_slice(&(s.wrapping_add(i as u64).wrapping_mul(0x9E3779B97F4A7C15)).to_le_bytes());
        }
        let cfg = Config {
            cases,
            failure_persistence: None,
            rng_algorithm: RngAlgorithm::ChaCha,
            rng_seed: RngSeed::Fixed(s),
            max_shrink_iters: 4096,
            max_global_rejects: 65536,
            ..Config::default()
        };
        let _ = seed_bytes;
        TestRunner::new(cfg)
    }
}

// ---------------------------------------------------------------------------------------------
// Known findings
// ---------------------------------------------------------------------------------------------

#[derive(Clone, Debug, serde::Deserialize)]
pub struct KnownEntry {
    pub property: String,
    pub signature: String,
    /// "open" (recorded, not repaired) or "fixed" (repaired by a fix: commit; suppresses nothing)
    pub status: String,
    #[serde(default)]
    pub commit: Option<String>,
    #[serde(default)]
    pub what: String,
}

#[derive(Clone, Debug, Default, serde::Deserialize)]
pub struct KnownFindings {
    #[serde(default)]
    pub findings: Vec<KnownEntry>,
}

impl KnownFindings {
    pub fn load() -> KnownFindings {
        let p = Path::new(VERIF_ROOT).join("known_findings.json");
        match std::fs::read_to_string(&p) {
            Ok(s) => serde_json::from_str(&s).unwrap_or_else(|e| {
                eprintln!("cannot parse {}: {e}", p.display());
                std::process::exit(2);
            }),
            Err(_) => KnownFindings::default(),
        }
    }
    pub fn open_entry(&self, prop: &str, sig: &str) -> Option<&KnownEntry> {
        self.findings
            .iter()
            .find(|e| e.status == "open" && e.property == prop && e.signature == sig)
    }
}

// ---------------------------------------------------------------------------------------------
// Evidence
// ---------------------------------------------------------------------------------------------

pub struct Evidence {
    pub prop: String,
    pub tier: Tier,
    pub seed: u64,
    pub level: String,
    pub rule: String,
    pub evaluations: u64,
    pub nontrivial: BTreeSet<u64>,
    pub labels: BTreeMap<String, u64>,
    pub samples: Vec<Value>,
    pub max_samples: usize,
    pub assumptions: Vec<String>,
    pub violations: u64,
    pub known_hits: BTreeMap<String, u64>,
    pub extra: BTreeMap<String, Value>,
    /// evidence written by an earlier part of the same check (`--merge-evidence`): the two parts are reported together
    pub merge_base: Option<Value>,
    start: Instant,
}

impl Evidence {
    pub fn new(s: &Settings, rule: &str) -> Evidence {
        Evidence {
            prop: s.prop.clone(),
            tier: s.tier,
            seed: s.seed,
            level: "exploration".into(),
            rule: rule.into(),
            evaluations: 0,
            nontrivial: BTreeSet::new(),
            labels: BTreeMap::new(),
            samples: vec![],
            merge_base: if s.extra.contains_key("merge-evidence") {
                std::fs::read_to_string(evidence_dir().join(format!("{}.json", s.prop))).ok().and_then(|t| serde_json::from_str(&t).ok())
            } else {
                None
            },
            max_samples: 5,
            assumptions: vec![],
            violations: 0,
            known_hits: BTreeMap::new(),
            extra: BTreeMap::new(),
            start: Instant::now(),
        }
    }
    pub fn label(&mut self, l: &str) {
        *self.labels.entry(l.to_string()).or_insert(0) += 1;
    }
    pub fn label_n(&mut self, l: &str, n: u64) {
        *self.labels.entry(l.to_string()).or_insert(0) += n;
    }
    pub fn sample(&mut self, v: Value) {
        if self.samples.len() < self.max_samples {
            self.samples.push(v);
        }
    }
    pub fn assume(&mut self, a: &str) {
        if !self.assumptions.iter().any(|x| x == a) {
            self.assumptions.push(a.to_string());
        }
    }
    pub fn write(&self) {
        let dir = evidence_dir();
        let _ = std::fs::create_dir_all(&dir);
        let mut cov = serde_json::Map::new();
        cov.insert("evaluations".into(), json!(self.evaluations));
        cov.insert("distinct_nontrivial".into(), json!(self.nontrivial.len()));
        cov.insert("rule".into(), json!(self.rule));
        cov.insert("samples".into(), Value::Array(self.samples.clone()));
        cov.insert("labels".into(), json!(self.labels));
        cov.insert("known_finding_hits".into(), json!(self.known_hits));
        for (k, v) in &self.extra {
            cov.insert(k.clone(), v.clone());
        }
        let mut assumptions = self.assumptions.clone();
        let mut wall = (self.start.elapsed().as_secs_f64() * 1000.0).round() / 1000.0;
        let mut violations = self.violations;
        if let Some(base) = &self.merge_base {
            // two engines decide this property: add the other part's numbers, keep both rules and samples
            let b = &base["coverage"];
            let n = |v: &Value| v.as_u64().unwrap_or(0);
            cov.insert("evaluations".into(), json!(self.evaluations + n(&b["evaluations"])));
            cov.insert("distinct_nontrivial".into(), json!(self.nontrivial.len() as u64 + n(&b["distinct_nontrivial"])));
            cov.insert("rule".into(), json!(format!("part (a): {} || {}", b["rule"].as_str().unwrap_or(""), self.rule)));
            let mut samples = b["samples"].as_array().cloned().unwrap_or_default();
            samples.extend(self.samples.clone());
            cov.insert("samples".into(), Value::Array(samples));
            let mut labels: BTreeMap<String, u64> = self.labels.clone();
            if let Some(m) = b["labels"].as_object() {
                for (k, v) in m {
                    *labels.entry(k.clone()).or_insert(0) += n(v);
                }
            }
            cov.insert("labels".into(), json!(labels));
            let mut hits: BTreeMap<String, u64> = self.known_hits.clone();
            if let Some(m) = b["known_finding_hits"].as_object() {
                for (k, v) in m {
                    *hits.entry(k.clone()).or_insert(0) += n(v);
                }
            }
            cov.insert("known_finding_hits".into(), json!(hits));
            for a in base["assumptions"].as_array().cloned().unwrap_or_default() {
                if let Some(a) = a.as_str() {
                    if !assumptions.iter().any(|x| x == a) {
                        assumptions.push(a.to_string());
                    }
                }
            }
            wall += base["wall_s"].as_f64().unwrap_or(0.0);
            violations += n(&base["violations"]);
        }
        let doc = json!({
            "property_id": self.prop,
            "tier": self.tier.as_str(),
            "seed": self.seed,
            "level": self.level,
            "coverage": Value::Object(cov),
            "assumptions": assumptions,
            "wall_s": wall,
            "violations": violations,
        });
        let p = dir.join(format!("{}.json", self.prop));
        let tmp = dir.join(format!(".{}.json.tmp", self.prop));
        std::fs::write(&tmp, serde_json::to_string_pretty(&doc).unwrap()).expect("write evidence");
        std::fs::rename(&tmp, &p).expect("rename evidence");
    }
}

// ---------------------------------------------------------------------------------------------
// The driver
// ---------------------------------------------------------------------------------------------

/// What the oracle says about one executed case.
#[derive(Default, Debug, Clone)]
pub struct CaseInfo {
    pub nontrivial: bool,
    pub labels: Vec<String>,
}

impl CaseInfo {
    pub fn trivial() -> Self {
        CaseInfo::default()
    }
    pub fn nontrivial() -> Self {
        CaseInfo {
            nontrivial: true,
            labels: vec![],
        }
    }
    pub fn with(mut self, l: impl Into<String>) -> Self {
        self.labels.push(l.into());
        self
    }
    pub fn set_nontrivial(&mut self, b: bool) {
        self.nontrivial |= b;
    }
    pub fn lab(&mut self, l: impl Into<String>) {
        self.labels.push(l.into());
    }
}

#[derive(Debug, Clone)]
pub struct Fail {
    /// Stable identification of *what* fails (call site / minimal history class); matched against
    /// known_findings.json.
    pub signature: String,
    pub message: String,
}

impl Fail {
    pub fn new(signature: impl Into<String>, message: impl Into<String>) -> Fail {
        Fail {
            signature: signature.into(),
            message: message.into(),
        }
    }
}

pub type CaseResult = Result<CaseInfo, Fail>;

pub struct Check {
    pub settings: Settings,
    pub known: KnownFindings,
    pub ev: Evidence,
    pub violation_lines: Vec<String>,
    replay_counter: usize,
}

impl Check {
    pub fn new(settings: Settings, rule: &str) -> Check {
        let ev = Evidence::new(&settings, rule);
        Check {
            settings,
            known: KnownFindings::load(),
            ev,
            violation_lines: vec![],
            replay_counter: 0,
        }
    }

    pub fn tier(&self) -> Tier {
        self.settings.tier
    }

    /// Run `cases` generated cases of `strat` through `oracle`. On an unknown failure the value is
    /// shrunk by proptest, saved as a replay file and a VIOLATION line is recorded.
    /// Failures whose signature is an *open* entry of known_findings.json are counted and tolerated
    /// so that the search continues behind them.
    pub fn run<S, F>(&mut self, sub: &str, cases: u32, strat: S, oracle: F)
    where
        S: Strategy,
        S::Value: Debug + Serialize + Clone,
        F: Fn(&S::Value) -> CaseResult,
    {
        if let Some(only) = self.settings.extra.get("only") {
            if only != sub {
                return;
            }
        }
        let cases = self
            .settings
            .extra
            .get("cases")
            .and_then(|c| c.parse::<u32>().ok())
            .unwrap_or(cases);
        let mut runner = self.settings.runner(sub, cases);
        let failed = Cell::new(false);
        let evals = Cell::new(0u64);
        let nontrivial: RefCell<BTreeSet<u64>> = RefCell::new(BTreeSet::new());
        let labels: RefCell<BTreeMap<String, u64>> = RefCell::new(BTreeMap::new());
        let samples: RefCell<Vec<Value>> = RefCell::new(vec![]);
        let known_hits: RefCell<BTreeMap<String, u64>> = RefCell::new(BTreeMap::new());
        let last_fail: RefCell<Option<Fail>> = RefCell::new(None);
        let want_samples = 2usize;
        let prop = self.settings.prop.clone();
        let known = &self.known;
        let res = runner.run(&strat, |v| {
            let r = oracle(&v);
            let counting = !failed.get();
            match r {
                Ok(info) => {
                    if counting {
                        evals.set(evals.get() + 1);
                        let mut l = labels.borrow_mut();
                        for lab in &info.labels {
                            *l.entry(format!("{sub}:{lab}")).or_insert(0) += 1;
                        }
                        if info.nontrivial {
                            let js = serde_json::to_string(&v).unwrap_or_else(|_| format!("{v:?}"));
                            let fresh = nontrivial.borrow_mut().insert(fnv(&format!("{sub}|{js}")));
                            if fresh && samples.borrow().len() < want_samples {
                                samples.borrow_mut().push(json!({
                                    "campaign": sub,
                                    "labels": info.labels,
                                    "case": serde_json::to_value(&v).unwrap_or(Value::Null),
                                }));
                            }
                        }
                    }
                    Ok(())
                }
                Err(f) => {
                    if known.open_entry(&prop, &f.signature).is_some() {
                        if counting {
                            evals.set(evals.get() + 1);
                            *known_hits.borrow_mut().entry(f.signature.clone()).or_insert(0) += 1;
                        }
                        return Ok(());
                    }
                    if counting {
                        evals.set(evals.get() + 1);
                    }
                    failed.set(true);
                    let msg = format!("[{}] {}", f.signature, f.message);
                    *last_fail.borrow_mut() = Some(f);
                    Err(TestCaseError::fail(msg))
                }
            }
        });
        self.ev.evaluations += evals.get();
        for h in nontrivial.into_inner() {
            self.ev.nontrivial.insert(h);
        }
        for (k, v) in labels.into_inner() {
            *self.ev.labels.entry(k).or_insert(0) += v;
        }
        for s in samples.into_inner() {
            self.ev.sample(s);
        }
        for (k, v) in known_hits.into_inner() {
            *self.ev.known_hits.entry(k).or_insert(0) += v;
        }
        match res {
            Ok(()) => {}
            Err(TestError::Fail(reason, value)) => {
                // Re-evaluate the minimal value to get its own signature/message.
                let f = match oracle(&value) {
                    Err(f) => f,
                    Ok(_) => last_fail
                        .into_inner()
                        .unwrap_or_else(|| Fail::new("unknown", reason.to_string())),
                };
                self.violation(sub, &f, &value);
            }
            Err(TestError::Abort(reason)) => {
                eprintln!("INCONCLUSIVE property={} campaign={sub}: generator aborted: {reason}", self.settings.prop);
                self.ev.write();
                std::process::exit(2);
            }
        }
    }

    /// Record a violation found outside `run` (e.g. by a hand-driven engine).
    pub fn violation<V: Serialize>(&mut self, sub: &str, f: &Fail, value: &V) {
        self.ev.violations += 1;
        self.replay_counter += 1;
        let dir = side_dir().unwrap_or_else(|| Path::new(VERIF_ROOT).join(".work"))
            .join("violations")
            .join(&self.settings.prop);
        let _ = std::fs::create_dir_all(&dir);
        let name = format!(
            "{}-{}-seed{}-{}.json",
            sub.replace(['/', ' '], "_"),
            self.settings.tier.as_str(),
            self.settings.seed,
            self.replay_counter
        );
        let path = dir.join(name);
        let doc = json!({
            "property": self.settings.prop,
            "campaign": sub,
            "signature": f.signature,
            "message": f.message,
            "case": serde_json::to_value(value).unwrap_or(Value::Null),
        });
        std::fs::write(&path, serde_json::to_string_pretty(&doc).unwrap()).expect("write replay");
        eprintln!(
            "violation detail property={} campaign={} signature={}\n{}",
            self.settings.prop, sub, f.signature, f.message
        );
        self.violation_lines.push(format!(
            "VIOLATION property={} replay={}",
            self.settings.prop,
            path.display()
        ));
        self.ev.sample(json!({"violation": doc}));
    }

    /// Replay a single saved case through `oracle`, bypassing proptest.
    pub fn replay_one<V, F>(&mut self, sub: &str, path: &Path, oracle: F) -> bool
    where
        V: DeserializeOwned + Serialize + Debug,
        F: Fn(&V) -> CaseResult,
    {
        let Some((campaign, v)) = load_replay::<V>(path) else {
            return false;
        };
        if campaign != sub {
            return false;
        }
        self.ev.evaluations += 1;
        match oracle(&v) {
            Ok(info) => {
                if info.nontrivial {
                    let js = serde_json::to_string(&v).unwrap_or_default();
                    self.ev.nontrivial.insert(fnv(&format!("{sub}|{js}")));
                }
                self.ev.label(&format!("{sub}:replayed"));
            }
            Err(f) => {
                if self.known.open_entry(&self.settings.prop, &f.signature).is_some() {
                    *self.ev.known_hits.entry(f.signature.clone()).or_insert(0) += 1;
                } else {
                    let f2 = f.clone();
                    self.violation_at(sub, &f2, path);
                }
            }
        }
        true
    }

    fn violation_at(&mut self, sub: &str, f: &Fail, path: &Path) {
        self.ev.violations += 1;
        eprintln!(
            "violation detail property={} campaign={} signature={}\n{}",
            self.settings.prop, sub, f.signature, f.message
        );
        self.violation_lines.push(format!(
            "VIOLATION property={} replay={}",
            self.settings.prop,
            path.display()
        ));
    }

    /// All committed replay files for this property (`/verif/replays/<id>/*.json`), sorted.
    pub fn committed_replays(&self) -> Vec<PathBuf> {
        let dir = Path::new(VERIF_ROOT).join("replays").join(&self.settings.prop);
        let mut v: Vec<PathBuf> = std::fs::read_dir(dir)
            .map(|rd| {
                rd.filter_map(|e| e.ok().map(|e| e.path()))
                    .filter(|p| p.extension().is_some_and(|e| e == "json"))
                    .collect()
            })
            .unwrap_or_default();
        v.sort();
        v
    }

    /// Write evidence, print KNOWN-FINDING / VIOLATION lines, exit.
    pub fn finish(mut self) -> ! {
        let hits = self.ev.known_hits.clone();
        for (sig, n) in &hits {
            let what = self
                .known
                .open_entry(&self.settings.prop, sig)
                .map(|e| e.what.clone())
                .unwrap_or_default();
            println!(
                "KNOWN-FINDING: property={} {} ({} occurrences this run) {}",
                self.settings.prop, sig, n, what
            );
        }
        self.ev.violations = self.violation_lines.len() as u64;
        self.ev.write();
        for l in &self.violation_lines {
            println!("{l}");
        }
        println!(
            "summary property={} tier={} seed={} evaluations={} distinct_nontrivial={} violations={} wall_s={:.1}",
            self.settings.prop,
            self.settings.tier.as_str(),
            self.settings.seed,
            self.ev.evaluations,
            self.ev.nontrivial.len(),
            self.violation_lines.len(),
            self.ev.start.elapsed().as_secs_f64()
        );
        std::process::exit(if self.violation_lines.is_empty() { 0 } else { 1 });
    }
}

pub fn load_replay<V: DeserializeOwned>(path: &Path) -> Option<(String, V)> {
    let s = match std::fs::read_to_string(path) {
        Ok(s) => s,
        Err(e) => {
            eprintln!("cannot read replay {}: {e}", path.display());
            std::process::exit(2);
        }
    };
    let doc: Value = match serde_json::from_str(&s) {
        Ok(v) => v,
        Err(e) => {
            eprintln!("cannot parse replay {}: {e}", path.display());
            std::process::exit(2);
        }
    };
    let campaign = doc.get("campaign").and_then(|c| c.as_str()).unwrap_or("").to_string();
    let case = doc.get("case").cloned().unwrap_or(Value::Null);
    match serde_json::from_value::<V>(case) {
        Ok(v) => Some((campaign, v)),
        Err(_) => None,
    }
}

/// Monotone index mapping (keeps proptest shrinking effective): maps a u16 to `0..len`.
pub fn idx(raw: u16, len: usize) -> usize {
    if len == 0 {
        return 0;
    }
    ((raw as usize) * len) >> 16
}
