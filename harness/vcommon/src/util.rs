//! Small helpers shared by the in-process checks.
use std::cell::RefCell;
use std::panic::{AssertUnwindSafe, catch_unwind};
use std::sync::Once;

thread_local! {
    static LAST_PANIC: RefCell<Option<String>> = const { RefCell::new(None) };
    static QUIET: RefCell<bool> = const { RefCell::new(false) };
}

static HOOK: Once = Once::new();

fn install_hook() {
    HOOK.call_once(|| {
        let default = std::panic::take_hook();
        std::panic::set_hook(Box::new(move |info| {
            let quiet = QUIET.with(|q| *q.borrow());
            if quiet {
                let loc = info.location().map(|l| format!("{}:{}", l.file(), l.line())).unwrap_or_default();
                let msg = if let Some(s) = info.payload().downcast_ref::<&str>() {
                    s.to_string()
                } else if let Some(s) = info.payload().downcast_ref::<String>() {
                    s.clone()
                } else {
                    "<non-string panic payload>".to_string()
                };
                LAST_PANIC.with(|p| *p.borrow_mut() = Some(format!("{msg} @ {loc}")));
            } else {
                default(info);
            }
        }));
    });
}

/// Run `f`, turning a panic of the code under test into `Err(message @ location)`.
pub fn catch<T>(f: impl FnOnce() -> T) -> Result<T, String> {
    install_hook();
    QUIET.with(|q| *q.borrow_mut() = true);
    let r = catch_unwind(AssertUnwindSafe(f));
    QUIET.with(|q| *q.borrow_mut() = false);
    r.map_err(|_| LAST_PANIC.with(|p| p.borrow_mut().take()).unwrap_or_else(|| "panic".into()))
}

/// A short, stable signature for a panic: its source location.
pub fn panic_sig(p: &str) -> String {
    match p.rsplit_once(" @ ") {
        Some((_, loc)) => {
            let loc = loc.rsplit('/').next().unwrap_or(loc);
            loc.to_string()
        }
        None => "unknown".into(),
    }
}
