//! C17 — the type algebra used for dependency matching obeys its laws.
//!
//! Generated: pairs / triples of types (mirror enum `Ty`, converted to `rustdoc_ir::Type`).
//! Oracle: algebraic laws + an independent structural comparison and an independent
//! `syn -> Ty` reader for the render/parse round trip.
use std::collections::BTreeMap;

use proptest::prelude::*;
use rustdoc_ir::{
    Array, FunctionPointer, FunctionPointerInput, Generic, GenericArgument,
    GenericLifetimeParameter, Lifetime, NamedLifetime, PathType, RawPointer, ScalarPrimitive,
    Slice, Tuple, Type, TypeReference,
};
use serde::{Deserialize, Serialize};
use vcommon::{CaseInfo, CaseResult, Check, Fail, idx};

// ------------------------------------------------------------------------------------------
// Mirror representation (serde-friendly, independent of the code under test)
// ------------------------------------------------------------------------------------------

#[derive(Clone, Debug, PartialEq, Eq, Hash, Serialize, Deserialize)]
pub enum Lt {
    Static,
    Named(String),
    Inferred,
    Elided,
}

#[derive(Clone, Debug, PartialEq, Eq, Hash, Serialize, Deserialize)]
pub enum Arg {
    Ty(Ty),
    /// never `Elided`
    Lt(Lt),
    Const(String),
}

#[derive(Clone, Debug, PartialEq, Eq, Hash, Serialize, Deserialize)]
pub enum Ty {
    Path { alias: bool, path: u8, args: Vec<Arg> },
    Ref { m: bool, lt: Lt, inner: Box<Ty> },
    Tuple(Vec<Ty>),
    Scalar(u8),
    Slice(Box<Ty>),
    Array(Box<Ty>, usize),
    Ptr { m: bool, inner: Box<Ty> },
    Fn { inputs: Vec<(Option<String>, Ty)>, output: Option<Box<Ty>>, abi: u8, unsafe_: bool },
    Gen(String),
}

#[derive(Clone, Debug, Serialize, Deserialize)]
pub enum Case {
    Pair(Ty, Ty),
    Triple(Ty, Ty, Ty),
}

/// (crate name as imported, package repr, remaining segments)
const PATHS: &[(&str, &str, &[&str])] = &[
    ("alpha", "alpha 0.1.0 (path+file:///w/alpha)", &["Foo"]),
    ("alpha", "alpha 0.1.0 (path+file:///w/alpha)", &["nested", "Bar"]),
    ("beta", "beta 2.0.0 (registry+https://github.com/rust-lang/crates.io-index)", &["Foo"]),
    ("beta", "beta 2.0.0 (registry+https://github.com/rust-lang/crates.io-index)", &["m", "n", "Baz"]),
    ("std", "std 1.0.0 (toolchain)", &["vec", "Vec"]),
    ("core", "core 1.0.0 (toolchain)", &["option", "Option"]),
];

const SCALARS: &[ScalarPrimitive] = &[
    ScalarPrimitive::Usize,
    ScalarPrimitive::U8,
    ScalarPrimitive::U16,
    ScalarPrimitive::U32,
    ScalarPrimitive::U64,
    ScalarPrimitive::U128,
    ScalarPrimitive::Isize,
    ScalarPrimitive::I8,
    ScalarPrimitive::I16,
    ScalarPrimitive::I32,
    ScalarPrimitive::I64,
    ScalarPrimitive::I128,
    ScalarPrimitive::F32,
    ScalarPrimitive::F64,
    ScalarPrimitive::Bool,
    ScalarPrimitive::Char,
    ScalarPrimitive::Str,
];

fn abi_of(i: u8) -> rustdoc_types::Abi {
    use rustdoc_types::Abi;
    match i % 6 {
        0 => Abi::Rust,
        1 => Abi::C { unwind: false },
        2 => Abi::C { unwind: true },
        3 => Abi::System { unwind: false },
        4 => Abi::SysV64 { unwind: false },
        _ => Abi::Other("rust-call".into()),
    }
}

fn abi_str(i: u8) -> Option<&'static str> {
    match i % 6 {
        0 => None,
        1 => Some("C"),
        2 => Some("C-unwind"),
        3 => Some("system"),
        4 => Some("sysv64"),
        _ => Some("rust-call"),
    }
}

fn lt_ir(l: &Lt) -> Lifetime {
    match l {
        Lt::Static => Lifetime::Static,
        Lt::Named(n) => Lifetime::Named(NamedLifetime::new(n.clone())),
        Lt::Inferred => Lifetime::Inferred,
        Lt::Elided => Lifetime::Elided,
    }
}

fn glt_ir(l: &Lt) -> GenericLifetimeParameter {
    match l {
        Lt::Static => GenericLifetimeParameter::Static,
        Lt::Named(n) => GenericLifetimeParameter::Named(NamedLifetime::new(n.clone())),
        Lt::Inferred | Lt::Elided => GenericLifetimeParameter::Inferred,
    }
}

pub fn to_ir(t: &Ty) -> Type {
    match t {
        Ty::Path { alias, path, args } => {
            let (krate, pkg, segs) = PATHS[*path as usize % PATHS.len()];
            let mut base = vec![krate.to_string()];
            base.extend(segs.iter().map(|s| s.to_string()));
            let p = PathType {
                package_id: guppy::PackageId::new(pkg),
                rustdoc_id: Some(rustdoc_types::Id(100 + (*path as u32 % PATHS.len() as u32))),
                base_type: base,
                generic_arguments: args
                    .iter()
                    .map(|a| match a {
                        Arg::Ty(t) => GenericArgument::TypeParameter(to_ir(t)),
                        Arg::Lt(l) => GenericArgument::Lifetime(glt_ir(l)),
                        Arg::Const(c) => GenericArgument::Const(rustdoc_ir::ConstGenericArgument {
                            value: c.clone(),
                        }),
                    })
                    .collect(),
            };
            if *alias { Type::TypeAlias(p) } else { Type::Path(p) }
        }
        Ty::Ref { m, lt, inner } => Type::Reference(TypeReference {
            is_mutable: *m,
            lifetime: lt_ir(lt),
            inner: Box::new(to_ir(inner)),
        }),
        Ty::Tuple(e) => Type::Tuple(Tuple {
            elements: e.iter().map(to_ir).collect(),
        }),
        Ty::Scalar(i) => Type::ScalarPrimitive(SCALARS[*i as usize % SCALARS.len()].clone()),
        Ty::Slice(e) => Type::Slice(Slice {
            element_type: Box::new(to_ir(e)),
        }),
        Ty::Array(e, n) => Type::Array(Array {
            element_type: Box::new(to_ir(e)),
            len: *n,
        }),
        Ty::Ptr { m, inner } => Type::RawPointer(RawPointer {
            is_mutable: *m,
            inner: Box::new(to_ir(inner)),
        }),
        Ty::Fn { inputs, output, abi, unsafe_ } => Type::FunctionPointer(FunctionPointer {
            inputs: inputs
                .iter()
                .map(|(n, t)| FunctionPointerInput {
                    name: n.clone(),
                    type_: to_ir(t),
                })
                .collect(),
            output: output.as_ref().map(|o| Box::new(to_ir(o))),
            abi: abi_of(*abi),
            is_unsafe: *unsafe_,
        }),
        Ty::Gen(n) => Type::Generic(Generic { name: n.clone() }),
    }
}

/// Canonical form of the mirror w.r.t. what does *not* matter for scalar/path/abi indices.
fn norm(t: &Ty) -> Ty {
    match t {
        Ty::Path { alias, path, args } => Ty::Path {
            alias: *alias,
            path: *path % PATHS.len() as u8,
            args: args
                .iter()
                .map(|a| match a {
                    Arg::Ty(t) => Arg::Ty(norm(t)),
                    Arg::Lt(Lt::Elided) => Arg::Lt(Lt::Inferred),
                    o => o.clone(),
                })
                .collect(),
        },
        Ty::Ref { m, lt, inner } => Ty::Ref {
            m: *m,
            lt: lt.clone(),
            inner: Box::new(norm(inner)),
        },
        Ty::Tuple(e) => Ty::Tuple(e.iter().map(norm).collect()),
        Ty::Scalar(i) => Ty::Scalar(*i % SCALARS.len() as u8),
        Ty::Slice(e) => Ty::Slice(Box::new(norm(e))),
        Ty::Array(e, n) => Ty::Array(Box::new(norm(e)), *n),
        Ty::Ptr { m, inner } => Ty::Ptr {
            m: *m,
            inner: Box::new(norm(inner)),
        },
        Ty::Fn { inputs, output, abi, unsafe_ } => Ty::Fn {
            inputs: inputs.iter().map(|(n, t)| (n.clone(), norm(t))).collect(),
            output: output.as_ref().map(|o| Box::new(norm(o))),
            abi: *abi % 6,
            unsafe_: *unsafe_,
        },
        Ty::Gen(n) => Ty::Gen(n.clone()),
    }
}

// ------------------------------------------------------------------------------------------
// Independent model: equality modulo lifetimes, fn-pointer parameter names and a bijective
// renaming of generic parameters
// ------------------------------------------------------------------------------------------

struct Bij {
    fwd: BTreeMap<String, String>,
    bwd: BTreeMap<String, String>,
}

fn alpha_eq_inner(a: &Ty, b: &Ty, bij: &mut Option<Bij>) -> bool {
    match (a, b) {
        (
            Ty::Path { alias: aa, path: pa, args: ga },
            Ty::Path { alias: ab, path: pb, args: gb },
        ) => {
            aa == ab
                && pa == pb
                && ga.len() == gb.len()
                && ga.iter().zip(gb).all(|(x, y)| match (x, y) {
                    (Arg::Ty(x), Arg::Ty(y)) => alpha_eq_inner(x, y, bij),
                    (Arg::Lt(_), Arg::Lt(_)) => true,
                    // two spellings of one integer (`4` / `4usize` / `4_usize`) denote the same value: the model calls
                    // them equal, so L4 never objects to a notion of equivalence that sees through the spelling, while
                    // L5 (equal canonical forms => equivalent) still binds the two functions to each other
                    (Arg::Const(x), Arg::Const(y)) => x == y || (const_value(x).is_some() && const_value(x) == const_value(y)),
                    _ => false,
                })
        }
        (Ty::Ref { m: ma, inner: ia, .. }, Ty::Ref { m: mb, inner: ib, .. }) => {
            ma == mb && alpha_eq_inner(ia, ib, bij)
        }
        (Ty::Tuple(x), Ty::Tuple(y)) => {
            x.len() == y.len() && x.iter().zip(y).all(|(x, y)| alpha_eq_inner(x, y, bij))
        }
        (Ty::Scalar(x), Ty::Scalar(y)) => x == y,
        (Ty::Slice(x), Ty::Slice(y)) => alpha_eq_inner(x, y, bij),
        (Ty::Array(x, n), Ty::Array(y, m)) => n == m && alpha_eq_inner(x, y, bij),
        (Ty::Ptr { m: ma, inner: ia }, Ty::Ptr { m: mb, inner: ib }) => {
            ma == mb && alpha_eq_inner(ia, ib, bij)
        }
        (
            Ty::Fn { inputs: ia, output: oa, abi: aa, unsafe_: ua },
            Ty::Fn { inputs: ib, output: ob, abi: ab, unsafe_: ub },
        ) => {
            aa == ab
                && ua == ub
                && ia.len() == ib.len()
                && ia.iter().zip(ib).all(|((_, x), (_, y))| alpha_eq_inner(x, y, bij))
                && match (oa, ob) {
                    (Some(x), Some(y)) => alpha_eq_inner(x, y, bij),
                    (None, None) => true,
                    _ => false,
                }
        }
        (Ty::Gen(x), Ty::Gen(y)) => match bij {
            None => x == y,
            Some(bij) => {
                let f = bij.fwd.get(x).cloned();
                let g = bij.bwd.get(y).cloned();
                match (f, g) {
                    (None, None) => {
                        bij.fwd.insert(x.clone(), y.clone());
                        bij.bwd.insert(y.clone(), x.clone());
                        true
                    }
                    (Some(f), Some(g)) => &f == y && &g == x,
                    _ => false,
                }
            }
        },
        _ => false,
    }
}

/// Equal modulo lifetimes, fn parameter names and a bijection between generic names.
pub fn alpha_eq(a: &Ty, b: &Ty) -> bool {
    let mut bij = Some(Bij {
        fwd: BTreeMap::new(),
        bwd: BTreeMap::new(),
    });
    alpha_eq_inner(&norm(a), &norm(b), &mut bij)
}

/// Equal modulo lifetimes and fn parameter names only.
pub fn lt_eq(a: &Ty, b: &Ty) -> bool {
    alpha_eq_inner(&norm(a), &norm(b), &mut None)
}

// IR-level erasure (used to compare `bind` results, which only exist as IR values).
fn ir_erase(t: &Type) -> Type {
    match t {
        Type::Path(p) | Type::TypeAlias(p) => {
            let q = PathType {
                package_id: p.package_id.clone(),
                rustdoc_id: None,
                base_type: p.base_type.clone(),
                generic_arguments: p
                    .generic_arguments
                    .iter()
                    .map(|a| match a {
                        GenericArgument::TypeParameter(t) => GenericArgument::TypeParameter(ir_erase(t)),
                        GenericArgument::Lifetime(_) => {
                            GenericArgument::Lifetime(GenericLifetimeParameter::Inferred)
                        }
                        GenericArgument::Const(c) => GenericArgument::Const(c.clone()),
                    })
                    .collect(),
            };
            if matches!(t, Type::TypeAlias(_)) { Type::TypeAlias(q) } else { Type::Path(q) }
        }
        Type::Reference(r) => Type::Reference(TypeReference {
            is_mutable: r.is_mutable,
            lifetime: Lifetime::Elided,
            inner: Box::new(ir_erase(&r.inner)),
        }),
        Type::Tuple(t) => Type::Tuple(Tuple {
            elements: t.elements.iter().map(ir_erase).collect(),
        }),
        Type::ScalarPrimitive(s) => Type::ScalarPrimitive(s.clone()),
        Type::Slice(s) => Type::Slice(Slice {
            element_type: Box::new(ir_erase(&s.element_type)),
        }),
        Type::Array(a) => Type::Array(Array {
            element_type: Box::new(ir_erase(&a.element_type)),
            len: a.len,
        }),
        Type::RawPointer(r) => Type::RawPointer(RawPointer {
            is_mutable: r.is_mutable,
            inner: Box::new(ir_erase(&r.inner)),
        }),
        Type::FunctionPointer(fp) => Type::FunctionPointer(FunctionPointer {
            inputs: fp
                .inputs
                .iter()
                .map(|i| FunctionPointerInput {
                    name: None,
                    type_: ir_erase(&i.type_),
                })
                .collect(),
            output: fp.output.as_ref().map(|o| Box::new(ir_erase(o))),
            abi: fp.abi.clone(),
            is_unsafe: fp.is_unsafe,
        }),
        Type::Generic(g) => Type::Generic(g.clone()),
    }
}

// ------------------------------------------------------------------------------------------
// Independent reader: syn::Type -> Ty  (for the render/parse round trip)
// ------------------------------------------------------------------------------------------

fn syn_lt(l: &syn::Lifetime) -> Lt {
    let n = l.ident.to_string();
    match n.as_str() {
        "static" => Lt::Static,
        "_" => Lt::Inferred,
        _ => Lt::Named(n),
    }
}

fn from_syn(t: &syn::Type) -> Result<Ty, String> {
    match t {
        syn::Type::Path(tp) => {
            if tp.qself.is_some() {
                return Err("qself".into());
            }
            let segs: Vec<&syn::PathSegment> = tp.path.segments.iter().collect();
            if segs.len() == 1 && matches!(segs[0].arguments, syn::PathArguments::None) {
                let name = segs[0].ident.to_string();
                if let Some(i) = SCALARS.iter().position(|s| s.as_str() == name) {
                    return Ok(Ty::Scalar(i as u8));
                }
                return Ok(Ty::Gen(name));
            }
            for s in &segs[..segs.len() - 1] {
                if !matches!(s.arguments, syn::PathArguments::None) {
                    return Err("generic arguments on a non-final segment".into());
                }
            }
            let names: Vec<String> = segs.iter().map(|s| s.ident.to_string()).collect();
            let path = PATHS
                .iter()
                .position(|(k, _, rest)| {
                    names.len() == rest.len() + 1
                        && names[0] == *k
                        && names[1..].iter().zip(rest.iter()).all(|(a, b)| a == b)
                })
                .ok_or_else(|| format!("unknown path {names:?}"))?;
            let mut args = vec![];
            match &segs[segs.len() - 1].arguments {
                syn::PathArguments::None => {}
                syn::PathArguments::AngleBracketed(ab) => {
                    for a in &ab.args {
                        match a {
                            syn::GenericArgument::Lifetime(l) => args.push(Arg::Lt(syn_lt(l))),
                            syn::GenericArgument::Type(t) => args.push(Arg::Ty(from_syn(t)?)),
                            syn::GenericArgument::Const(e) => {
                                let s = quote::ToTokens::to_token_stream(e).to_string();
                                args.push(Arg::Const(s.replace(' ', "")));
                            }
                            _ => return Err("unsupported generic argument".into()),
                        }
                    }
                }
                _ => return Err("parenthesized args".into()),
            }
            Ok(Ty::Path { alias: false, path: path as u8, args })
        }
        syn::Type::Reference(r) => Ok(Ty::Ref {
            m: r.mutability.is_some(),
            lt: r.lifetime.as_ref().map(syn_lt).unwrap_or(Lt::Elided),
            inner: Box::new(from_syn(&r.elem)?),
        }),
        syn::Type::Tuple(t) => Ok(Ty::Tuple(
            t.elems.iter().map(from_syn).collect::<Result<Vec<_>, _>>()?,
        )),
        syn::Type::Slice(s) => Ok(Ty::Slice(Box::new(from_syn(&s.elem)?))),
        syn::Type::Array(a) => {
            let n = match &a.len {
                syn::Expr::Lit(syn::ExprLit { lit: syn::Lit::Int(i), .. }) => {
                    i.base10_parse::<usize>().map_err(|e| e.to_string())?
                }
                _ => return Err("array length is not an integer literal".into()),
            };
            Ok(Ty::Array(Box::new(from_syn(&a.elem)?), n))
        }
        syn::Type::Ptr(p) => Ok(Ty::Ptr {
            m: p.mutability.is_some(),
            inner: Box::new(from_syn(&p.elem)?),
        }),
        syn::Type::BareFn(f) => {
            if f.lifetimes.is_some() || f.variadic.is_some() {
                return Err("for<> / variadic".into());
            }
            let abi = match &f.abi {
                None => 0u8,
                Some(a) => {
                    let name = a.name.as_ref().map(|n| n.value()).unwrap_or_else(|| "C".into());
                    (0..6u8)
                        .find(|i| abi_str(*i) == Some(name.as_str()))
                        .ok_or_else(|| format!("unknown abi {name}"))?
                }
            };
            let mut inputs = vec![];
            for i in &f.inputs {
                inputs.push((i.name.as_ref().map(|(n, _)| n.to_string()), from_syn(&i.ty)?));
            }
            let output = match &f.output {
                syn::ReturnType::Default => None,
                syn::ReturnType::Type(_, t) => Some(Box::new(from_syn(t)?)),
            };
            Ok(Ty::Fn { inputs, output, abi, unsafe_: f.unsafety.is_some() })
        }
        syn::Type::Paren(_) => Err("parenthesised type (not a tuple)".into()),
        syn::Type::Group(g) => from_syn(&g.elem),
        other => Err(format!(
            "unsupported syn type: {}",
            quote::ToTokens::to_token_stream(other)
        )),
    }
}

fn drop_alias(t: &Ty) -> Ty {
    match norm(t) {
        Ty::Path { path, args, .. } => Ty::Path {
            alias: false,
            path,
            args: args
                .into_iter()
                .map(|a| match a {
                    Arg::Ty(t) => Arg::Ty(drop_alias(&t)),
                    o => o,
                })
                .collect(),
        },
        Ty::Ref { m, lt, inner } => Ty::Ref { m, lt, inner: Box::new(drop_alias(&inner)) },
        Ty::Tuple(e) => Ty::Tuple(e.iter().map(drop_alias).collect()),
        Ty::Slice(e) => Ty::Slice(Box::new(drop_alias(&e))),
        Ty::Array(e, n) => Ty::Array(Box::new(drop_alias(&e)), n),
        Ty::Ptr { m, inner } => Ty::Ptr { m, inner: Box::new(drop_alias(&inner)) },
        Ty::Fn { inputs, output, abi, unsafe_ } => Ty::Fn {
            inputs: inputs.iter().map(|(n, t)| (n.clone(), drop_alias(t))).collect(),
            output: output.map(|o| Box::new(drop_alias(&o))),
            abi,
            unsafe_,
        },
        o => o,
    }
}

fn id2name() -> bimap::BiHashMap<guppy::PackageId, String> {
    let mut m = bimap::BiHashMap::new();
    for (k, pkg, _) in PATHS {
        m.insert(guppy::PackageId::new(*pkg), k.to_string());
    }
    m
}

// ------------------------------------------------------------------------------------------
// Laws
// ------------------------------------------------------------------------------------------

fn depth(t: &Ty) -> usize {
    match t {
        Ty::Path { args, .. } => {
            1 + args
                .iter()
                .map(|a| if let Arg::Ty(t) = a { depth(t) } else { 0 })
                .max()
                .unwrap_or(0)
        }
        Ty::Ref { inner, .. } | Ty::Ptr { inner, .. } => 1 + depth(inner),
        Ty::Slice(e) | Ty::Array(e, _) => 1 + depth(e),
        Ty::Tuple(e) => 1 + e.iter().map(depth).max().unwrap_or(0),
        Ty::Fn { inputs, output, .. } => {
            1 + inputs
                .iter()
                .map(|(_, t)| depth(t))
                .chain(output.iter().map(|o| depth(o)))
                .max()
                .unwrap_or(0)
        }
        Ty::Scalar(_) | Ty::Gen(_) => 0,
    }
}

fn has_ref_or_generic(t: &Ty) -> bool {
    match t {
        Ty::Ref { .. } | Ty::Gen(_) => true,
        Ty::Path { args, .. } => args.iter().any(|a| matches!(a, Arg::Ty(t) if has_ref_or_generic(t))),
        Ty::Ptr { inner, .. } => has_ref_or_generic(inner),
        Ty::Slice(e) | Ty::Array(e, _) => has_ref_or_generic(e),
        Ty::Tuple(e) => e.iter().any(has_ref_or_generic),
        Ty::Fn { inputs, output, .. } => {
            inputs.iter().any(|(_, t)| has_ref_or_generic(t))
                || output.as_ref().is_some_and(|o| has_ref_or_generic(o))
        }
        Ty::Scalar(_) => false,
    }
}

fn law_single(t: &Ty, info: &mut CaseInfo) -> Result<(), Fail> {
    let ir = to_ir(t);
    // L3 reflexivity
    if ir.is_equivalent_to(&ir).is_none() {
        return Err(Fail::new("L3-reflexive", format!("{ir:?} is not equivalent to itself")));
    }
    // L6 canonicalisation is idempotent
    let c1 = ir.canonicalize();
    let c2 = c1.inner().canonicalize();
    if c1 != c2 {
        return Err(Fail::new(
            "L6-canonicalize-idempotent",
            format!("canonicalize({ir:?}) = {:?}, canonicalising again gives {:?}", c1.inner(), c2.inner()),
        ));
    }
    // L7 render -> parse -> read back is lossless
    let rendered = ir.render_type(&id2name());
    let parsed = syn::parse_str::<syn::Type>(&rendered).map_err(|e| {
        Fail::new("L7-render-parses", format!("`{rendered}` (from {ir:?}) does not parse: {e}"))
    })?;
    match from_syn(&parsed) {
        Ok(back) => {
            if back != drop_alias(t) {
                return Err(Fail::new(
                    "L7-render-roundtrip",
                    format!("rendering {ir:?} gives `{rendered}`, which reads back as {:?}", to_ir(&back)),
                ));
            }
        }
        Err(e) => {
            return Err(Fail::new(
                "L7-render-roundtrip",
                format!("rendering {ir:?} gives `{rendered}`, which reads back as a different kind of type: {e}"),
            ));
        }
    }
    if depth(t) >= 2 && has_ref_or_generic(t) {
        info.set_nontrivial(true);
    }
    Ok(())
}

/// The integer a const generic argument denotes, whatever its spelling (type suffix, `_` separators).
fn const_value(c: &str) -> Option<u128> {
    let digits: String = c.chars().take_while(|ch| ch.is_ascii_digit() || *ch == '_').filter(|ch| *ch != '_').collect();
    let rest = &c[c.chars().take_while(|ch| ch.is_ascii_digit() || *ch == '_').count()..];
    let suffix_ok = rest.is_empty() || ["usize", "u8", "u16", "u32", "u64", "u128", "isize", "i8", "i16", "i32", "i64", "i128"].contains(&rest);
    if digits.is_empty() || !suffix_ok { None } else { digits.parse().ok() }
}

fn has_generic(t: &Ty) -> bool {
    match t {
        Ty::Gen(_) => true,
        Ty::Ref { inner, .. } | Ty::Ptr { inner, .. } => has_generic(inner),
        Ty::Path { args, .. } => args.iter().any(|a| matches!(a, Arg::Ty(t) if has_generic(t))),
        Ty::Slice(e) | Ty::Array(e, _) => has_generic(e),
        Ty::Tuple(e) => e.iter().any(has_generic),
        Ty::Fn { inputs, output, .. } => {
            inputs.iter().any(|(_, t)| has_generic(t)) || output.as_ref().is_some_and(|o| has_generic(o))
        }
        Ty::Scalar(_) => false,
    }
}

fn law_template(t: &Ty, c: &Ty, info: &mut CaseInfo) -> Result<(), Fail> {
    // The statement speaks of a *concrete* C. When the generated C still mentions generic
    // parameters, they live in a different namespace than the template's: rename them apart
    // (P, Q, R) so that a name shared by accident is not mistaken for the same parameter.
    // The same-name situation is only classified (label `template:shared-names-inconsistent`).
    let apart: BTreeMap<String, Ty> = [("T", "P"), ("U", "Q"), ("V", "R"), ("X", "P2"), ("Y", "Q2"), ("Z", "R2")]
        .iter()
        .map(|(k, v)| (k.to_string(), Ty::Gen(v.to_string())))
        .collect();
    if has_generic(c) {
        let (ti, ci) = (to_ir(t), to_ir(c));
        if let Some(b) = ti.is_a_template_for(&ci) {
            if ir_erase(&ti.bind_generic_type_parameters(&b)) != ir_erase(&ci) {
                info.lab("template:shared-names-inconsistent");
            }
        }
        info.lab("template:target-has-generics");
    }
    let c = &subst(c, &apart);
    let (ti, ci) = (to_ir(t), to_ir(c));
    if let Some(b) = ti.is_a_template_for(&ci) {
        // L1: substitution gives the concrete type (up to lifetimes), mutability included.
        let bound = ti.bind_generic_type_parameters(&b);
        if ir_erase(&bound) != ir_erase(&ci) {
            return Err(Fail::new(
                "L1-template-soundness",
                format!(
                    "`{ti:?}` is reported to be a template for `{ci:?}` with bindings {b:?}, but substitution yields `{bound:?}`"
                ),
            ));
        }
        if !b.is_empty() {
            info.lab("template:matched-with-bindings");
            info.set_nontrivial(true);
        } else {
            info.lab("template:matched-no-bindings");
        }
    } else {
        info.lab("template:none");
    }
    Ok(())
}

fn law_equiv(a: &Ty, b: &Ty, info: &mut CaseInfo) -> Result<(), Fail> {
    let (ai, bi) = (to_ir(a), to_ir(b));
    let ab = ai.is_equivalent_to(&bi);
    let ba = bi.is_equivalent_to(&ai);
    // L3 symmetry
    if ab.is_some() != ba.is_some() {
        return Err(Fail::new(
            "L3-symmetric",
            format!("equiv({ai:?}, {bi:?}) = {} but equiv({bi:?}, {ai:?}) = {}", ab.is_some(), ba.is_some()),
        ));
    }
    let model = alpha_eq(a, b);
    if let Some(map) = &ab {
        // L4: never relates types that differ in anything but lifetimes / generic names.
        if !model {
            return Err(Fail::new(
                "L4-equivalence-soundness",
                format!("`{ai:?}` and `{bi:?}` are reported equivalent (renaming {map:?}) but differ in more than lifetimes and generic parameter names"),
            ));
        }
        // the renaming is a bijection that maps self onto other
        let mut seen = std::collections::BTreeSet::new();
        for v in map.values() {
            if !seen.insert(*v) {
                return Err(Fail::new(
                    "L3-bijection",
                    format!("renaming {map:?} between `{ai:?}` and `{bi:?}` is not injective"),
                ));
            }
        }
        let ren: ahash::HashMap<String, Type> = map
            .iter()
            .map(|(k, v)| (k.to_string(), Type::Generic(Generic { name: format!("\u{1}{v}") })))
            .collect();
        let unmark: ahash::HashMap<String, Type> = map
            .values()
            .map(|v| (format!("\u{1}{v}"), Type::Generic(Generic { name: v.to_string() })))
            .collect();
        let renamed = ai.bind_generic_type_parameters(&ren).bind_generic_type_parameters(&unmark);
        if ir_erase(&renamed) != ir_erase(&bi) {
            return Err(Fail::new(
                "L3-bijection",
                format!("applying the reported renaming {map:?} to `{ai:?}` gives `{renamed:?}`, not `{bi:?}`"),
            ));
        }
        info.lab("equiv:yes");
        if a != b {
            info.set_nontrivial(true);
        }
    } else {
        info.lab(if model { "equiv:no-but-model-says-alpha-equal" } else { "equiv:no" });
    }
    // L5: equal canonical forms => equivalent
    if ai.canonicalize() == bi.canonicalize() {
        info.lab("canon:equal");
        if ab.is_none() {
            return Err(Fail::new(
                "L5-canonical-implies-equivalent",
                format!("`{ai:?}` and `{bi:?}` have the same canonical form but are not reported equivalent"),
            ));
        }
    }
    Ok(())
}

pub fn oracle(case: &Case) -> CaseResult {
    let mut info = CaseInfo::default();
    match case {
        Case::Pair(a, b) => {
            law_single(a, &mut info)?;
            law_single(b, &mut info)?;
            law_template(a, b, &mut info)?;
            law_template(b, a, &mut info)?;
            law_equiv(a, b, &mut info)?;
        }
        Case::Triple(a, b, c) => {
            for t in [a, b, c] {
                law_single(t, &mut info)?;
            }
            law_equiv(a, b, &mut info)?;
            law_equiv(b, c, &mut info)?;
            law_equiv(a, c, &mut info)?;
            let (ai, bi, ci) = (to_ir(a), to_ir(b), to_ir(c));
            if ai.is_equivalent_to(&bi).is_some()
                && bi.is_equivalent_to(&ci).is_some()
                && ai.is_equivalent_to(&ci).is_none()
            {
                return Err(Fail::new(
                    "L3-transitive",
                    format!("{ai:?} ~ {bi:?} ~ {ci:?} but not {ai:?} ~ {ci:?}"),
                ));
            }
            if ai.is_equivalent_to(&bi).is_some() && bi.is_equivalent_to(&ci).is_some() {
                info.lab("triple:chain-equivalent");
            }
        }
    }
    Ok(info)
}

// ------------------------------------------------------------------------------------------
// Generators
// ------------------------------------------------------------------------------------------

fn lt_strategy() -> impl Strategy<Value = Lt> {
    prop_oneof![
        3 => Just(Lt::Elided),
        1 => Just(Lt::Inferred),
        1 => Just(Lt::Static),
        2 => (0u8..3).prop_map(|i| Lt::Named(["a", "b", "life"][i as usize].to_string())),
    ]
}

fn glt_strategy() -> impl Strategy<Value = Lt> {
    prop_oneof![
        1 => Just(Lt::Inferred),
        1 => Just(Lt::Static),
        2 => (0u8..3).prop_map(|i| Lt::Named(["a", "b", "life"][i as usize].to_string())),
    ]
}

fn leaf(generics: bool) -> BoxedStrategy<Ty> {
    if generics {
        prop_oneof![
            3 => (0u8..17).prop_map(Ty::Scalar),
            3 => (0u8..3).prop_map(|i| Ty::Gen(["T", "U", "V"][i as usize].to_string())),
            2 => (0u8..6, any::<bool>()).prop_map(|(p, alias)| Ty::Path { alias: alias && p % 2 == 0, path: p, args: vec![] }),
            1 => Just(Ty::Tuple(vec![])),
        ]
        .boxed()
    } else {
        prop_oneof![
            4 => (0u8..17).prop_map(Ty::Scalar),
            3 => (0u8..6, any::<bool>()).prop_map(|(p, alias)| Ty::Path { alias: alias && p % 2 == 0, path: p, args: vec![] }),
            1 => Just(Ty::Tuple(vec![])),
        ]
        .boxed()
    }
}

pub fn ty_strategy(generics: bool) -> BoxedStrategy<Ty> {
    leaf(generics)
        .prop_recursive(4, 24, 3, |inner| {
            let arg = prop_oneof![
                5 => inner.clone().prop_map(Arg::Ty),
                2 => glt_strategy().prop_map(Arg::Lt),
                1 => (0u8..8).prop_map(|i| Arg::Const(["0", "8", "255", "true", "'x'", "8usize", "0u8", "4"][i as usize].to_string())),
            ];
            prop_oneof![
                4 => (0u8..6, any::<bool>(), prop::collection::vec(arg, 1..=3))
                    .prop_map(|(p, alias, args)| Ty::Path { alias: alias && p % 2 == 0, path: p, args }),
                4 => (any::<bool>(), lt_strategy(), inner.clone())
                    .prop_map(|(m, lt, i)| Ty::Ref { m, lt, inner: Box::new(i) }),
                3 => prop::collection::vec(inner.clone(), 1..=3).prop_map(Ty::Tuple),
                1 => inner.clone().prop_map(|i| Ty::Slice(Box::new(i))),
                2 => (inner.clone(), 0usize..5).prop_map(|(i, n)| Ty::Array(Box::new(i), n)),
                2 => (any::<bool>(), inner.clone()).prop_map(|(m, i)| Ty::Ptr { m, inner: Box::new(i) }),
                2 => (
                    prop::collection::vec((prop::option::of((0u8..2).prop_map(|i| ["x", "arg"][i as usize].to_string())), inner.clone()), 0..=2),
                    prop::option::of(inner.clone()),
                    0u8..6,
                    any::<bool>()
                )
                    .prop_map(|(inputs, output, abi, unsafe_)| Ty::Fn {
                        inputs,
                        output: output.map(Box::new),
                        abi,
                        unsafe_
                    }),
            ]
        })
        .boxed()
}

fn subst(t: &Ty, b: &BTreeMap<String, Ty>) -> Ty {
    match t {
        Ty::Gen(n) => b.get(n).cloned().unwrap_or_else(|| t.clone()),
        Ty::Path { alias, path, args } => Ty::Path {
            alias: *alias,
            path: *path,
            args: args
                .iter()
                .map(|a| match a {
                    Arg::Ty(t) => Arg::Ty(subst(t, b)),
                    o => o.clone(),
                })
                .collect(),
        },
        Ty::Ref { m, lt, inner } => Ty::Ref { m: *m, lt: lt.clone(), inner: Box::new(subst(inner, b)) },
        Ty::Tuple(e) => Ty::Tuple(e.iter().map(|t| subst(t, b)).collect()),
        Ty::Slice(e) => Ty::Slice(Box::new(subst(e, b))),
        Ty::Array(e, n) => Ty::Array(Box::new(subst(e, b)), *n),
        Ty::Ptr { m, inner } => Ty::Ptr { m: *m, inner: Box::new(subst(inner, b)) },
        Ty::Fn { inputs, output, abi, unsafe_ } => Ty::Fn {
            inputs: inputs.iter().map(|(n, t)| (n.clone(), subst(t, b))).collect(),
            output: output.as_ref().map(|o| Box::new(subst(o, b))),
            abi: *abi,
            unsafe_: *unsafe_,
        },
        Ty::Scalar(_) => t.clone(),
    }
}

/// Change every non-static lifetime according to `salt` (keeps static-ness), and fn input names.
fn relifetime(t: &Ty, salt: &mut u32) -> Ty {
    fn relt(l: &Lt, salt: &mut u32, in_path: bool) -> Lt {
        *salt = salt.wrapping_mul(1664525).wrapping_add(1013904223);
        match l {
            Lt::Static => Lt::Static,
            _ => match (*salt >> 16) % 4 {
                0 if !in_path => Lt::Elided,
                1 => Lt::Inferred,
                2 => Lt::Named("z".into()),
                _ => Lt::Named("a".into()),
            },
        }
    }
    match t {
        Ty::Path { alias, path, args } => Ty::Path {
            alias: *alias,
            path: *path,
            args: args
                .iter()
                .map(|a| match a {
                    Arg::Ty(t) => Arg::Ty(relifetime(t, salt)),
                    Arg::Lt(l) => Arg::Lt(relt(l, salt, true)),
                    o => o.clone(),
                })
                .collect(),
        },
        Ty::Ref { m, lt, inner } => Ty::Ref {
            m: *m,
            lt: relt(lt, salt, false),
            inner: Box::new(relifetime(inner, salt)),
        },
        Ty::Tuple(e) => Ty::Tuple(e.iter().map(|t| relifetime(t, salt)).collect()),
        Ty::Slice(e) => Ty::Slice(Box::new(relifetime(e, salt))),
        Ty::Array(e, n) => Ty::Array(Box::new(relifetime(e, salt)), *n),
        Ty::Ptr { m, inner } => Ty::Ptr { m: *m, inner: Box::new(relifetime(inner, salt)) },
        Ty::Fn { inputs, output, abi, unsafe_ } => Ty::Fn {
            inputs: inputs
                .iter()
                .map(|(n, t)| {
                    *salt = salt.wrapping_mul(1664525).wrapping_add(1013904223);
                    let name = match (*salt >> 16) % 3 {
                        0 => None,
                        1 => Some("renamed".to_string()),
                        _ => n.clone(),
                    };
                    (name, relifetime(t, salt))
                })
                .collect(),
            output: output.as_ref().map(|o| Box::new(relifetime(o, salt))),
            abi: *abi,
            unsafe_: *unsafe_,
        },
        o => o.clone(),
    }
}

fn count_nodes(t: &Ty) -> usize {
    1 + match t {
        Ty::Path { args, .. } => args.iter().map(|a| if let Arg::Ty(t) = a { count_nodes(t) } else { 0 }).sum(),
        Ty::Ref { inner, .. } | Ty::Ptr { inner, .. } => count_nodes(inner),
        Ty::Slice(e) | Ty::Array(e, _) => count_nodes(e),
        Ty::Tuple(e) => e.iter().map(count_nodes).sum(),
        Ty::Fn { inputs, output, .. } => {
            inputs.iter().map(|(_, t)| count_nodes(t)).sum::<usize>()
                + output.as_ref().map(|o| count_nodes(o)).unwrap_or(0)
        }
        _ => 0,
    }
}

/// Apply one local mutation at the `target`-th node (pre-order).
fn mutate(t: &Ty, target: &mut isize, kind: u8) -> Ty {
    let here = *target == 0;
    *target -= 1;
    if here {
        return match t {
            Ty::Path { alias, path, args } if kind >= 200 && args.iter().any(|a| matches!(a, Arg::Const(c) if const_value(c).is_some())) => {
                // respell an integer const argument (same value, other spelling)
                let mut a = args.clone();
                for x in a.iter_mut() {
                    if let Arg::Const(c) = x {
                        if const_value(c).is_some() {
                            let bare: String = c.chars().take_while(|ch| ch.is_ascii_digit()).collect();
                            *c = if *c != bare { bare } else { format!("{bare}{}", ["usize", "u8", "_usize", "u32"][(kind % 4) as usize]) };
                            break;
                        }
                    }
                }
                Ty::Path { alias: *alias, path: *path, args: a }
            }
            Ty::Path { alias, path, args } => match kind % 5 {
                0 => Ty::Path { alias: *alias, path: (*path + 1) % PATHS.len() as u8, args: args.clone() },
                1 => Ty::Path { alias: !*alias, path: *path, args: args.clone() },
                2 if !args.is_empty() => Ty::Path { alias: *alias, path: *path, args: args[..args.len() - 1].to_vec() },
                3 => {
                    let mut a = args.clone();
                    for x in a.iter_mut() {
                        if let Arg::Const(c) = x {
                            // (a neighbouring value of the same kind: booleans, characters and numbers alike)
                            *c = match c.as_str() {
                                "true" => "false".into(),
                                "false" => "true".into(),
                                "'x'" => "'y'".into(),
                                "'y'" => "'x'".into(),
                                "8" => "9".into(),
                                "0" => "1".into(),
                                "255" => "254".into(),
                                _ => "8".into(),
                            };
                            break;
                        }
                        if let Arg::Lt(l) = x {
                            *l = if *l == Lt::Static { Lt::Named("q".into()) } else { Lt::Static };
                            break;
                        }
                    }
                    Ty::Path { alias: *alias, path: *path, args: a }
                }
                _ => {
                    let mut a = args.clone();
                    a.push(Arg::Ty(Ty::Scalar(1)));
                    Ty::Path { alias: *alias, path: *path, args: a }
                }
            },
            Ty::Ref { m, lt, inner } => match kind % 3 {
                0 | 1 => Ty::Ref { m: !*m, lt: lt.clone(), inner: inner.clone() },
                _ => Ty::Ptr { m: *m, inner: inner.clone() },
            },
            Ty::Tuple(e) => match kind % 3 {
                0 if !e.is_empty() => Ty::Tuple(e[1..].to_vec()),
                1 if e.len() >= 2 => {
                    let mut v = e.clone();
                    v.swap(0, 1);
                    Ty::Tuple(v)
                }
                _ => {
                    let mut v = e.clone();
                    v.push(Ty::Scalar(3));
                    Ty::Tuple(v)
                }
            },
            Ty::Scalar(i) => Ty::Scalar((*i + 1 + kind % 5) % SCALARS.len() as u8),
            Ty::Slice(e) => match kind % 2 {
                0 => Ty::Array(e.clone(), 2),
                _ => Ty::Tuple(vec![(**e).clone()]),
            },
            Ty::Array(e, n) => match kind % 2 {
                0 => Ty::Array(e.clone(), n + 1),
                _ => Ty::Slice(e.clone()),
            },
            Ty::Ptr { m, inner } => match kind % 3 {
                0 | 1 => Ty::Ptr { m: !*m, inner: inner.clone() },
                _ => Ty::Ref { m: *m, lt: Lt::Elided, inner: inner.clone() },
            },
            Ty::Fn { inputs, output, abi, unsafe_ } => match kind % 4 {
                0 => Ty::Fn { inputs: inputs.clone(), output: output.clone(), abi: (*abi + 1) % 6, unsafe_: *unsafe_ },
                1 => Ty::Fn { inputs: inputs.clone(), output: output.clone(), abi: *abi, unsafe_: !*unsafe_ },
                2 => Ty::Fn {
                    inputs: inputs.clone(),
                    output: if output.is_some() { None } else { Some(Box::new(Ty::Scalar(2))) },
                    abi: *abi,
                    unsafe_: *unsafe_,
                },
                _ => {
                    let mut i = inputs.clone();
                    i.push((None, Ty::Scalar(4)));
                    Ty::Fn { inputs: i, output: output.clone(), abi: *abi, unsafe_: *unsafe_ }
                }
            },
            Ty::Gen(n) => match kind % 3 {
                0 => Ty::Gen(if n == "T" { "U".into() } else { "T".into() }),
                1 => Ty::Scalar(1),
                _ => Ty::Ref { m: kind % 2 == 0, lt: Lt::Elided, inner: Box::new(Ty::Gen(n.clone())) },
            },
        };
    }
    match t {
        Ty::Path { alias, path, args } => Ty::Path {
            alias: *alias,
            path: *path,
            args: args
                .iter()
                .map(|a| match a {
                    Arg::Ty(t) => Arg::Ty(mutate(t, target, kind)),
                    o => o.clone(),
                })
                .collect(),
        },
        Ty::Ref { m, lt, inner } => Ty::Ref { m: *m, lt: lt.clone(), inner: Box::new(mutate(inner, target, kind)) },
        Ty::Tuple(e) => Ty::Tuple(e.iter().map(|t| mutate(t, target, kind)).collect()),
        Ty::Slice(e) => Ty::Slice(Box::new(mutate(e, target, kind))),
        Ty::Array(e, n) => Ty::Array(Box::new(mutate(e, target, kind)), *n),
        Ty::Ptr { m, inner } => Ty::Ptr { m: *m, inner: Box::new(mutate(inner, target, kind)) },
        Ty::Fn { inputs, output, abi, unsafe_ } => {
            let inputs = inputs.iter().map(|(n, t)| (n.clone(), mutate(t, target, kind))).collect();
            let output = output.as_ref().map(|o| Box::new(mutate(o, target, kind)));
            Ty::Fn { inputs, output, abi: *abi, unsafe_: *unsafe_ }
        }
        o => o.clone(),
    }
}

fn mutate_at(t: &Ty, raw: u16, kind: u8) -> Ty {
    let n = count_nodes(t);
    let mut target = idx(raw, n) as isize;
    mutate(t, &mut target, kind)
}

/// Like `subst`, but every *occurrence* of a generic parameter is replaced on its own: by the binding, or (when the next
/// bit of `choices` is set) by a copy of the binding whose own generic parameters are renamed. Two occurrences of one
/// template parameter then stand against types that are equal up to parameter names but not equal.
fn subst_occ(t: &Ty, b: &BTreeMap<String, Ty>, choices: &mut u64) -> Ty {
    match t {
        Ty::Gen(n) => match b.get(n) {
            Some(v) => {
                let bit = *choices & 1 == 1;
                let perm = ((*choices >> 1) & 3) as u8;
                *choices = choices.rotate_right(3);
                if bit { rename_generics(v, perm) } else { v.clone() }
            }
            None => t.clone(),
        },
        Ty::Path { alias, path, args } => Ty::Path {
            alias: *alias,
            path: *path,
            args: args
                .iter()
                .map(|a| match a {
                    Arg::Ty(t) => Arg::Ty(subst_occ(t, b, choices)),
                    o => o.clone(),
                })
                .collect(),
        },
        Ty::Ref { m, lt, inner } => Ty::Ref { m: *m, lt: lt.clone(), inner: Box::new(subst_occ(inner, b, choices)) },
        Ty::Tuple(e) => Ty::Tuple(e.iter().map(|t| subst_occ(t, b, choices)).collect()),
        Ty::Slice(e) => Ty::Slice(Box::new(subst_occ(e, b, choices))),
        Ty::Array(e, n) => Ty::Array(Box::new(subst_occ(e, b, choices)), *n),
        Ty::Ptr { m, inner } => Ty::Ptr { m: *m, inner: Box::new(subst_occ(inner, b, choices)) },
        Ty::Fn { inputs, output, abi, unsafe_ } => Ty::Fn {
            inputs: inputs.iter().map(|(n, t)| (n.clone(), subst_occ(t, b, choices))).collect(),
            output: output.as_ref().map(|o| Box::new(subst_occ(o, b, choices))),
            abi: *abi,
            unsafe_: *unsafe_,
        },
        Ty::Scalar(_) => t.clone(),
    }
}

/// A template in which one parameter occurs at least twice: `(T, P<T>)`, `P<T, T>`, `fn(T) -> T`, ...
fn repeated_param_template() -> BoxedStrategy<Ty> {
    (ty_strategy(true), any::<u8>(), any::<u8>())
        .prop_map(|(t, shape, p)| {
            let g = || Ty::Gen("T".into());
            let path = p % PATHS.len() as u8;
            match shape % 5 {
                0 => Ty::Path { alias: false, path, args: vec![Arg::Ty(g()), Arg::Ty(g())] },
                1 => Ty::Tuple(vec![g(), t, g()]),
                2 => Ty::Path { alias: false, path, args: vec![Arg::Ty(Ty::Tuple(vec![g(), g()])), Arg::Ty(t)] },
                3 => Ty::Fn { inputs: vec![(None, g()), (None, t)], output: Some(Box::new(g())), abi: 0, unsafe_: false },
                _ => Ty::Tuple(vec![Ty::Ref { m: false, lt: Lt::Elided, inner: Box::new(g()) }, Ty::Slice(Box::new(g())), t]),
            }
        })
        .boxed()
}

fn rename_generics(t: &Ty, perm: u8) -> Ty {
    // a bijection on {T,U,V} -> fresh names, chosen by `perm`
    let targets: [[&str; 3]; 4] = [["X", "Y", "Z"], ["U", "V", "T"], ["T", "U", "V"], ["V", "T", "U"]];
    let tg = targets[perm as usize % 4];
    let b: BTreeMap<String, Ty> = ["T", "U", "V"]
        .iter()
        .zip(tg.iter())
        .map(|(k, v)| (k.to_string(), Ty::Gen(format!("\u{2}{v}"))))
        .collect();
    let unmark: BTreeMap<String, Ty> =
        tg.iter().map(|v| (format!("\u{2}{v}"), Ty::Gen(v.to_string()))).collect();
    subst(&subst(t, &b), &unmark)
}

pub fn case_strategy() -> BoxedStrategy<Case> {
    let instantiation = (
        ty_strategy(true),
        prop::collection::vec(ty_strategy(false), 3),
        any::<u32>(),
        prop::option::weighted(0.5, (any::<u16>(), any::<u8>())),
        any::<bool>(),
    )
        .prop_map(|(tpl, binds, salt, mutn, relt)| {
            let b: BTreeMap<String, Ty> = ["T", "U", "V"]
                .iter()
                .zip(binds)
                .map(|(k, v)| (k.to_string(), v))
                .collect();
            let mut c = subst(&tpl, &b);
            if relt {
                let mut s = salt;
                c = relifetime(&c, &mut s);
            }
            if let Some((raw, kind)) = mutn {
                c = mutate_at(&c, raw, kind);
            }
            Case::Pair(tpl, c)
        });
    let renamed = (ty_strategy(true), any::<u8>(), any::<u32>(), prop::option::weighted(0.4, (any::<u16>(), any::<u8>())))
        .prop_map(|(t, perm, salt, mutn)| {
            let mut s = salt;
            let mut u = relifetime(&rename_generics(&t, perm), &mut s);
            if let Some((raw, kind)) = mutn {
                u = mutate_at(&u, raw, kind);
            }
            Case::Pair(t, u)
        });
    let independent = (ty_strategy(true), ty_strategy(true)).prop_map(|(a, b)| Case::Pair(a, b));
    // a parameter that occurs several times, bound occurrence by occurrence to types that carry generic parameters of
    // their own: all occurrences alike (a template match) or alike only up to the names of those parameters (no match)
    let split = (
        prop_oneof![repeated_param_template(), ty_strategy(true)],
        prop::collection::vec(ty_strategy(true), 3),
        any::<u64>(),
        any::<bool>(),
    )
        .prop_map(|(tpl, binds, choices, all_alike)| {
            let b: BTreeMap<String, Ty> = ["T", "U", "V"].iter().zip(binds).map(|(k, v)| (k.to_string(), v)).collect();
            let mut ch = if all_alike { 0 } else { choices | 8 };
            let c = subst_occ(&tpl, &b, &mut ch);
            Case::Pair(tpl, c)
        });
    let triple = (
        ty_strategy(true),
        any::<u8>(),
        any::<u8>(),
        any::<u32>(),
        prop::option::weighted(0.3, (any::<u16>(), any::<u8>())),
    )
        .prop_map(|(t, p1, p2, salt, mutn)| {
            let mut s = salt;
            let b = relifetime(&rename_generics(&t, p1), &mut s);
            let mut c = relifetime(&rename_generics(&b, p2), &mut s);
            if let Some((raw, kind)) = mutn {
                c = mutate_at(&c, raw, kind);
            }
            Case::Triple(t, b, c)
        });
    prop_oneof![4 => instantiation, 3 => renamed, 1 => independent, 2 => triple, 2 => split].boxed()
}

// ------------------------------------------------------------------------------------------
// Byte decoder (libFuzzer target `fz_c17`): the same case classes as `case_strategy`, with every
// choice read from the input bytes, so that coverage-guided mutation edits generator decisions.
// ------------------------------------------------------------------------------------------

struct Cur<'a> {
    d: &'a [u8],
    i: usize,
}

impl Cur<'_> {
    fn b(&mut self) -> u8 {
        let v = self.d.get(self.i).copied().unwrap_or(0);
        self.i += 1;
        v
    }
    fn u16(&mut self) -> u16 {
        u16::from_le_bytes([self.b(), self.b()])
    }
    fn u32(&mut self) -> u32 {
        u32::from_le_bytes([self.b(), self.b(), self.b(), self.b()])
    }
    fn left(&self) -> bool {
        self.i < self.d.len()
    }
}

fn dec_lt(c: &mut Cur, elidable: bool) -> Lt {
    match c.b() % 7 {
        0 | 1 | 2 if elidable => Lt::Elided,
        0 | 3 => Lt::Inferred,
        1 | 4 => Lt::Static,
        x => Lt::Named(["a", "b", "life"][x as usize % 3].to_string()),
    }
}

fn dec_leaf(c: &mut Cur, generics: bool) -> Ty {
    let k = c.b();
    match k % 9 {
        0 | 1 | 2 => Ty::Scalar(c.b() % 17),
        3 | 4 | 5 if generics => Ty::Gen(["T", "U", "V"][c.b() as usize % 3].to_string()),
        3 | 4 | 5 | 6 | 7 => {
            let p = c.b() % 6;
            Ty::Path { alias: k & 0x80 != 0 && p % 2 == 0, path: p, args: vec![] }
        }
        _ => Ty::Tuple(vec![]),
    }
}

fn dec_ty(c: &mut Cur, generics: bool, depth: usize) -> Ty {
    if depth == 0 || !c.left() {
        return dec_leaf(c, generics);
    }
    let k = c.b();
    match k % 20 {
        0..=3 => {
            let p = c.b() % 6;
            let n = 1 + c.b() as usize % 3;
            let args = (0..n)
                .map(|_| match c.b() % 8 {
                    0..=4 => Arg::Ty(dec_ty(c, generics, depth - 1)),
                    5 | 6 => Arg::Lt(dec_lt(c, false)),
                    _ => Arg::Const(["0", "8", "255", "true", "'x'", "8usize", "0u8", "4"][c.b() as usize % 8].to_string()),
                })
                .collect();
            Ty::Path { alias: k & 0x80 != 0 && p % 2 == 0, path: p, args }
        }
        4..=7 => Ty::Ref { m: k & 0x80 != 0, lt: dec_lt(c, true), inner: Box::new(dec_ty(c, generics, depth - 1)) },
        8..=10 => {
            let n = 1 + c.b() as usize % 3;
            Ty::Tuple((0..n).map(|_| dec_ty(c, generics, depth - 1)).collect())
        }
        11 => Ty::Slice(Box::new(dec_ty(c, generics, depth - 1))),
        12 | 13 => Ty::Array(Box::new(dec_ty(c, generics, depth - 1)), c.b() as usize % 5),
        14 | 15 => Ty::Ptr { m: k & 0x80 != 0, inner: Box::new(dec_ty(c, generics, depth - 1)) },
        16 | 17 => {
            let n = c.b() as usize % 3;
            let inputs = (0..n)
                .map(|_| {
                    let name = match c.b() % 3 {
                        0 => None,
                        x => Some(["x", "arg"][x as usize % 2].to_string()),
                    };
                    (name, dec_ty(c, generics, depth - 1))
                })
                .collect();
            let output = if c.b() % 2 == 0 { Some(Box::new(dec_ty(c, generics, depth - 1))) } else { None };
            Ty::Fn { inputs, output, abi: c.b() % 6, unsafe_: k & 0x80 != 0 }
        }
        _ => dec_leaf(c, generics),
    }
}

/// Decode a case from raw bytes (every byte string decodes to some case).
pub fn case_from_bytes(data: &[u8]) -> Case {
    let mut c = Cur { d: data, i: 0 };
    let class = c.b() % 12;
    let mutn = |c: &mut Cur| if c.b() % 2 == 0 { Some((c.u16(), c.b())) } else { None };
    match class {
        0..=3 => {
            let tpl = dec_ty(&mut c, true, 4);
            let b: BTreeMap<String, Ty> = ["T", "U", "V"].iter().map(|k| (k.to_string(), dec_ty(&mut c, false, 3))).collect();
            let mut conc = subst(&tpl, &b);
            if c.b() % 2 == 0 {
                let mut s = c.u32();
                conc = relifetime(&conc, &mut s);
            }
            if let Some((raw, kind)) = mutn(&mut c) {
                conc = mutate_at(&conc, raw, kind);
            }
            Case::Pair(tpl, conc)
        }
        4..=6 => {
            let t = dec_ty(&mut c, true, 4);
            let mut s = c.u32();
            let mut u = relifetime(&rename_generics(&t, c.b()), &mut s);
            if let Some((raw, kind)) = mutn(&mut c) {
                u = mutate_at(&u, raw, kind);
            }
            Case::Pair(t, u)
        }
        7 => Case::Pair(dec_ty(&mut c, true, 4), dec_ty(&mut c, true, 4)),
        10 | 11 => {
            // occurrence-wise instantiation (see `case_strategy`, class `split`)
            let extra = dec_ty(&mut c, true, 3);
            let g = || Ty::Gen("T".into());
            let tpl = match c.b() % 4 {
                0 => Ty::Path { alias: false, path: c.b() % 6, args: vec![Arg::Ty(g()), Arg::Ty(g())] },
                1 => Ty::Tuple(vec![g(), extra, g()]),
                2 => Ty::Fn { inputs: vec![(None, g()), (None, extra)], output: Some(Box::new(g())), abi: 0, unsafe_: false },
                _ => extra,
            };
            let b: BTreeMap<String, Ty> = ["T", "U", "V"].iter().map(|k| (k.to_string(), dec_ty(&mut c, true, 3))).collect();
            let mut ch = (c.u32() as u64) << 32 | c.u32() as u64;
            Case::Pair(tpl.clone(), subst_occ(&tpl, &b, &mut ch))
        }
        _ => {
            let t = dec_ty(&mut c, true, 4);
            let mut s = c.u32();
            let b = relifetime(&rename_generics(&t, c.b()), &mut s);
            let mut cc = relifetime(&rename_generics(&b, c.b()), &mut s);
            if let Some((raw, kind)) = mutn(&mut c) {
                cc = mutate_at(&cc, raw, kind);
            }
            Case::Triple(t, b, cc)
        }
    }
}

/// Documented contract of `canonicalize` (doc comment in type_.rs): copies that differ only by a
/// bijective renaming of generics and by non-static lifetime names have the same canonical form.
fn canon_contract(case: &(Ty, u8, u32)) -> CaseResult {
    let (t, perm, salt) = case;
    let mut s = *salt;
    let u = relifetime(&rename_generics(t, *perm), &mut s);
    let (ti, ui) = (to_ir(t), to_ir(&u));
    if ti.canonicalize() != ui.canonicalize() {
        return Err(Fail::new(
            "L5-canonical-of-renamed-copy",
            format!(
                "`{ti:?}` and its renamed copy `{ui:?}` canonicalise to `{:?}` and `{:?}`",
                ti.canonicalize().inner(),
                ui.canonicalize().inner()
            ),
        ));
    }
    let mut info = CaseInfo::default();
    if depth(t) >= 2 && has_ref_or_generic(t) {
        info.set_nontrivial(true);
    }
    Ok(info)
}

pub fn main(mut chk: Check) -> ! {
    chk.ev.rule = "cases = pairs/triples of types (depth<=4, width<=3) built as (template, instantiation [+relifetime] [+one local mutation]), (type, alpha-renamed+relifetimed copy [+mutation]), independent pairs, rename chains; all laws L1,L3-L7 are evaluated on every case. non-trivial = a type of depth>=2 containing a reference or generic, or a template match with non-empty bindings, or an equivalence between two syntactically different types; distinct = distinct serialised case".into();
    chk.ev.assume("lifetimes (all kinds, 'static included) and fn-pointer parameter names are treated as irrelevant when comparing substitution results; rustdoc_id is a function of the path");
    chk.ev.assume("completeness of is_a_template_for is only classified (labels template:*), the property states soundness");
    if let Some(p) = chk.settings.replay.clone() {
        let ok = chk.replay_one::<Case, _>("laws", &p, oracle)
            || chk.replay_one::<(Ty, u8, u32), _>("canon-contract", &p, canon_contract);
        if !ok {
            eprintln!("replay file {} does not belong to C17", p.display());
            std::process::exit(2);
        }
        chk.finish();
    }
    for p in chk.committed_replays() {
        let _ = chk.replay_one::<Case, _>("laws", &p, oracle)
            || chk.replay_one::<(Ty, u8, u32), _>("canon-contract", &p, canon_contract);
    }
    let n = chk.tier().pick(150_000, 1_000_000);
    chk.run("laws", n, case_strategy(), oracle);
    let n2 = chk.tier().pick(25_000, 200_000);
    chk.run("canon-contract", n2, (ty_strategy(true), any::<u8>(), any::<u32>()), canon_contract);
    chk.finish()
}
