//! In-process property checks: generators (`case_strategy`) and oracles (`oracle`) per property.
//! Used by the `rtprops` binary (proptest campaigns) and by the libFuzzer targets under `../fuzz`.
pub mod c11;
pub mod c12;
pub mod c12_chaos;
pub mod c13;
pub mod c14;
pub mod c15;
pub mod c16;
pub mod c17;
pub mod c18;
pub mod c19;
pub mod sess;
pub mod stores;
pub mod util;
