//! C12 — session cookies are never emitted unprotected and never leak the id.
use proptest::prelude::*;
use serde::{Deserialize, Serialize};
use vcommon::{CaseInfo, CaseResult, Check, Fail};

use crate::sess::*;
use pavex::cookie::config::{CryptoAlgorithm, CryptoRule, FallbackConfig};
use pavex::cookie::{Processor, ProcessorConfig, SameSite};

const NAMES: [&str; 4] = ["id", "session", "sid-2", "__Host-s.x"];
const DOMAINS: [&str; 2] = ["example.com", "sub.pavex.dev"];
const PATHS: [&str; 3] = ["/", "/app", "/a/b"];

#[derive(Clone, Debug, Serialize, Deserialize)]
pub struct Case {
    /// for each of the 4 cookie names: 0 = no rule, k = rule k (1..=3)
    pub assign: [u8; 4],
    /// per rule: true = Encryption, false = Signing
    pub rule_enc: [bool; 3],
    /// per rule: has a fallback (different key, opposite algorithm)
    pub rule_fallback: [bool; 3],
    pub percent_encode: bool,
    pub name: u8,
    pub domain: Option<u8>,
    pub path: Option<u8>,
    /// 0 = unset, 1 = Strict, 2 = Lax, 3 = None
    pub same_site: u8,
    pub secure: bool,
    pub http_only: bool,
    /// 0 = 60 s, 1 = 1 day, 2 = 400 days
    pub ttl: u8,
    pub cfg: Cfg,
    pub reqs: Vec<Req>,
    pub debug_points: Vec<u8>,
    /// the session cookie's name contains a character that the processor percent-encodes on the wire
    /// (`<name> x`): only used by the recorded reproduction of a finding, never generated
    #[serde(default)]
    pub odd_name: bool,
}

/// The four cookie names of a case (the session cookie's own name may be the odd one).
pub fn names(c: &Case) -> Vec<String> {
    (0..4).map(|n| if c.odd_name && n == c.name as usize % 4 { format!("{} x", NAMES[n]) } else { NAMES[n].to_string() }).collect()
}

thread_local! {
    static RT: tokio::runtime::Runtime = tokio::runtime::Builder::new_current_thread().enable_all().build().unwrap();
}

/// The processor of the *previous deployment*: every rule that has a fallback used to be that fallback
/// (its key, its algorithm). Cookies it minted are still accepted by `processor(c)` through the fallback.
pub fn old_processor(c: &Case) -> Processor {
    let mut pc = ProcessorConfig::default();
    pc.percent_encode = c.percent_encode;
    for r in 0..3usize {
        let names: Vec<String> = (0..4).filter(|n| c.assign[*n] as usize == r + 1).map(|n| names(c)[n].clone()).collect();
        if names.is_empty() {
            continue;
        }
        let alg = |enc: bool| if enc { CryptoAlgorithm::Encryption } else { CryptoAlgorithm::Signing };
        let (key, enc) = if c.rule_fallback[r] { (fixed_key(50 + r as u8), !c.rule_enc[r]) } else { (fixed_key(10 + r as u8), c.rule_enc[r]) };
        pc.crypto_rules.push(CryptoRule { cookie_names: names, algorithm: alg(enc), key, fallbacks: vec![] });
    }
    pc.into()
}

/// (signs, encrypts) of the session cookie under `old_processor`.
pub fn old_protection(c: &Case) -> (bool, bool) {
    let r = c.assign[c.name as usize % 4];
    if r == 0 {
        (false, false)
    } else {
        let i = (r - 1) as usize;
        let enc = if c.rule_fallback[i] { !c.rule_enc[i] } else { c.rule_enc[i] };
        (!enc, enc)
    }
}

pub fn processor(c: &Case) -> Processor {
    let mut pc = ProcessorConfig::default();
    pc.percent_encode = c.percent_encode;
    for r in 0..3usize {
        let names: Vec<String> = (0..4)
            .filter(|n| c.assign[*n] as usize == r + 1)
            .map(|n| names(c)[n].clone())
            .collect();
        if names.is_empty() {
            continue;
        }
        let alg = |enc: bool| if enc { CryptoAlgorithm::Encryption } else { CryptoAlgorithm::Signing };
        pc.crypto_rules.push(CryptoRule {
            cookie_names: names,
            algorithm: alg(c.rule_enc[r]),
            key: fixed_key(10 + r as u8),
            fallbacks: if c.rule_fallback[r] {
                vec![FallbackConfig { key: fixed_key(50 + r as u8), algorithm: alg(!c.rule_enc[r]) }]
            } else {
                vec![]
            },
        });
    }
    pc.into()
}

fn ttl_secs(c: &Case) -> u64 {
    match c.ttl % 4 {
        0 => 60,
        1 => 86_400,
        2 => 400 * 86_400,
        // "never": beyond what a cookie's Max-Age can express (it has to be clamped, not wrapped)
        _ => u64::MAX,
    }
}

fn huge_ttl(c: &Case) -> bool {
    c.ttl % 4 == 3
}

/// With a TTL beyond any clock the bundled stores cannot create a record (deadline arithmetic): such cases
/// stay on the client side (no server record is ever created: `SkipIfEmpty`, client-side operations only).
fn normalise(c: &Case) -> Case {
    let mut c = c.clone();
    if huge_ttl(&c) {
        c.cfg.never_skip = false;
        for r in c.reqs.iter_mut() {
            r.ops.retain(|op| matches!(op, Op::CGet(_) | Op::CInsert(..) | Op::CRemove(_) | Op::CClear | Op::CIsEmpty));
            r.probe_start = false;
        }
    }
    c
}

/// Independent evaluation of the crypto rules for the session cookie name.
pub fn protection(c: &Case) -> (bool, bool) {
    let r = c.assign[c.name as usize % 4];
    if r == 0 {
        (false, false)
    } else {
        let enc = c.rule_enc[(r - 1) as usize];
        (!enc, enc)
    }
}

struct WireAttrs {
    name: String,
    value: String,
    attrs: Vec<(String, Option<String>)>,
}

fn parse_set_cookie(sc: &str) -> WireAttrs {
    let mut parts = sc.split(';');
    let nv = parts.next().unwrap_or("");
    let (name, value) = nv.split_once('=').unwrap_or((nv, ""));
    let attrs = parts
        .map(|p| {
            let p = p.trim();
            match p.split_once('=') {
                Some((k, v)) => (k.trim().to_ascii_lowercase(), Some(v.trim().to_string())),
                None => (p.to_ascii_lowercase(), None),
            }
        })
        .collect();
    WireAttrs { name: name.trim().to_string(), value: value.to_string(), attrs }
}

impl WireAttrs {
    fn get(&self, k: &str) -> Option<&Option<String>> {
        self.attrs.iter().find(|(a, _)| a == k).map(|(_, v)| v)
    }
}

pub fn oracle(c: &Case) -> CaseResult {
    let c = &normalise(c);
    let r = crate::util::catch(|| RT.with(|rt| rt.block_on(run(c))));
    match r {
        Ok(r) => r,
        Err(p) => Err(Fail::new(format!("panic:{}", crate::util::panic_sig(&p)), format!("panicked: {p}"))),
    }
}

pub fn leaks(debug: &str, id: &str) -> Option<String> {
    let simple = id.replace('-', "");
    for form in [id.to_string(), id.to_uppercase(), simple.clone(), simple.to_uppercase()] {
        if debug.contains(&form) {
            return Some(form);
        }
    }
    None
}

/// Session configuration, cookie processor and cookie name of a case.
pub fn session_setup(c: &Case) -> (pavex_session::SessionConfig, Processor, &'static str) {
    let mut config = c.cfg.session_config();
    let name: &'static str = if c.odd_name { Box::leak(names(c)[c.name as usize % 4].clone().into_boxed_str()) } else { NAMES[c.name as usize % 4] };
    config.cookie.name = name.to_string();
    config.cookie.domain = c.domain.map(|d| DOMAINS[d as usize % 2].to_string());
    config.cookie.path = c.path.map(|p| PATHS[p as usize % 3].to_string());
    config.cookie.same_site = match c.same_site % 4 {
        0 => None,
        1 => Some(SameSite::Strict),
        2 => Some(SameSite::Lax),
        _ => Some(SameSite::None),
    };
    config.cookie.secure = c.secure;
    config.cookie.http_only = c.http_only;
    config.state.ttl = std::time::Duration::from_secs(ttl_secs(c));
    (config, processor(c), name)
}

async fn run(c: &Case) -> CaseResult {
    let store = crate::stores::make_store(false).await;
    let (config, processor, name) = session_setup(c);
    let (signs, encrypts) = protection(c);
    let mut info = CaseInfo::default();
    if signs != encrypts {
        info.lab(if signs { "rules:sign-only" } else { "rules:encrypt" });
    } else {
        info.lab("rules:none");
    }

    let mut w = World::default();
    for (ri, req) in c.reqs.iter().enumerate() {
        let presented: Option<IssuedCookie> = match &req.cookie {
            CookieChoice::Jar => w.jar.map(|i| w.issued[i].clone()),
            CookieChoice::Older(raw) => {
                if w.issued.is_empty() { None } else { Some(w.issued[vcommon::idx(*raw, w.issued.len())].clone()) }
            }
            CookieChoice::Drop => None,
        };
        let (mut session, had) =
            new_session(&store, &config, &processor, presented.as_ref().map(|c| c.header.as_str()));
        if had != presented.is_some() {
            return Err(Fail::new(
                "cookie-not-recognised",
                format!("request #{ri}: a cookie issued by the server (`{:?}`) is not accepted back", presented.map(|p| p.header)),
            ));
        }
        let mut m = ReqModel::new(&mut w, presented.as_ref(), c.cfg.reject);
        let known_id: Option<String> = presented.as_ref().and_then(|p| w.real.get(&p.sym).cloned());
        let mut debugs: Vec<String> = vec![format!("{session:?}")];

        for (oi, op) in req.ops.iter().enumerate() {
            if *op == Op::Sync {
                let _ = m.sync(&mut w);
                let _ = session.sync().await;
            } else if m.apply(&mut w, op).is_some() {
                if let Err(e) = real_op(&mut session, op).await {
                    return Err(Fail::new(format!("op-error:{}", op_kind(op)), format!("request #{ri} op #{oi}: {e}")));
                }
            }
            if c.debug_points.iter().any(|p| *p as usize % 8 == oi) {
                debugs.push(format!("{session:?}"));
            }
        }
        debugs.push(format!("{session:?}"));
        let client_nonempty = !m.inv && !m.client.is_empty();
        let insufficient = !(signs || encrypts) || (client_nonempty && !encrypts);
        let expect_sync = m.sync(&mut w);
        let fin = real_finalize(session, &processor, name).await?;
        let new_sym = m.id.cur();
        let mut id_now: Option<String> = known_id.clone();
        match fin {
            Finalized::Err(kind, chain) => {
                let crypto_err = kind == "EncryptionRequired" || kind == "CryptoRequired";
                if crypto_err {
                    if !insufficient {
                        return Err(Fail::new(
                            "spurious-crypto-error",
                            format!("request #{ri}: finalize_session failed with {kind} although the rules sign={signs} encrypt={encrypts} suffice (client state non-empty: {client_nonempty})"),
                        ));
                    }
                    info.lab(format!("finalize:{kind}"));
                    info.set_nontrivial(true);
                } else if matches!(expect_sync, SyncOutcome::RenameOfMissingUnloaded) {
                    info.lab("finalize:expected-error-rename-of-missing-record");
                } else {
                    return Err(Fail::new(format!("finalize-error:{kind}"), format!("request #{ri}: {chain}")));
                }
                // `real_finalize` already verified that no session cookie is left in ResponseCookies
            }
            Finalized::NoCookie => {
                info.lab("finalize:no-cookie");
            }
            Finalized::Cookie(em) => {
                // ---- the heart of the property
                if insufficient {
                    return Err(Fail::new(
                        "unprotected-cookie",
                        format!(
                            "request #{ri}: a session cookie was attached although the processor rules (sign={signs}, encrypt={encrypts}) do not protect it adequately (client state non-empty: {client_nonempty}): {}",
                            em.set_cookie
                        ),
                    ));
                }
                if signs != encrypts {
                    info.set_nontrivial(true);
                }
                // ---- attributes, plain level
                let a = &em.attrs;
                let want_domain = config.cookie.domain.clone();
                let want_path = config.cookie.path.clone();
                if a.name != name || a.domain != want_domain || a.path != want_path {
                    return Err(Fail::new(
                        "cookie-attrs:name-domain-path",
                        format!("request #{ri}: cookie has name/domain/path {:?}/{:?}/{:?}, configured {name:?}/{want_domain:?}/{want_path:?}", a.name, a.domain, a.path),
                    ));
                }
                let wire = parse_set_cookie(&em.set_cookie);
                if !em.is_removal {
                    let want_ss = config.cookie.same_site.map(|s| format!("{s:?}"));
                    if a.same_site != want_ss || a.secure != c.secure || a.http_only != c.http_only {
                        return Err(Fail::new(
                            "cookie-attrs:samesite-secure-httponly",
                            format!(
                                "request #{ri}: cookie has SameSite/Secure/HttpOnly {:?}/{}/{}, configured {want_ss:?}/{}/{}",
                                a.same_site, a.secure, a.http_only, c.secure, c.http_only
                            ),
                        ));
                    }
                    // (a TTL beyond the range of Max-Age is clamped to something very long, never wrapped to zero / negative)
                    let want_age = if !c.cfg.persistent { None } else if huge_ttl(c) { a.max_age_s.filter(|v| *v >= 400 * 86_400) .or(Some(i64::MAX)) } else { Some(ttl_secs(c) as i64) };
                    if a.max_age_s != want_age {
                        return Err(Fail::new(
                            "cookie-attrs:max-age",
                            format!("request #{ri}: cookie Max-Age is {:?}, expected {want_age:?}", a.max_age_s),
                        ));
                    }
                    // ---- attributes, wire level (independent reading of the Set-Cookie header)
                    let w_secure = wire.get("secure").is_some();
                    let w_http = wire.get("httponly").is_some();
                    let w_ss = wire.get("samesite").and_then(|v| v.clone());
                    let w_age = wire.get("max-age").and_then(|v| v.clone()).and_then(|v| v.parse::<i64>().ok());
                    let w_dom = wire.get("domain").and_then(|v| v.clone());
                    let w_path = wire.get("path").and_then(|v| v.clone());
                    // SameSite=None forces Secure on the wire in the cookie crate family; accept that.
                    let secure_ok = w_secure == c.secure || (c.same_site % 4 == 3 && w_secure);
                    if !secure_ok
                        || w_http != c.http_only
                        || w_ss != want_ss
                        || (w_age != want_age && !(huge_ttl(c) && c.cfg.persistent && w_age.is_some_and(|v| v >= 400 * 86_400)))
                        || w_dom != want_domain
                        || w_path != want_path
                    {
                        return Err(Fail::new(
                            "wire-attrs",
                            format!(
                                "request #{ri}: Set-Cookie `{}` does not carry the configured attributes (secure={}, http_only={}, same_site={want_ss:?}, max_age={want_age:?}, domain={want_domain:?}, path={want_path:?})",
                                em.set_cookie, c.secure, c.http_only
                            ),
                        ));
                    }
                    let (real_id, client) = parse_plain(&em.plain_value).map_err(|e| Fail::new("cookie-format", e))?;
                    id_now = Some(real_id.clone());
                    // ---- wire-level confidentiality / protection
                    if encrypts {
                        let mut secrets: Vec<String> = vec![real_id.clone()];
                        for v in client.values() {
                            if let Some(s) = v.as_str() {
                                if s.len() >= 3 {
                                    secrets.push(s.to_string());
                                }
                            }
                        }
                        for s in secrets {
                            if wire.value.contains(&s) {
                                return Err(Fail::new(
                                    if c.odd_name { "wire-plaintext:cookie-name-needs-percent-encoding" } else { "wire-plaintext" },
                                    format!("request #{ri}: the cookie is configured to be encrypted but `{s}` is readable in `{}`", em.set_cookie),
                                ));
                            }
                        }
                    } else if wire.value == em.plain_value
                        || wire.value == cookie_percent_encode(&em.plain_value)
                    {
                        return Err(Fail::new(
                            if c.odd_name { "wire-unsigned:cookie-name-needs-percent-encoding" } else { "wire-unsigned" },
                            format!("request #{ri}: the cookie is configured to be signed but the wire value carries no signature: `{}`", em.set_cookie),
                        ));
                    }
                    if w.real.get(&new_sym).is_none() && w.sym_of_real(&real_id).is_none() {
                        w.real.insert(new_sym, real_id);
                    }
                    w.issued.push(IssuedCookie {
                        sym: new_sym,
                        client: m.client.clone(),
                        header: cookie_header_from_set_cookie(&em.set_cookie),
                    });
                    w.jar = Some(w.issued.len() - 1);
                    info.lab("finalize:cookie");
                } else {
                    info.lab("finalize:removal-cookie");
                    w.jar = None;
                }
                let _ = wire.name;
            }
        }
        // keep the model store usable for the next request (creation policy tolerance as in C11)
        let syms: Vec<(usize, String)> = w.real.iter().map(|(s, r)| (*s, r.clone())).collect();
        for (sym, real) in syms {
            if let Ok(actual) = load_real(&store, &real).await {
                match actual {
                    Some(a) => {
                        w.store.insert(sym, a);
                    }
                    None => {
                        w.store.remove(&sym);
                    }
                }
            }
        }
        w.maybe_empty.clear();
        // ---- the id never shows up in Debug output
        if let Some(id) = &id_now {
            for d in &debugs {
                if let Some(form) = leaks(d, id) {
                    return Err(Fail::new(
                        "debug-leaks-id",
                        format!("request #{ri}: the Debug representation of the session contains the session id ({form}): {d}"),
                    ));
                }
            }
            info.lab("debug:checked-against-known-id");
        }
    }
    Ok(info)
}

fn cookie_percent_encode(s: &str) -> String {
    // only used to recognise "the plain value, percent-encoded" on the wire
    let mut out = String::new();
    for b in s.bytes() {
        if b.is_ascii_alphanumeric() || b"-_.~!$&'()*+:@/?[]{}".contains(&b) {
            out.push(b as char);
        } else {
            out.push_str(&format!("%{b:02X}"));
        }
    }
    out
}

pub fn case_strategy() -> impl Strategy<Value = Case> {
    (
        (
            prop::array::uniform4(0u8..4),
            prop::array::uniform3(any::<bool>()),
            prop::array::uniform3(prop::bool::weighted(0.2)),
            prop::bool::weighted(0.8),
            0u8..4,
            prop::option::of(0u8..2),
            prop::option::weighted(0.8, 0u8..3),
            0u8..4,
        ),
        (
            any::<bool>(),
            any::<bool>(),
            prop_oneof![12 => 0u8..3, 1 => Just(3u8)],
            crate::c11::cfg_strategy(),
            prop::collection::vec(crate::c11::req_strategy(true), 1..=3),
            prop::collection::vec(0u8..8, 0..3),
        ),
    )
        .prop_map(
            |((assign, rule_enc, rule_fallback, percent_encode, name, domain, path, same_site),
              (secure, http_only, ttl, cfg, reqs, debug_points))| Case {
                assign,
                rule_enc,
                rule_fallback,
                percent_encode,
                name,
                domain,
                path,
                same_site,
                secure,
                http_only,
                ttl,
                cfg,
                reqs,
                debug_points,
                odd_name: false,
            },
        )
}

pub fn main(mut chk: Check) -> ! {
    chk.ev.rule = "case = cookie-processor configuration (each of 4 cookie names assigned to none or one of 3 crypto rules, each rule Signing or Encryption, optional fallback key, percent-encoding on/off) x session cookie configuration (name, domain, path, SameSite, Secure, HttpOnly, kind, ttl) x session state configuration x a history of 1-3 requests of 0-8 session operations, each ending in the real finalize_session + inject_response_cookies. Oracle: independent evaluation of the rules => a cookie may only be attached if signed or encrypted, and encrypted if the client-side state is non-empty; otherwise the request must fail with the crypto error and leave no session cookie behind; attributes are compared on the ResponseCookie and by an independent parse of the Set-Cookie header; wire value must not contain the id/client strings when encrypted; Debug output of the session (start, end and random points) must not contain the id in 4 spellings. non-trivial = a cookie emitted while exactly one of sign/encrypt applies, or a run ending in one of the two crypto errors; distinct = distinct serialised case".into();
    chk.ev.assume("each cookie name is mentioned by at most one crypto rule (which rule wins otherwise is not documented)");
    chk.ev.assume("a Secure attribute added on the wire for SameSite=None cookies is accepted");
    if let Some(p) = chk.settings.replay.clone() {
        if !chk.replay_one::<Case, _>("configs-x-histories", &p, oracle) {
            eprintln!("replay file {} does not belong to C12", p.display());
            std::process::exit(2);
        }
        chk.finish();
    }
    for p in chk.committed_replays() {
        chk.replay_one::<Case, _>("configs-x-histories", &p, oracle);
    }
    let n = chk.tier().pick(200_000, 1_000_000);
    chk.run("configs-x-histories", n, case_strategy(), oracle);
    // second campaign: the same property with a store that fails / loses records on schedule and with
    // concurrent reads inside a request (see c12_chaos.rs); the oracle reads the client-side state out of
    // the emitted cookie, no session model involved
    chk.ev.rule.push_str(" || campaign faulty-store: the same configurations x 1-4 requests of 0-7 operations (incl. two server-side reads polled concurrently) against a store wrapper that fails chosen calls and wipes all records before chosen calls; oracle: cookie attached => signed or encrypted, and encrypted when the cookie's own client-side state is non-empty; finalize error => no session cookie; Debug never shows an id");
    let n2 = chk.tier().pick(60_000, 400_000);
    chk.run("faulty-store", n2, crate::c12_chaos::case_strategy(), crate::c12_chaos::oracle);
    chk.finish()
}
