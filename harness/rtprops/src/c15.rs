//! C15 — typed request data equals what the client encoded, or a clean error.
use std::borrow::Cow;

use pavex::request::RequestHead;
use pavex::request::body::errors::{ExtractJsonBodyError, ExtractUrlEncodedBodyError};
use pavex::request::body::{BufferedBody, JsonBody, UrlEncodedBody};
use pavex::request::path::errors::ExtractPathParamsError;
use pavex::request::path::{PathParams, RawPathParams};
use pavex::request::query::QueryParams;
use proptest::prelude::*;
use serde::{Deserialize, Serialize};
use vcommon::{CaseInfo, CaseResult, Check, Fail};

// ------------------------------------------------------------------------------------------
// Values
// ------------------------------------------------------------------------------------------

#[derive(Clone, Copy, Debug, PartialEq, Eq)]
enum Kind {
    U8, U16, U32, U64, U128, I8, I16, I32, I64, I128, F32, F64, Bool, Char, Str, OptStr, OptU32, OptU8, VecStr, VecU16,
}

/// A field value as the list of its textual elements (scalars: 1; None: 0; vectors: n).
type Txt = Vec<String>;

trait Tx {
    fn tx(&self) -> Txt;
}
macro_rules! tx_display { ($($t:ty),*) => { $(impl Tx for $t { fn tx(&self) -> Txt { vec![self.to_string()] } })* } }
tx_display!(u8, u16, u32, u64, u128, i8, i16, i32, i64, i128, f32, f64, bool, char, String);
impl Tx for &str {
    fn tx(&self) -> Txt {
        vec![self.to_string()]
    }
}
impl Tx for Cow<'_, str> {
    fn tx(&self) -> Txt {
        vec![self.to_string()]
    }
}
impl<T: Tx> Tx for Option<T> {
    fn tx(&self) -> Txt {
        self.as_ref().map(|t| t.tx()).unwrap_or_default()
    }
}
impl<T: Tx> Tx for Vec<T> {
    fn tx(&self) -> Txt {
        self.iter().flat_map(|t| t.tx()).collect()
    }
}

macro_rules! shape {
    ($name:ident { $($f:ident : $t:ty),* }) => {
        #[derive(Debug, Deserialize)]
        #[allow(dead_code)]
        struct $name { $( $f: $t ),* }
        impl $name {
            fn texts(&self) -> Vec<(&'static str, Txt)> { vec![$((stringify!($f), self.$f.tx())),*] }
        }
    };
}

// path shapes
shape!(PA { a: String });
shape!(PB { id: u64, name: String });
#[derive(Debug, Deserialize)]
struct PC<'a> {
    #[serde(borrow)]
    k: Cow<'a, str>,
    n: i128,
    ok: bool,
}
impl PC<'_> {
    fn texts(&self) -> Vec<(&'static str, Txt)> {
        vec![("k", self.k.tx()), ("n", self.n.tx()), ("ok", self.ok.tx())]
    }
}
shape!(PD { a: u8, b: i16, c: f64, d: char });
#[derive(Debug, Deserialize)]
struct PE<'a> {
    s: &'a str,
    n: u32,
}
impl PE<'_> {
    fn texts(&self) -> Vec<(&'static str, Txt)> {
        vec![("s", self.s.tx()), ("n", self.n.tx())]
    }
}
shape!(PF { o: Option<String>, big: u128 });
shape!(PG { x: f32, y: String, z: String, w: u16, v: i8 });
shape!(PH { a: i32, b: i64, c: u16, d: Option<u8> });

const PATH_SHAPES: &[&[(&str, Kind)]] = &[
    &[("a", Kind::Str)],
    &[("id", Kind::U64), ("name", Kind::Str)],
    &[("k", Kind::Str), ("n", Kind::I128), ("ok", Kind::Bool)],
    &[("a", Kind::U8), ("b", Kind::I16), ("c", Kind::F64), ("d", Kind::Char)],
    &[("s", Kind::Str), ("n", Kind::U32)],
    &[("o", Kind::OptStr), ("big", Kind::U128)],
    &[("x", Kind::F32), ("y", Kind::Str), ("z", Kind::Str), ("w", Kind::U16), ("v", Kind::I8)],
    &[("a", Kind::I32), ("b", Kind::I64), ("c", Kind::U16), ("d", Kind::OptU8)],
];
/// index of the shape whose string field borrows (`&str`)
const PATH_BORROWING: usize = 4;

// query / form / json shapes
shape!(QA { a: String });
shape!(QB { id: u64, name: String, ok: bool });
shape!(QC { tags: Vec<String>, n: i32 });
shape!(QD { o: Option<String>, p: Option<u32>, c: char });
#[derive(Debug, Deserialize)]
struct QE<'a> {
    #[serde(borrow)]
    s: Cow<'a, str>,
    f: f64,
}
impl QE<'_> {
    fn texts(&self) -> Vec<(&'static str, Txt)> {
        vec![("s", self.s.tx()), ("f", self.f.tx())]
    }
}
shape!(QF { a: u8, b: i8, c: u16, d: i16, e: f32 });
shape!(QG { nums: Vec<u16>, s: String, t: String });
#[derive(Debug, Deserialize)]
struct QH<'a> {
    r: &'a str,
    n: i64,
}
impl QH<'_> {
    fn texts(&self) -> Vec<(&'static str, Txt)> {
        vec![("r", self.r.tx()), ("n", self.n.tx())]
    }
}

// every field optional: an empty query / form body / `{}` is a complete value
shape!(QI { o: Option<String>, p: Option<u32> });

const Q_SHAPES: &[&[(&str, Kind)]] = &[
    &[("a", Kind::Str)],
    &[("id", Kind::U64), ("name", Kind::Str), ("ok", Kind::Bool)],
    &[("tags", Kind::VecStr), ("n", Kind::I32)],
    &[("o", Kind::OptStr), ("p", Kind::OptU32), ("c", Kind::Char)],
    &[("s", Kind::Str), ("f", Kind::F64)],
    &[("a", Kind::U8), ("b", Kind::I8), ("c", Kind::U16), ("d", Kind::I16), ("e", Kind::F32)],
    &[("nums", Kind::VecU16), ("s", Kind::Str), ("t", Kind::Str)],
    &[("r", Kind::Str), ("n", Kind::I64)],
    &[("o", Kind::OptStr), ("p", Kind::OptU32)],
];
const Q_BORROWING: usize = 7;

#[derive(Clone, Copy, Debug, Serialize, Deserialize, PartialEq)]
pub enum Channel {
    Path,
    Query,
    Form,
    Json,
}

#[derive(Clone, Debug, Serialize, Deserialize, PartialEq)]
pub enum Malform {
    None,
    /// replace the value of field #i by a wrong-typed / undecodable text
    BadValue(u8, u8),
    /// drop field #i
    Missing(u8),
    /// (type, subtype, suffix, params) indices for the Content-Type header; body channels only
    ContentType(u8, u8, u8, u8),
    NoContentType,
    /// truncate the body (JSON) by this many bytes from the end
    Truncate(u8),
    /// JSON only: a complete document followed by more data (index into `TRAILERS`); trailing white space alone
    /// keeps the document valid, anything else makes the body something that is not a JSON document
    Trailing(u8),
}

#[derive(Clone, Debug, Serialize, Deserialize)]
pub struct Case {
    pub channel: Channel,
    pub shape: u8,
    /// per field: its textual elements
    pub values: Vec<Vec<String>>,
    /// pseudo-random choices of the encoders (over-encoding, '+' vs %20, hex case, key order)
    pub salt: u64,
    pub malform: Malform,
}

fn next(salt: &mut u64) -> u64 {
    *salt = salt.wrapping_mul(6364136223846793005).wrapping_add(1442695040888963407);
    *salt >> 33
}

fn is_unreserved(b: u8) -> bool {
    b.is_ascii_alphanumeric() || b"-._~".contains(&b)
}

fn pct(b: u8, salt: &mut u64) -> String {
    if next(salt) % 2 == 0 { format!("%{b:02X}") } else { format!("%{b:02x}") }
}

/// Percent-encode for a path segment: everything that is not unreserved, plus a random extra set.
fn enc_path(s: &str, salt: &mut u64) -> String {
    let mut out = String::new();
    let bytes = s.as_bytes();
    for (i, b) in bytes.iter().copied().enumerate() {
        if is_unreserved(b) && next(salt) % 7 != 0 {
            out.push(b as char);
        } else if b == b'%' && !bytes.get(i + 1).is_some_and(|n| n.is_ascii_hexdigit()) && next(salt) % 3 == 0 {
            // a stray `%` (not followed by a hex digit, whatever the next byte is encoded as) may be
            // sent as it is: percent-decoding leaves it alone. Clients do send `/deals/100%/..`.
            out.push('%');
        } else {
            out.push_str(&pct(b, salt));
        }
    }
    out
}

/// application/x-www-form-urlencoded encoder (independent of the `form_urlencoded` crate).
fn enc_form(s: &str, salt: &mut u64) -> String {
    let mut out = String::new();
    for b in s.bytes() {
        if b == b' ' {
            out.push_str(if next(salt) % 2 == 0 { "+" } else { "%20" });
        } else if (b.is_ascii_alphanumeric() || b"-._*".contains(&b)) && next(salt) % 9 != 0 {
            out.push(b as char);
        } else {
            out.push_str(&pct(b, salt));
        }
    }
    out
}

fn json_str(s: &str, salt: &mut u64) -> String {
    let mut out = String::from("\"");
    for c in s.chars() {
        match c {
            '"' => out.push_str("\\\""),
            '\\' => out.push_str("\\\\"),
            '\n' => out.push_str("\\n"),
            '\r' => out.push_str("\\r"),
            '\t' => out.push_str("\\t"),
            c if (c as u32) < 0x20 => out.push_str(&format!("\\u{:04x}", c as u32)),
            c if next(salt) % 11 == 0 => {
                let mut buf = [0u16; 2];
                for u in c.encode_utf16(&mut buf) {
                    out.push_str(&format!("\\u{:04x}", u));
                }
            }
            c => out.push(c),
        }
    }
    out.push('"');
    out
}

fn needs_escape_path(s: &str) -> bool {
    s.bytes().any(|b| !is_unreserved(b))
}

fn looks_encoded(s: &str) -> bool {
    let b = s.as_bytes();
    (0..b.len().saturating_sub(2)).any(|i| b[i] == b'%' && b[i + 1].is_ascii_hexdigit() && b[i + 2].is_ascii_hexdigit())
        || s.contains('+')
}

fn is_extreme(k: Kind, t: &str) -> bool {
    match k {
        Kind::U8 => t == "255" || t == "0",
        Kind::U16 => t == "65535",
        Kind::U32 => t == u32::MAX.to_string(),
        Kind::U64 => t == u64::MAX.to_string(),
        Kind::U128 => t == u128::MAX.to_string(),
        Kind::I8 => t == "-128" || t == "127",
        Kind::I16 => t == i16::MIN.to_string(),
        Kind::I32 => t == i32::MIN.to_string(),
        Kind::I64 => t == i64::MIN.to_string() || t == i64::MAX.to_string(),
        Kind::I128 => t == i128::MIN.to_string() || t == i128::MAX.to_string(),
        _ => false,
    }
}

// ---- exact reference for "numbers keep their value" on decimal texts that are not the shortest spelling of a float.
// The oracle does not call `str::parse::<f32>` (that is what the extractors use): it compares the decimal text, digit by
// digit, with the exact decimal expansions of the mid-points between neighbouring floats (every f32 mid-point is an f64,
// and `{:.N}` prints an f64 exactly).

/// Compare two non-negative plain decimals ("123.4500") exactly.
fn dec_cmp(a: &str, b: &str) -> std::cmp::Ordering {
    let split = |s: &str| -> (String, String) {
        let (i, f) = s.split_once('.').unwrap_or((s, ""));
        (i.trim_start_matches('0').to_string(), f.trim_end_matches('0').to_string())
    };
    let ((ai, af), (bi, bf)) = (split(a), split(b));
    ai.len().cmp(&bi.len()).then_with(|| ai.cmp(&bi)).then_with(|| {
        let n = af.len().max(bf.len());
        format!("{af:0<n$}").cmp(&format!("{bf:0<n$}"))
    })
}

/// The f32 nearest to a plain decimal text (ties to even), for magnitudes whose mid-points print exactly with 200 digits.
fn nearest_f32(text: &str) -> Option<f32> {
    let (neg, mag) = match text.strip_prefix('-') {
        Some(m) => (true, m),
        None => (false, text),
    };
    if mag.is_empty() || !mag.bytes().all(|b| b.is_ascii_digit() || b == b'.') || mag.matches('.').count() > 1 {
        return None;
    }
    let approx = mag.parse::<f64>().ok()?;
    if !(1e-9..1e15).contains(&approx) {
        return None;
    }
    let mut c = approx as f32; // within one step of the answer
    for _ in 0..3 {
        let (lo, hi) = (f32::from_bits(c.to_bits() - 1), f32::from_bits(c.to_bits() + 1));
        let mid = |x: f32, y: f32| format!("{:.200}", (x as f64 + y as f64) / 2.0);
        let even = |x: f32, y: f32| if x.to_bits() % 2 == 0 { x } else { y };
        match dec_cmp(mag, &mid(c, hi)) {
            std::cmp::Ordering::Greater => { c = hi; continue; }
            std::cmp::Ordering::Equal => { c = even(c, hi); break; }
            _ => {}
        }
        match dec_cmp(mag, &mid(lo, c)) {
            std::cmp::Ordering::Less => { c = lo; continue; }
            std::cmp::Ordering::Equal => { c = even(lo, c); break; }
            _ => break,
        }
    }
    Some(if neg { -c } else { c })
}

/// A decimal text of 20-60 digits that sits exactly on, just above or just below the mid-point between two neighbouring
/// f32 values (parsing it through an f64 first rounds twice).
fn f32_near_midpoint(bits: u32, which: u8) -> String {
    let exp = 107 + (bits >> 23) % 60; // 2^-20 .. 2^39
    let a = f32::from_bits((exp << 23) | (bits & 0x7f_ffff));
    let b = f32::from_bits(a.to_bits() + 1);
    let exact = format!("{:.200}", (a as f64 + b as f64) / 2.0);
    let exact = exact.trim_end_matches('0').trim_end_matches('.').to_string();
    let exact = if exact.contains('.') { exact } else { format!("{exact}.0") };
    let text = match which % 3 {
        0 => exact,
        1 => format!("{exact}0000000001"),
        _ => {
            // just below: decrement the last digit (non-zero by construction), then nines
            let mut d = exact.into_bytes();
            let last = d.len() - 1;
            if d[last] == b'0' { d.push(b'0'); } else { d[last] -= 1; }
            format!("{}9999999999", String::from_utf8(d).unwrap())
        }
    };
    if bits & 0x8000_0000 != 0 { format!("-{text}") } else { text }
}

const BAD: &[&str] = &[
    "abc", "", "-", "1.5x", "%FF", "%C3%28", "99999999999999999999999999999999999999999999", "tru", "١٢",
    // undecodable bytes *after* valid escapes and raw multi-byte characters (offsets into the decoded bytes differ
    // from offsets into the raw text)
    "%20€%FF", "%41é€%FF", "a%2Fb😀%80", "%E6%97%A5本%C3", "café%FF", "%2F%2F%2F日本語%80%80",
];

/// (text appended to a complete JSON document, still a valid JSON document?)
const TRAILERS: &[(&str, bool)] = &[
    (" ", true), ("\n\t \r\n", true),
    (" trailing garbage", false), ("x", false), ("}", false), ("{}", false), (",", false), (" 1", false), ("\n{\"a\":1}", false), ("]", false),
    ("\u{0}", false), (" null", false), ("\"", false),
];

const CT_TYPES: &[&str] = &["application", "text", "model", "image", "multipart"];
const CT_SUB: &[&str] = &["json", "x-www-form-urlencoded", "ld", "vnd.api", "gltf", "plain", "xml"];
const CT_SUFFIX: &[&str] = &["", "+json", "+xml"];
// (parameters never decide the media type, not even when their values spell an acceptable one)
const CT_PARAMS: &[&str] = &[
    "", "; charset=utf-8", ";charset=UTF-8; boundary=x",
    "; profile=hal+json", "; charset=utf-8; v=1+json", "; x=\"application/json\"", "; t=json", "; x=\"application/x-www-form-urlencoded\"",
    ";a=x-www-form-urlencoded",
];

fn content_type(m: &Malform, channel: Channel) -> (Option<String>, bool /* acceptable per docs */) {
    let default = match channel {
        Channel::Json => "application/json",
        _ => "application/x-www-form-urlencoded",
    };
    match m {
        Malform::NoContentType => (None, false),
        Malform::ContentType(t, s, x, p) => {
            let (t, s, x, p) = (
                CT_TYPES[*t as usize % CT_TYPES.len()],
                CT_SUB[*s as usize % CT_SUB.len()],
                CT_SUFFIX[*x as usize % CT_SUFFIX.len()],
                CT_PARAMS[*p as usize % CT_PARAMS.len()],
            );
            // `json+xml` style combinations are ambiguous: keep the plain subtype for those
            let x = if s == "json" || s == "x-www-form-urlencoded" { "" } else { x };
            let ok = match channel {
                Channel::Json => t == "application" && (s == "json" || x == "+json"),
                _ => t == "application" && s == "x-www-form-urlencoded",
            };
            (Some(format!("{t}/{s}{x}{p}")), ok)
        }
        _ => (Some(default.to_string()), true),
    }
}

fn head(target: &str, ct: Option<&str>) -> RequestHead {
    let mut headers = pavex::http::HeaderMap::new();
    if let Some(ct) = ct {
        headers.insert(pavex::http::header::CONTENT_TYPE, pavex::http::HeaderValue::from_str(ct).unwrap());
    }
    RequestHead {
        method: pavex::http::Method::POST,
        target: target.parse().unwrap_or_else(|_| "/".parse().unwrap()),
        version: pavex::http::Version::HTTP_11,
        headers,
    }
}

type Extracted = Result<Vec<(&'static str, Txt)>, String>;

fn extract_path(shape: usize, template: &str, path: &str) -> Result<Extracted, Fail> {
    let mut router = matchit::Router::new();
    router
        .insert(template, ())
        .map_err(|e| Fail::new("harness:matchit-insert", format!("{template}: {e}")))?;
    let m = match router.at(path) {
        Ok(m) => m,
        Err(_) => return Ok(Err("no-route".into())),
    };
    let raw: RawPathParams<'_, '_> = m.params.into();
    fn cls(e: ExtractPathParamsError) -> String {
        match e {
            ExtractPathParamsError::InvalidUtf8InPathParameter(_) => "InvalidUtf8InPathParameter".into(),
            ExtractPathParamsError::PathDeserializationError(_) => "PathDeserializationError".into(),
            e => format!("{e:?}"),
        }
    }
    Ok(match shape {
        0 => PathParams::<PA>::extract(raw).map(|p| p.0.texts()).map_err(cls),
        1 => PathParams::<PB>::extract(raw).map(|p| p.0.texts()).map_err(cls),
        2 => PathParams::<PC>::extract(raw).map(|p| p.0.texts()).map_err(cls),
        3 => PathParams::<PD>::extract(raw).map(|p| p.0.texts()).map_err(cls),
        4 => PathParams::<PE>::extract(raw).map(|p| p.0.texts()).map_err(cls),
        5 => PathParams::<PF>::extract(raw).map(|p| p.0.texts()).map_err(cls),
        6 => PathParams::<PG>::extract(raw).map(|p| p.0.texts()).map_err(cls),
        _ => PathParams::<PH>::extract(raw).map(|p| p.0.texts()).map_err(cls),
    })
}

fn extract_query(shape: usize, h: &RequestHead) -> Extracted {
    let cls = |e: pavex::request::query::errors::ExtractQueryParamsError| format!("{}", err_name(&format!("{e:?}")));
    match shape {
        0 => QueryParams::<QA>::extract(h).map(|p| p.0.texts()).map_err(cls),
        1 => QueryParams::<QB>::extract(h).map(|p| p.0.texts()).map_err(cls),
        2 => QueryParams::<QC>::extract(h).map(|p| p.0.texts()).map_err(cls),
        3 => QueryParams::<QD>::extract(h).map(|p| p.0.texts()).map_err(cls),
        4 => QueryParams::<QE>::extract(h).map(|p| p.0.texts()).map_err(cls),
        5 => QueryParams::<QF>::extract(h).map(|p| p.0.texts()).map_err(cls),
        6 => QueryParams::<QG>::extract(h).map(|p| p.0.texts()).map_err(cls),
        7 => QueryParams::<QH>::extract(h).map(|p| p.0.texts()).map_err(cls),
        _ => QueryParams::<QI>::extract(h).map(|p| p.0.texts()).map_err(cls),
    }
}

fn err_name(dbg: &str) -> String {
    dbg.split(['(', '{', ' ']).next().unwrap_or("").to_string()
}

fn extract_form(shape: usize, h: &RequestHead, b: &BufferedBody) -> Extracted {
    fn cls(e: ExtractUrlEncodedBodyError) -> String {
        match e {
            ExtractUrlEncodedBodyError::MissingContentType(_) => "MissingContentType".into(),
            ExtractUrlEncodedBodyError::ContentTypeMismatch(_) => "ContentTypeMismatch".into(),
            ExtractUrlEncodedBodyError::DeserializationError(_) => "DeserializationError".into(),
            e => format!("{e:?}"),
        }
    }
    match shape {
        0 => UrlEncodedBody::<QA>::extract(h, b).map(|p| p.0.texts()).map_err(cls),
        1 => UrlEncodedBody::<QB>::extract(h, b).map(|p| p.0.texts()).map_err(cls),
        2 => UrlEncodedBody::<QC>::extract(h, b).map(|p| p.0.texts()).map_err(cls),
        3 => UrlEncodedBody::<QD>::extract(h, b).map(|p| p.0.texts()).map_err(cls),
        4 => UrlEncodedBody::<QE>::extract(h, b).map(|p| p.0.texts()).map_err(cls),
        5 => UrlEncodedBody::<QF>::extract(h, b).map(|p| p.0.texts()).map_err(cls),
        6 => UrlEncodedBody::<QG>::extract(h, b).map(|p| p.0.texts()).map_err(cls),
        7 => UrlEncodedBody::<QH>::extract(h, b).map(|p| p.0.texts()).map_err(cls),
        _ => UrlEncodedBody::<QI>::extract(h, b).map(|p| p.0.texts()).map_err(cls),
    }
}

fn extract_json(shape: usize, h: &RequestHead, b: &BufferedBody) -> Extracted {
    fn cls(e: ExtractJsonBodyError) -> String {
        match e {
            ExtractJsonBodyError::MissingContentType(_) => "MissingContentType".into(),
            ExtractJsonBodyError::ContentTypeMismatch(_) => "ContentTypeMismatch".into(),
            ExtractJsonBodyError::DeserializationError(_) => "DeserializationError".into(),
            e => format!("{e:?}"),
        }
    }
    match shape {
        0 => JsonBody::<QA>::extract(h, b).map(|p| p.0.texts()).map_err(cls),
        1 => JsonBody::<QB>::extract(h, b).map(|p| p.0.texts()).map_err(cls),
        2 => JsonBody::<QC>::extract(h, b).map(|p| p.0.texts()).map_err(cls),
        3 => JsonBody::<QD>::extract(h, b).map(|p| p.0.texts()).map_err(cls),
        4 => JsonBody::<QE>::extract(h, b).map(|p| p.0.texts()).map_err(cls),
        5 => JsonBody::<QF>::extract(h, b).map(|p| p.0.texts()).map_err(cls),
        6 => JsonBody::<QG>::extract(h, b).map(|p| p.0.texts()).map_err(cls),
        7 => JsonBody::<QH>::extract(h, b).map(|p| p.0.texts()).map_err(cls),
        _ => JsonBody::<QI>::extract(h, b).map(|p| p.0.texts()).map_err(cls),
    }
}

pub fn oracle(c: &Case) -> CaseResult {
    match crate::util::catch(|| run(c)) {
        Ok(r) => r,
        Err(p) => Err(Fail::new(format!("panic:{}", crate::util::panic_sig(&p)), format!("panicked: {p}"))),
    }
}

fn run(c: &Case) -> CaseResult {
    let mut info = CaseInfo::default();
    let mut salt = c.salt;
    let (shapes, borrowing) = match c.channel {
        Channel::Path => (PATH_SHAPES, PATH_BORROWING),
        _ => (Q_SHAPES, Q_BORROWING),
    };
    let shape = c.shape as usize % shapes.len();
    let fields = shapes[shape];
    if c.values.len() != fields.len() {
        return Err(Fail::new("harness:bad-case", "values/fields length mismatch"));
    }
    let chan = format!("{:?}", c.channel).to_lowercase();
    // ---- expected texts + possibly malformed variant
    let mut texts: Vec<(usize, Txt)> = c.values.iter().cloned().enumerate().collect();
    let mut expect_err: Option<&'static str> = None; // class of documented error
    let mut bad_utf8 = false;
    match &c.malform {
        Malform::BadValue(i, b) => {
            let i = *i as usize % fields.len();
            let bad = BAD[*b as usize % BAD.len()];
            let k = fields[i].1;
            let is_pct = bad.contains('%') && c.channel != Channel::Json;
            let stringy = matches!(k, Kind::Str | Kind::OptStr | Kind::VecStr);
            let invalid_for_kind = match k {
                Kind::U8 => bad.parse::<u8>().is_err(),
                Kind::U16 | Kind::VecU16 => bad.parse::<u16>().is_err(),
                Kind::U32 | Kind::OptU32 => bad.parse::<u32>().is_err(),
                Kind::OptU8 => bad.parse::<u8>().is_err(),
                Kind::U64 => bad.parse::<u64>().is_err(),
                Kind::U128 => bad.parse::<u128>().is_err(),
                Kind::I8 => bad.parse::<i8>().is_err(),
                Kind::I16 => bad.parse::<i16>().is_err(),
                Kind::I32 => bad.parse::<i32>().is_err(),
                Kind::I64 => bad.parse::<i64>().is_err(),
                Kind::I128 => bad.parse::<i128>().is_err(),
                Kind::F32 | Kind::F64 => bad.parse::<f64>().is_err(),
                Kind::Bool => bad != "true" && bad != "false",
                Kind::Char => bad.chars().count() != 1,
                Kind::Str | Kind::OptStr | Kind::VecStr => false,
            };
            if is_pct {
                // raw, undecodable percent sequence (inserted verbatim by the encoders below)
                bad_utf8 = true;
                texts[i].1 = vec![format!("\u{0}RAW{bad}")];
                expect_err = Some("invalid-utf8");
            } else if stringy {
                // a string field accepts any text: this is simply another valid value
                // (`key=` for an Option<String> is read as None by serde_html_form: not generated)
                if !(k == Kind::OptStr && bad.is_empty()) {
                    texts[i].1 = vec![bad.to_string()];
                }
            } else if invalid_for_kind && !(bad.is_empty() && matches!(k, Kind::OptU32 | Kind::OptU8)) {
                texts[i].1 = vec![bad.to_string()];
                expect_err = Some("wrong-type");
            }
            // otherwise: the text happens to be acceptable for this kind; leave the case untouched
        }
        Malform::Missing(i) => {
            let i = *i as usize % fields.len();
            let k = fields[i].1;
            if !matches!(k, Kind::OptStr | Kind::OptU32 | Kind::OptU8) {
                expect_err = Some("missing-field");
            }
            texts.retain(|(j, _)| *j != i);
            if matches!(k, Kind::OptStr | Kind::OptU32 | Kind::OptU8) {
                texts.push((i, vec![]));
            }
        }
        _ => {}
    }
    // path: an empty segment cannot be expressed; treat empty strings as "x"
    if c.channel == Channel::Path {
        for (i, t) in texts.iter_mut() {
            for e in t.iter_mut() {
                if e.is_empty() {
                    *e = "x".into();
                    if expect_err == Some("wrong-type") && fields[*i].1 == Kind::Char {
                        // the bad value was the empty string: `x` is a valid char
                        expect_err = None;
                    }
                }
            }
        }
    }
    let raw = |e: &str| e.strip_prefix("\u{0}RAW").map(|s| s.to_string());

    // ---- encode
    let mut label_escape = false;
    let mut label_looks = false;
    let mut label_extreme = false;
    for (i, t) in &texts {
        for e in t {
            if raw(e).is_some() {
                continue;
            }
            label_escape |= needs_escape_path(e);
            label_looks |= looks_encoded(e);
            label_extreme |= is_extreme(fields[*i].1, e);
        }
    }
    let (ct, ct_ok) = content_type(&c.malform, c.channel);
    let got: Extracted;
    let mut allocated_decode = false;
    let mut wire = String::new();
    match c.channel {
        Channel::Path => {
            let mut template = String::new();
            let mut path = String::new();
            let present: Vec<usize> = texts.iter().filter(|(_, t)| !t.is_empty()).map(|(i, _)| *i).collect();
            for (j, (name, _)) in fields.iter().enumerate() {
                template.push_str(&format!("/s{j}/{{{name}}}"));
            }
            // a request can only match the template if every segment is there; a "missing" path
            // parameter is modelled by a template that lacks it
            if present.len() != fields.len() {
                template.clear();
                for (j, (name, _)) in fields.iter().enumerate() {
                    if present.contains(&j) {
                        template.push_str(&format!("/s{j}/{{{name}}}"));
                    }
                }
                if template.is_empty() {
                    template.push_str("/nothing");
                }
            }
            let mut sorted = texts.clone();
            sorted.sort_by_key(|(i, _)| *i);
            for (i, t) in &sorted {
                let Some(e) = t.first() else { continue };
                let seg = match raw(e) {
                    Some(r) => r,
                    None => {
                        let s = enc_path(e, &mut salt);
                        if s != *e {
                            allocated_decode |= *i == 0 && shape == borrowing;
                        }
                        s
                    }
                };
                path.push_str(&format!("/s{i}/{seg}"));
            }
            if path.is_empty() {
                path.push_str("/nothing");
            }
            wire = format!("{template}  <-  {path}");
            got = extract_path(shape, &template, &path)?;
        }
        Channel::Query | Channel::Form => {
            let mut pairs: Vec<String> = vec![];
            for (i, t) in &texts {
                for e in t {
                    let v = match raw(e) {
                        Some(r) => r,
                        None => {
                            let s = enc_form(e, &mut salt);
                            if s != *e && shape == borrowing && *i == 0 {
                                allocated_decode = true;
                            }
                            s
                        }
                    };
                    pairs.push(format!("{}={}", fields[*i].0, v));
                }
            }
            // permute key order (keeping the relative order of repeated keys)
            if pairs.len() > 1 {
                let r = next(&mut salt) as usize % pairs.len();
                pairs.rotate_left(r);
                // rotation may reorder repeated keys relative to each other only cyclically;
                // undo that by a stable regroup of vector fields
                for (i, (name, k)) in fields.iter().enumerate() {
                    if matches!(k, Kind::VecStr | Kind::VecU16) {
                        let want: Vec<String> = texts
                            .iter()
                            .find(|(j, _)| *j == i)
                            .map(|(_, t)| t.clone())
                            .unwrap_or_default();
                        let mut it = want.iter();
                        for p in pairs.iter_mut() {
                            if p.starts_with(&format!("{name}=")) {
                                if let Some(w) = it.next() {
                                    let v = raw(w).unwrap_or_else(|| enc_form(w, &mut salt));
                                    *p = format!("{name}={v}");
                                }
                            }
                        }
                    }
                }
            }
            let qs = pairs.join("&");
            wire = qs.clone();
            if c.channel == Channel::Query {
                let h = head(&format!("/p?{qs}"), None);
                if h.target.query().unwrap_or("") != qs {
                    info.lab("query:target-not-representable");
                    return Ok(info);
                }
                got = extract_query(shape, &h);
            } else {
                let h = head("/", ct.as_deref());
                let b = BufferedBody::verif_from_bytes(bytes::Bytes::from(qs.into_bytes()));
                got = extract_form(shape, &h, &b);
            }
        }
        Channel::Json => {
            let mut members: Vec<String> = vec![];
            for (i, t) in &texts {
                let (name, k) = fields[*i];
                let val = match k {
                    Kind::Str | Kind::Char => match raw(&t[0]) {
                        Some(_) => "\"\\ud800\"".to_string(), // lone surrogate: not valid text
                        None => {
                            let s = json_str(&t[0], &mut salt);
                            if shape == borrowing && *i == 0 && s[1..s.len() - 1] != t[0] {
                                allocated_decode = true;
                            }
                            s
                        }
                    },
                    Kind::OptStr => t.first().map(|e| json_str(e, &mut salt)).unwrap_or_else(|| "null".into()),
                    Kind::OptU32 | Kind::OptU8 => t.first().cloned().unwrap_or_else(|| "null".into()),
                    Kind::VecStr => format!("[{}]", t.iter().map(|e| json_str(e, &mut salt)).collect::<Vec<_>>().join(",")),
                    Kind::VecU16 => format!(
                        "[{}]",
                        t.iter()
                            .map(|e| if e.parse::<u64>().is_ok() { e.clone() } else { json_str(e, &mut 1) })
                            .collect::<Vec<_>>()
                            .join(",")
                    ),
                    _ => {
                        if raw(&t[0]).is_some() { "\"\\ud800\"".into() } else if t[0].is_empty() { "\"\"".into() } else { t[0].clone() }
                    }
                };
                if matches!(k, Kind::OptStr | Kind::OptU32 | Kind::OptU8) && t.is_empty() && next(&mut salt) % 2 == 0 {
                    continue; // absent instead of null
                }
                members.push(format!("{}:{}", json_str(name, &mut 1), val));
            }
            if members.len() > 1 {
                let r = next(&mut salt) as usize % members.len();
                members.rotate_left(r);
            }
            let mut doc = format!("{{{}}}", members.join(","));
            if let Malform::Truncate(n) = &c.malform {
                let cut = (*n as usize % doc.len().max(1)) + 1;
                let keep = doc.len() - cut;
                let mut k = keep;
                while !doc.is_char_boundary(k) {
                    k -= 1;
                }
                doc.truncate(k);
                expect_err = Some("truncated");
            }
            if let Malform::Trailing(n) = &c.malform {
                let (t, still_valid) = TRAILERS[*n as usize % TRAILERS.len()];
                doc.push_str(t);
                if !still_valid {
                    expect_err = Some("trailing-data");
                } else {
                    info.lab("json:trailing-white-space");
                }
            }
            wire = doc.clone();
            let h = head("/", ct.as_deref());
            let b = BufferedBody::verif_from_bytes(bytes::Bytes::from(doc.into_bytes()));
            got = extract_json(shape, &h, &b);
        }
    }

    // ---- judge
    let body_channel = matches!(c.channel, Channel::Form | Channel::Json);
    if body_channel && !ct_ok {
        return match got {
            Err(e) if e == "MissingContentType" || e == "ContentTypeMismatch" => {
                let want = if ct.is_none() { "MissingContentType" } else { "ContentTypeMismatch" };
                if e != want {
                    return Err(Fail::new(
                        format!("{chan}:wrong-content-type-error"),
                        format!("Content-Type {ct:?}: got {e}, documented {want}"),
                    ));
                }
                info.lab(format!("{chan}:content-type-rejected"));
                info.set_nontrivial(true);
                Ok(info)
            }
            other => Err(Fail::new(
                format!("{chan}:bad-content-type-accepted"),
                format!("Content-Type {ct:?} must be rejected for the {chan} extractor, got {other:?}"),
            )),
        };
    }
    if body_channel && matches!(c.malform, Malform::ContentType(..)) {
        info.lab(format!("{chan}:content-type-variant-accepted"));
    }
    let mut expected: Vec<(&'static str, Txt)> = fields.iter().map(|(n, _)| (*n, vec![])).collect();
    for (i, t) in &texts {
        expected[*i].1 = t.clone();
        if fields[*i].1 == Kind::F32 {
            // a decimal text that is not the shortest spelling of an f32 denotes the nearest f32 (exact reference)
            for e in expected[*i].1.iter_mut() {
                if let Some(f) = nearest_f32(e) {
                    if f.to_string() != *e {
                        // JSON numbers reach an f32 field through serde_json's own number model (an f64 that is itself only
                        // approximately parsed for long inputs, then narrowed): there the neighbouring f32 is accepted as
                        // well, and labelled
                        let name = fields[*i].0;
                        let neighbour = |t: &str| t.parse::<f32>().is_ok_and(|g| (g.to_bits() as i64 - f.to_bits() as i64).abs() == 1);
                        if c.channel == Channel::Json {
                            if let Ok(v) = &got {
                                if let Some((_, t)) = v.iter().find(|(n, t)| *n == name && t.len() == 1 && neighbour(&t[0])) {
                                    *e = t[0].clone();
                                    info.lab("json:f32-off-by-one-ulp(serde_json number model)");
                                    continue;
                                }
                            }
                        }
                        *e = f.to_string();
                        info.lab(format!("{chan}:f32-long-decimal-near-midpoint"));
                        info.set_nontrivial(true);
                    }
                }
            }
        }
    }
    match (&got, expect_err) {
        (Ok(v), None) => {
            // path shapes have no Option-absent / Vec
            if *v != expected {
                return Err(Fail::new(
                    format!("{chan}:value-differs"),
                    format!("{chan} shape #{shape}: client encoded {expected:?} as `{wire}`, the extractor produced {v:?}"),
                ));
            }
            info.lab(format!("{chan}:roundtrip-ok"));
        }
        (Err(e), None) => {
            if shape == borrowing && allocated_decode {
                // documented limitation: a borrowed &str cannot hold a value that needed decoding
                info.lab(format!("{chan}:borrowed-str-needs-decoding"));
            } else if e == "no-route" {
                info.lab("path:not-routable");
            } else {
                return Err(Fail::new(
                    format!("{chan}:valid-input-rejected"),
                    format!("{chan} shape #{shape}: `{wire}` (values {expected:?}) was rejected with {e}"),
                ));
            }
        }
        (Ok(v), Some(kind)) => {
            // query/form decode invalid UTF-8 lossily (behaviour of the underlying URL library,
            // not documented by Pavex): classified only
            if bad_utf8 && c.channel != Channel::Path && c.channel != Channel::Json {
                info.lab(format!("{chan}:invalid-utf8-decoded-lossily"));
            } else if kind == "missing-field" && c.channel == Channel::Path {
                // the template lacks the parameter but the struct has a default-able field?
                return Err(Fail::new(
                    format!("{chan}:malformed-accepted:{kind}"),
                    format!("{chan} shape #{shape}: `{wire}` must be rejected ({kind}), got {v:?}"),
                ));
            } else {
                return Err(Fail::new(
                    format!("{chan}:malformed-accepted:{kind}"),
                    format!("{chan} shape #{shape}: `{wire}` must be rejected ({kind}), got {v:?}"),
                ));
            }
        }
        (Err(e), Some(kind)) => {
            let ok = match (c.channel, kind) {
                (Channel::Path, "invalid-utf8") => e == "InvalidUtf8InPathParameter",
                (Channel::Path, _) => e == "PathDeserializationError" || e == "no-route",
                (Channel::Query, _) => e == "QueryDeserializationError",
                (_, _) => e == "DeserializationError",
            };
            if !ok {
                return Err(Fail::new(
                    format!("{chan}:wrong-error:{kind}"),
                    format!("{chan} shape #{shape}: `{wire}` ({kind}) produced {e}, not the documented error"),
                ));
            }
            info.lab(format!("{chan}:malformed-rejected:{kind}"));
            info.set_nontrivial(true);
        }
    }
    if label_escape || label_looks || label_extreme {
        info.set_nontrivial(true);
    }
    if label_escape {
        info.lab("value:needs-escaping");
    }
    if label_looks {
        info.lab("value:looks-percent-encoded");
    }
    if label_extreme {
        info.lab("value:numeric-extreme");
    }
    Ok(info)
}

// ------------------------------------------------------------------------------------------
// Generators
// ------------------------------------------------------------------------------------------

fn interesting_string() -> impl Strategy<Value = String> {
    prop_oneof![
        3 => "[a-zA-Z0-9]{1,8}",
        2 => "[ -~]{0,12}",
        2 => any::<String>().prop_map(|s| s.chars().filter(|c| *c != '\0').take(10).collect::<String>()),
        1 => prop::sample::select(vec![
            "%41".to_string(), "100%".to_string(), "a+b c".to_string(), "%2F%2f/".to_string(), "é/ü?#&=;".to_string(),
            "\u{1F600}\u{10FFFF}".to_string(), "%".to_string(), "+".to_string(), "a%2".to_string(), "..".to_string(),
            " lead and trail ".to_string(), "%25 41".to_string(),
        ]),
    ]
}

fn scalar(k: Kind) -> BoxedStrategy<Vec<String>> {
    fn one<T: ToString + std::fmt::Debug + 'static>(s: impl Strategy<Value = T> + 'static) -> BoxedStrategy<Vec<String>> {
        s.prop_map(|v| vec![v.to_string()]).boxed()
    }
    match k {
        Kind::U8 => one(prop_oneof![any::<u8>(), Just(u8::MAX), Just(0u8)]),
        Kind::U16 => one(prop_oneof![any::<u16>(), Just(u16::MAX)]),
        Kind::U32 => one(prop_oneof![any::<u32>(), Just(u32::MAX)]),
        Kind::U64 => one(prop_oneof![any::<u64>(), Just(u64::MAX)]),
        Kind::U128 => one(prop_oneof![any::<u128>(), Just(u128::MAX)]),
        Kind::I8 => one(prop_oneof![any::<i8>(), Just(i8::MIN), Just(i8::MAX)]),
        Kind::I16 => one(prop_oneof![any::<i16>(), Just(i16::MIN)]),
        Kind::I32 => one(prop_oneof![any::<i32>(), Just(i32::MIN)]),
        Kind::I64 => one(prop_oneof![any::<i64>(), Just(i64::MIN), Just(i64::MAX)]),
        Kind::I128 => one(prop_oneof![any::<i128>(), Just(i128::MIN), Just(i128::MAX)]),
        // (by construction, no rejection: a float that is not finite or does not survive the JSON text round trip is
        // replaced by one that is derived from its bits and does)
        Kind::F32 => prop_oneof![
            7 => one(any::<f32>().prop_map(|f| {
                if f.is_finite() && serde_json::from_str::<f32>(&f.to_string()).ok() == Some(f) { f } else { (f.to_bits() % 100_000) as f32 / 8.0 - 1000.0 }
            })),
            1 => (any::<u32>(), any::<u8>()).prop_map(|(bits, which)| vec![f32_near_midpoint(bits, which)]),
        ]
        .boxed(),
        Kind::F64 => one(any::<f64>().prop_map(|f| {
            if f.is_finite() && serde_json::from_str::<f64>(&f.to_string()).ok() == Some(f) { f } else { (f.to_bits() % 10_000_000) as f64 / 16.0 - 100_000.0 }
        })),
        Kind::Bool => one(any::<bool>()),
        Kind::Char => one(any::<char>().prop_map(|c| if c == '\0' { '\u{1}' } else { c })),
        Kind::Str => interesting_string().prop_map(|s| vec![s]).boxed(),
        Kind::OptStr => prop_oneof![
            1 => Just(vec![]),
            3 => interesting_string().prop_map(|s| vec![if s.is_empty() { "x".to_string() } else { s }])
        ]
        .boxed(),
        Kind::OptU32 => prop_oneof![1 => Just(vec![]), 3 => any::<u32>().prop_map(|v| vec![v.to_string()])].boxed(),
        Kind::OptU8 => any::<u8>().prop_map(|v| vec![v.to_string()]).boxed(),
        Kind::VecStr => prop::collection::vec(interesting_string(), 1..4).boxed(),
        // (mostly short; now and then around a thousand elements: sizes are part of "keeps its value")
        Kind::VecU16 => prop_oneof![
            24 => prop::collection::vec(any::<u16>().prop_map(|v| v.to_string()), 1..4),
            1 => prop::collection::vec(any::<u16>().prop_map(|v| v.to_string()), 990..1300),
        ]
        .boxed(),
    }
}

pub fn case_strategy() -> impl Strategy<Value = Case> {
    let channel = prop_oneof![
        3 => Just(Channel::Path),
        3 => Just(Channel::Query),
        2 => Just(Channel::Form),
        2 => Just(Channel::Json)
    ];
    (channel, 0u8..72).prop_flat_map(|(channel, raw)| {
        let shape = raw % if channel == Channel::Path { PATH_SHAPES.len() as u8 } else { Q_SHAPES.len() as u8 };
        let fields = match channel {
            Channel::Path => PATH_SHAPES[shape as usize],
            _ => Q_SHAPES[shape as usize],
        };
        let vals: Vec<BoxedStrategy<Vec<String>>> = fields.iter().map(|(_, k)| scalar(*k)).collect();
        let malform = match channel {
            Channel::Path | Channel::Query => prop_oneof![
                6 => Just(Malform::None),
                2 => (any::<u8>(), any::<u8>()).prop_map(|(i, b)| Malform::BadValue(i, b)),
                1 => any::<u8>().prop_map(Malform::Missing),
            ]
            .boxed(),
            Channel::Form => prop_oneof![
                6 => Just(Malform::None),
                2 => (any::<u8>(), any::<u8>()).prop_map(|(i, b)| Malform::BadValue(i, b)),
                1 => any::<u8>().prop_map(Malform::Missing),
                3 => (any::<u8>(), any::<u8>(), any::<u8>(), any::<u8>()).prop_map(|(a, b, c, d)| Malform::ContentType(a, b, c, d)),
                1 => Just(Malform::NoContentType),
            ]
            .boxed(),
            Channel::Json => prop_oneof![
                6 => Just(Malform::None),
                2 => (any::<u8>(), any::<u8>()).prop_map(|(i, b)| Malform::BadValue(i, b)),
                1 => any::<u8>().prop_map(Malform::Missing),
                3 => (any::<u8>(), any::<u8>(), any::<u8>(), any::<u8>()).prop_map(|(a, b, c, d)| Malform::ContentType(a, b, c, d)),
                1 => Just(Malform::NoContentType),
                1 => any::<u8>().prop_map(Malform::Truncate),
                1 => any::<u8>().prop_map(Malform::Trailing),
            ]
            .boxed(),
        };
        (Just(channel), Just(shape), vals, any::<u64>(), malform).prop_map(|(channel, shape, values, salt, malform)| Case {
            channel,
            shape,
            values,
            salt,
            malform,
        })
    })
}

pub fn main(mut chk: Check) -> ! {
    chk.ev.rule = "case = channel (path via a real matchit router / query / urlencoded form / JSON body) x one of 8 struct shapes per channel (u8..u128, i8..i128, f32/f64, bool, char, String, Cow<str>, &str, Option<_>, Vec<_>) x generated values (reserved characters, '%', '+', text that looks percent-encoded, multi-byte/astral unicode, numeric extremes) x harness-side encoders (random over-encoding, '+' vs %20, hex case, key order, \\u escapes) x an optional malformation (wrong-typed or undecodable value, missing field, 5x7x3x3 Content-Type variants, missing Content-Type, truncated JSON). Oracle: extract(encode(v)) == v field by field (by name); malformed => the documented error class. non-trivial = a value that needs escaping / looks percent-encoded / is a numeric extreme, or a malformed input that was rejected; distinct = distinct serialised case".into();
    chk.ev.assume("query/form: invalid UTF-8 after percent-decoding is decoded lossily by the underlying URL library; only classified");
    chk.ev.assume("a borrowed &str field may be rejected when its value needed decoding (documented limitation); floats are restricted to values that survive serde_json text parsing");
    chk.ev.assume("empty path segments cannot be expressed and are replaced by `x`; Content-Type matching is exercised in lower case only");
    if let Some(p) = chk.settings.replay.clone() {
        if !chk.replay_one::<Case, _>("roundtrip", &p, oracle) {
            eprintln!("replay file {} does not belong to C15", p.display());
            std::process::exit(2);
        }
        chk.finish();
    }
    for p in chk.committed_replays() {
        chk.replay_one::<Case, _>("roundtrip", &p, oracle);
    }
    let t = chk.tier();
    chk.run("roundtrip", t.pick(400_000, 3_000_000), case_strategy(), oracle);
    chk.finish()
}

// ------------------------------------------------------------------------------------------
// libFuzzer entry: bytes -> a case of the same class (thorough tier, harness/fuzz/fuzz_targets/fz_c15.rs)
// ------------------------------------------------------------------------------------------

/// Characters that matter to percent-/form-/JSON-encoding, plus multi-byte and astral ones.
const FUZZ_ALPHABET: &[&str] = &[
    "a", "Z", "0", "9", " ", "+", "%", "%4", "%41", "%zz", "&", "=", "/", "?", "#", ";", ":", "@", "!", "$", "'", "(", ")", "*", ",", "-", ".", "_", "~", "\"", "\\", "{", "}", "[", "]", "<", ">", "|", "^", "`", "\t", "\n", "\r", "é", "ß", "中", "😀", "\u{7f}", "\u{a0}", "\u{2028}", "\u{feff}",
];

pub fn case_from_bytes(data: &[u8]) -> Case {
    let mut i = 0usize;
    let mut b = || {
        let v = data.get(i).copied().unwrap_or(0);
        i += 1;
        v
    };
    let channel = [Channel::Path, Channel::Query, Channel::Form, Channel::Json][(b() % 4) as usize];
    let shapes = if channel == Channel::Path { PATH_SHAPES } else { Q_SHAPES };
    let shape = b() % shapes.len() as u8;
    let fields = shapes[shape as usize];
    let mut string = |b: &mut dyn FnMut() -> u8, allow_empty: bool| -> String {
        let n = (b() % 9) as usize;
        let mut s: String = (0..n).map(|_| FUZZ_ALPHABET[b() as usize % FUZZ_ALPHABET.len()]).collect();
        if s.is_empty() && !allow_empty {
            s.push('x');
        }
        s
    };
    let mut num = |b: &mut dyn FnMut() -> u8| -> u128 {
        match b() % 4 {
            0 => 0,
            1 => u128::MAX,
            _ => {
                let mut v = 0u128;
                for _ in 0..(1 + b() % 16) {
                    v = (v << 8) | b() as u128;
                }
                v
            }
        }
    };
    let mut values: Vec<Vec<String>> = vec![];
    for (_, k) in fields {
        let v: Vec<String> = match k {
            Kind::U8 => vec![(num(&mut b) as u8).to_string()],
            Kind::U16 => vec![(num(&mut b) as u16).to_string()],
            Kind::U32 => vec![(num(&mut b) as u32).to_string()],
            Kind::U64 => vec![(num(&mut b) as u64).to_string()],
            Kind::U128 => vec![num(&mut b).to_string()],
            Kind::I8 => vec![(num(&mut b) as i8).to_string()],
            Kind::I16 => vec![(num(&mut b) as i16).to_string()],
            Kind::I32 => vec![(num(&mut b) as i32).to_string()],
            Kind::I64 => vec![(num(&mut b) as i64).to_string()],
            Kind::I128 => vec![(num(&mut b) as i128).to_string()],
            Kind::F32 => {
                let f = f32::from_bits(num(&mut b) as u32);
                let f = if f.is_finite() && serde_json::from_str::<f32>(&f.to_string()).ok() == Some(f) { f } else { 1.5 };
                if b() % 8 == 0 { vec![f32_near_midpoint(f.to_bits(), b())] } else { vec![f.to_string()] }
            }
            Kind::F64 => {
                let f = f64::from_bits(num(&mut b) as u64);
                let f = if f.is_finite() && serde_json::from_str::<f64>(&f.to_string()).ok() == Some(f) { f } else { -0.25 };
                vec![f.to_string()]
            }
            Kind::Bool => vec![(b() % 2 == 0).to_string()],
            Kind::Char => {
                let s = FUZZ_ALPHABET[b() as usize % FUZZ_ALPHABET.len()];
                vec![s.chars().next().unwrap_or('c').to_string()]
            }
            Kind::Str => vec![string(&mut b, true)],
            Kind::OptStr => {
                if b() % 4 == 0 {
                    vec![]
                } else {
                    vec![string(&mut b, false)]
                }
            }
            Kind::OptU32 => {
                if b() % 4 == 0 {
                    vec![]
                } else {
                    vec![(num(&mut b) as u32).to_string()]
                }
            }
            Kind::OptU8 => vec![(num(&mut b) as u8).to_string()],
            Kind::VecStr => (0..(1 + b() % 3)).map(|_| string(&mut b, true)).collect(),
            Kind::VecU16 => (0..(1 + b() % 3)).map(|_| (num(&mut b) as u16).to_string()).collect(),
        };
        values.push(v);
    }
    let salt = u64::from_le_bytes([b(), b(), b(), b(), b(), b(), b(), b()]);
    let body = matches!(channel, Channel::Form | Channel::Json);
    let malform = match b() % 12 {
        0 | 1 => Malform::BadValue(b(), b()),
        2 => Malform::Missing(b()),
        3 | 4 if body => Malform::ContentType(b(), b(), b(), b()),
        5 if body => Malform::NoContentType,
        6 if channel == Channel::Json => Malform::Truncate(b()),
        7 if channel == Channel::Json => Malform::Trailing(b()),
        _ => Malform::None,
    };
    Case { channel, shape, values, salt, malform }
}
