//! C18 — configuration sources merge with the documented precedence.
//! One child process per case (the environment is process-global).
use std::collections::BTreeMap;
use std::path::PathBuf;

use pavex::config::{ConfigLoader, ConfigProfile};
use proptest::prelude::*;
use serde::{Deserialize, Serialize};
use serde_json::{Value, json};
use vcommon::{CaseInfo, CaseResult, Check, Fail, idx};

#[derive(ConfigProfile, Debug, Clone, Copy, PartialEq, Eq)]
pub enum Profile {
    #[px(profile = "dev")]
    Development,
    Production,
    #[px(profile = "staging2")]
    Staging2,
    #[px(profile = "prodEU")]
    ProdEu,
    LocalDevelopment,
    #[px(profile = "q_a_1")]
    Qa,
}

const PROFILES: [(&str, Profile); 6] = [
    ("dev", Profile::Development),
    ("production", Profile::Production),
    ("staging2", Profile::Staging2),
    ("prodEU", Profile::ProdEu),
    ("local_development", Profile::LocalDevelopment),
    ("q_a_1", Profile::Qa),
];

/// A hand-written `ConfigProfile` (the derive macro does not allow every name, e.g. names with a dot).
#[derive(Debug, Clone, Copy, PartialEq, Eq)]
pub struct HandProfile(&'static str);

const HAND_PROFILES: [&str; 6] = ["staging.eu", "staging", "prod.v2.us", "prod.v2", "plain", "a.b"];

impl std::str::FromStr for HandProfile {
    type Err = String;
    fn from_str(s: &str) -> Result<Self, String> {
        HAND_PROFILES.iter().find(|p| **p == s).map(|p| HandProfile(p)).ok_or_else(|| format!("`{s}` is not a valid profile"))
    }
}

impl AsRef<str> for HandProfile {
    fn as_ref(&self) -> &str {
        self.0
    }
}

impl ConfigProfile for HandProfile {}

fn profile_name(c: &Case, i: usize) -> &'static str {
    if c.hand_profile { HAND_PROFILES[i % HAND_PROFILES.len()] } else { PROFILES[i % PROFILES.len()].0 }
}

const SEGS: [&str; 7] = ["alpha", "db", "server_cfg", "x1", "port", "pool", "must"];

#[derive(Clone, Debug, Serialize, Deserialize, PartialEq)]
pub enum DirMode {
    /// absolute path
    Absolute,
    /// relative path, process started in the directory that contains it
    Relative,
    /// relative path, process started two levels below (documented upward search)
    RelativeFromSubdir,
    /// no `configuration_dir` call: the default `configuration` directory, upward search
    DefaultName,
}

#[derive(Clone, Debug, Serialize, Deserialize, PartialEq)]
pub enum PxProfile {
    Unset,
    /// the intended profile
    Selected,
    Unknown,
    /// a different, valid profile (only meaningful together with an explicit `.profile()`)
    OtherValid(u8),
}

#[derive(Clone, Debug, Serialize, Deserialize)]
pub struct Case {
    /// leaf key paths (segment indices) and the sources that define them: bit0 base, bit1 profile, bit2 env
    pub keys: Vec<(Vec<u8>, u8)>,
    pub profile: u8,
    pub explicit_profile: bool,
    pub px_profile: PxProfile,
    pub dir: DirMode,
    /// write the profile file at all?
    pub profile_file_exists: bool,
    /// unrelated PX_-less and other-prefixed variables that must be ignored
    pub noise_env: bool,
    /// the profile type is a hand-written `ConfigProfile` whose names may contain dots
    #[serde(default)]
    pub hand_profile: bool,
    /// a second directory of the same name between the working directory and the usual one (relative modes only):
    /// 0 none; 1 the nearer one holds only the profile file, the farther one only base.yml; 2 the other way round;
    /// 3 both hold both files, the farther one with other values
    #[serde(default)]
    pub split_layout: u8,
    /// a variable whose name differs from PX_PROFILE only by letter case, naming another valid profile:
    /// (spelling, which other profile); the environment is passed in the order given by `env_rot`
    #[serde(default)]
    pub profile_sibling: Option<(u8, u8)>,
    #[serde(default)]
    pub env_rot: u8,
}

fn key_paths(c: &Case) -> Vec<(Vec<String>, u8)> {
    // make the set prefix-free and duplicate-free by construction
    let mut out: Vec<(Vec<String>, u8)> = vec![];
    for (segs, src) in &c.keys {
        let path: Vec<String> = segs.iter().take(3).map(|s| SEGS[*s as usize % SEGS.len()].to_string()).collect();
        if path.is_empty() || path[0] == "profile" {
            continue;
        }
        let conflict = out.iter().any(|(p, _)| p.starts_with(&path) || path.starts_with(p));
        if conflict {
            continue;
        }
        let src = if src % 8 == 0 { 1 } else { src % 8 };
        out.push((path, src));
    }
    out
}

fn yaml(tree: &BTreeMap<Vec<String>, String>) -> String {
    // nested maps rendered by hand (2-space indentation)
    fn rec(prefix: &[String], tree: &BTreeMap<Vec<String>, String>, indent: usize, out: &mut String) {
        let mut children: Vec<String> = tree
            .keys()
            .filter(|k| k.len() > prefix.len() && k.starts_with(prefix))
            .map(|k| k[prefix.len()].clone())
            .collect();
        children.dedup();
        children.sort();
        children.dedup();
        for ch in children {
            let mut p = prefix.to_vec();
            p.push(ch.clone());
            if let Some(v) = tree.get(&p) {
                out.push_str(&format!("{}{}: \"{}\"\n", " ".repeat(indent), ch, v));
            } else {
                out.push_str(&format!("{}{}:\n", " ".repeat(indent), ch));
                rec(&p, tree, indent + 2, out);
            }
        }
    }
    let mut s = String::new();
    rec(&[], tree, 0, &mut s);
    if s.is_empty() {
        s.push_str("{}\n");
    }
    s
}

#[derive(Serialize, Deserialize)]
struct ChildArgs {
    dir: Option<String>,
    explicit_profile: Option<u8>,
    #[serde(default)]
    hand: bool,
}

#[derive(Debug, Deserialize)]
#[allow(dead_code)]
struct Typed {
    must: String,
}

/// Entry point of the child process: `rtprops C18-child '<json>'`.
pub fn child(arg: &str) -> ! {
    let a: ChildArgs = serde_json::from_str(arg).expect("child args");
    if a.hand {
        let mk = || {
            let mut l = ConfigLoader::<HandProfile>::new();
            if let Some(d) = &a.dir {
                l = l.configuration_dir(PathBuf::from(d));
            }
            if let Some(p) = a.explicit_profile {
                l = l.profile(HandProfile(HAND_PROFILES[p as usize % HAND_PROFILES.len()]));
            }
            l
        };
        let all: Result<Value, String> = mk().load::<Value>().map_err(|e| chain(&e));
        let typed: Result<String, String> = mk().load::<Typed>().map(|t| t.must).map_err(|e| chain(&e));
        println!("{}", json!({"all": all, "typed": typed}));
        std::process::exit(0);
    }
    let mk = || {
        let mut l = ConfigLoader::<Profile>::new();
        if let Some(d) = &a.dir {
            l = l.configuration_dir(PathBuf::from(d));
        }
        if let Some(p) = a.explicit_profile {
            l = l.profile(PROFILES[p as usize % PROFILES.len()].1);
        }
        l
    };
    let all: Result<Value, String> = mk().load::<Value>().map_err(|e| chain(&e));
    let typed: Result<String, String> = mk().load::<Typed>().map(|t| t.must).map_err(|e| chain(&e));
    println!("{}", json!({"all": all, "typed": typed}));
    std::process::exit(0);
}

fn chain(e: &(dyn std::error::Error + 'static)) -> String {
    let mut s = e.to_string();
    let mut src = e.source();
    while let Some(x) = src {
        s.push_str(" <- ");
        s.push_str(&x.to_string());
        src = x.source();
    }
    s
}

static COUNTER: std::sync::atomic::AtomicUsize = std::sync::atomic::AtomicUsize::new(0);

pub fn oracle(c: &Case) -> CaseResult {
    let mut info = CaseInfo::default();
    let keys = key_paths(c);
    let pname = profile_name(c, c.profile as usize);
    let n = COUNTER.fetch_add(1, std::sync::atomic::Ordering::Relaxed);
    let root = PathBuf::from(format!("/verif/.work/c18/{}-{}", std::process::id(), n));
    let _ = std::fs::remove_dir_all(&root);
    let dir_name = match c.dir {
        DirMode::DefaultName => "configuration",
        _ => "cfg_dir",
    };
    let cfg = root.join(dir_name);
    let deep = root.join("sub").join("deeper");
    std::fs::create_dir_all(&cfg).map_err(|e| Fail::new("harness:io", e.to_string()))?;
    std::fs::create_dir_all(&deep).map_err(|e| Fail::new("harness:io", e.to_string()))?;
    // the documented upward search stops at the first directory of that name: `near` (if any) is found before `cfg`
    let split = if matches!(c.dir, DirMode::RelativeFromSubdir | DirMode::DefaultName) { c.split_layout % 4 } else { 0 };
    let near = root.join("sub").join(dir_name);
    if split != 0 {
        std::fs::create_dir_all(&near).map_err(|e| Fail::new("harness:io", e.to_string()))?;
    }

    // ---- write the three sources
    let mut base = BTreeMap::new();
    let mut prof = BTreeMap::new();
    let mut env: Vec<(String, String)> = vec![];
    let mut expected: BTreeMap<Vec<String>, String> = BTreeMap::new();
    let mut multi = false;
    let mut nested_env = false;
    for (i, (path, src)) in keys.iter().enumerate() {
        let mut v = None;
        if src & 1 != 0 {
            base.insert(path.clone(), format!("v_base_{i}"));
            v = Some(format!("v_base_{i}"));
        }
        if src & 2 != 0 {
            prof.insert(path.clone(), format!("v_prof_{i}"));
            if c.profile_file_exists || split != 0 {
                v = Some(format!("v_prof_{i}"));
            }
        }
        if src & 4 != 0 {
            let name = format!("PX_{}", path.iter().map(|s| s.to_uppercase()).collect::<Vec<_>>().join("__"));
            env.push((name, format!("v_env_{i}")));
            v = Some(format!("v_env_{i}"));
            nested_env |= path.len() >= 2;
        }
        if src.count_ones() >= 2 {
            multi = true;
        }
        if let Some(v) = v {
            expected.insert(path.clone(), v);
        }
    }
    // when no key lives in the base file, the file itself is left out for every other such case
    // (an absent file contributes nothing, exactly like an empty one)
    let omit_base = base.is_empty() && c.keys.len() % 2 == 0 && split == 0;
    let wr = |dir: &PathBuf, name: String, tree: &BTreeMap<Vec<String>, String>| {
        std::fs::write(dir.join(name), yaml(tree)).map_err(|e| Fail::new("harness:io", e.to_string()))
    };
    let far_tree = |t: &BTreeMap<Vec<String>, String>| -> BTreeMap<Vec<String>, String> {
        t.iter().map(|(k, v)| (k.clone(), v.replace("v_", "v_far_"))).collect()
    };
    // `either`: keys on which "search every file upwards on its own" (the code) and "search the directory upwards, then
    // read its files" (the rustdoc of `configuration_dir`) disagree; nothing is asserted about them
    let mut either: Vec<Vec<String>> = vec![];
    match split {
        0 => {
            if !omit_base {
                wr(&cfg, "base.yml".into(), &base)?;
            }
            if c.profile_file_exists {
                wr(&cfg, format!("{pname}.yml"), &prof)?;
            }
        }
        1 => {
            // nearer: profile file only; farther: base.yml only. The profile file of the nearest directory counts under
            // both readings; base.yml is read from the farther directory (code) or not at all (rustdoc)
            wr(&near, format!("{pname}.yml"), &prof)?;
            wr(&cfg, "base.yml".into(), &base)?;
            for (path, src) in &keys {
                if src & 1 != 0 && src & 6 == 0 {
                    either.push(path.clone());
                }
            }
            // the profile file always exists in this layout
            for (i, (path, src)) in keys.iter().enumerate() {
                if src & 2 != 0 && src & 4 == 0 {
                    expected.insert(path.clone(), format!("v_prof_{i}"));
                }
            }
        }
        2 => {
            // nearer: base.yml only; farther: profile file only
            wr(&near, "base.yml".into(), &base)?;
            wr(&cfg, format!("{pname}.yml"), &prof)?;
            for (path, src) in &keys {
                if src & 2 != 0 && src & 4 == 0 {
                    either.push(path.clone());
                }
            }
        }
        _ => {
            // both directories hold both files; the nearest one wins under both readings
            wr(&near, "base.yml".into(), &base)?;
            wr(&near, format!("{pname}.yml"), &prof)?;
            wr(&cfg, "base.yml".into(), &far_tree(&base))?;
            wr(&cfg, format!("{pname}.yml"), &far_tree(&prof))?;
            for (i, (path, src)) in keys.iter().enumerate() {
                if src & 2 != 0 && src & 4 == 0 {
                    expected.insert(path.clone(), format!("v_prof_{i}"));
                }
            }
        }
    }
    // decoy: another profile's file must never be read
    let decoy = profile_name(c, c.profile as usize + 1);
    let mut decoy_tree = BTreeMap::new();
    decoy_tree.insert(vec!["alpha".to_string()], "v_decoy".to_string());
    decoy_tree.insert(vec!["decoy_only".to_string()], "v_decoy".to_string());
    if !keys.iter().any(|(p, _)| p[0] == "alpha" && p.len() > 1) {
        std::fs::write(cfg.join(format!("{decoy}.yml")), yaml(&decoy_tree)).map_err(|e| Fail::new("harness:io", e.to_string()))?;
    }

    // ---- profile selection
    let explicit = if c.explicit_profile { Some(c.profile % 6) } else { None };
    let px_profile: Option<String> = match &c.px_profile {
        PxProfile::Unset => None,
        PxProfile::Selected => Some(pname.to_string()),
        PxProfile::Unknown => Some("no_such_profile".to_string()),
        PxProfile::OtherValid(o) => Some(profile_name(c, c.profile as usize + 1 + *o as usize % 5).to_string()),
    };
    let selected_ok = if c.explicit_profile { true } else { matches!(c.px_profile, PxProfile::Selected) };
    // without an explicit profile, OtherValid selects *that* profile: its file does not exist
    // (or is the decoy) -> not the scenario we model; fold it into "selected = other" by expectation
    let effective_other = !c.explicit_profile && matches!(c.px_profile, PxProfile::OtherValid(_));

    let (cwd, dir_arg) = match c.dir {
        DirMode::Absolute => (deep.clone(), Some(cfg.display().to_string())),
        DirMode::Relative => (root.clone(), Some(dir_name.to_string())),
        DirMode::RelativeFromSubdir => (deep.clone(), Some(dir_name.to_string())),
        DirMode::DefaultName => (deep.clone(), None),
    };
    let args = serde_json::to_string(&ChildArgs { dir: dir_arg, explicit_profile: explicit, hand: c.hand_profile }).unwrap();
    let exe = std::env::current_exe().map_err(|e| Fail::new("harness:io", e.to_string()))?;
    // The child gets exactly these variables, in exactly this order (`std::process::Command` would sort them by name):
    // `/usr/bin/env -i K=V ... <exe> <args>` builds the environment block in the order of its arguments.
    let mut vars: Vec<(String, String)> = env.clone();
    if let Some(p) = &px_profile {
        vars.push(("PX_PROFILE".into(), p.clone()));
    }
    let sibling = match (&c.profile_sibling, &px_profile) {
        (Some((sp, other)), Some(_)) if selected_ok => {
            let name = ["px_profile", "Px_Profile", "PX_PROFILe", "pX_PROFILE", "PX_profile"][*sp as usize % 5];
            Some((name.to_string(), profile_name(c, c.profile as usize + 1 + *other as usize % 5).to_string()))
        }
        _ => None,
    };
    if let Some(sv) = &sibling {
        vars.push(sv.clone());
    }
    if c.noise_env {
        for k in ["PXX_ALPHA", "ALPHA", "XPX_ALPHA"] {
            vars.push((k.into(), "noise".into()));
        }
        vars.push(("HOME".into(), "/nonexistent".into()));
    }
    if !vars.is_empty() {
        let r = c.env_rot as usize % vars.len();
        vars.rotate_left(r);
        if c.env_rot >= 128 {
            vars.reverse();
        }
    }
    let mut cmd = std::process::Command::new("/usr/bin/env");
    cmd.arg("-i");
    for (k, v) in &vars {
        cmd.arg(format!("{k}={v}"));
    }
    cmd.arg(exe).arg("C18-child").arg(&args).current_dir(&cwd).env_clear();
    let out = cmd.output().map_err(|e| Fail::new("harness:spawn", e.to_string()))?;
    let _ = std::fs::remove_dir_all(&root);
    if !out.status.success() {
        return Err(Fail::new(
            "child-crashed",
            format!("the loader process died: {:?}\n{}", out.status, String::from_utf8_lossy(&out.stderr)),
        ));
    }
    let stdout = String::from_utf8_lossy(&out.stdout);
    let res: Value = serde_json::from_str(stdout.trim()).map_err(|e| Fail::new("harness:child-output", format!("{e}: {stdout}")))?;
    let all = &res["all"];
    let typed = &res["typed"];

    let describe = || {
        format!(
            "profile={pname} explicit={} PX_PROFILE={px_profile:?} dir={:?} profile_file={} split_layout={split} base={base:?} profile_file_content={prof:?} environment (in order)={vars:?}",
            c.explicit_profile, c.dir, c.profile_file_exists
        )
    };

    // ---- profile errors
    if !selected_ok && !effective_other {
        // PX_PROFILE unset or unknown and no explicit profile: must be an error, not a default
        if all.get("Ok").is_some() {
            return Err(Fail::new(
                "missing-profile-accepted",
                format!("no valid profile was specified, yet the configuration loaded: {all}\n{}", describe()),
            ));
        }
        info.lab(format!("profile-error:{:?}", c.px_profile));
        info.set_nontrivial(true);
        return Ok(info);
    }
    if effective_other {
        // only classified: another valid profile was selected through the environment
        info.lab("profile:other-valid-via-env(classified)");
        return Ok(info);
    }

    // ---- precedence
    let loaded = match all.get("Ok") {
        Some(v) => v.clone(),
        None => {
            return Err(Fail::new(
                "valid-configuration-rejected",
                format!("loading failed: {}\n{}", all.get("Err").unwrap_or(&Value::Null), describe()),
            ));
        }
    };
    let mut flat: BTreeMap<Vec<String>, String> = BTreeMap::new();
    fn flatten(prefix: &mut Vec<String>, v: &Value, out: &mut BTreeMap<Vec<String>, String>) {
        match v {
            Value::Object(o) => {
                for (k, v) in o {
                    prefix.push(k.clone());
                    flatten(prefix, v, out);
                    prefix.pop();
                }
            }
            Value::String(s) => {
                out.insert(prefix.clone(), s.clone());
            }
            other => {
                out.insert(prefix.clone(), format!("<non-string:{other}>"));
            }
        }
    }
    flatten(&mut vec![], &loaded, &mut flat);
    if sibling.is_some() {
        // the sibling is not `PX_PROFILE`; whether the loader's case-insensitive prefix turns it into a key named
        // `profile` is not what is judged here (only which profile file was read is)
        flat.retain(|k, _| k[0] != "profile");
        info.lab("PX_PROFILE-sibling-with-other-letter-case");
        info.set_nontrivial(true);
    }
    for k in &either {
        flat.remove(k);
        expected.remove(k);
    }
    if split != 0 {
        info.lab(format!("split-layout:{split}"));
        info.set_nontrivial(true);
    }
    if flat != expected {
        let sig = if flat.keys().any(|k| k[0] == "profile") {
            "px-profile-treated-as-key"
        } else if flat.values().any(|v| v == "v_decoy") {
            "wrong-profile-file-read"
        } else if flat.values().any(|v| v.starts_with("v_far_")) {
            "farther-directory-preferred"
        } else {
            "precedence"
        };
        return Err(Fail::new(
            sig,
            format!("loaded {flat:?}\nexpected (env > profile file > base file) {expected:?}\n{}", describe()),
        ));
    }
    // ---- required key
    let must = expected.get(&vec!["must".to_string()]);
    let must_undecided = either.iter().any(|k| k[0] == "must");
    match (must, typed.get("Ok"), typed.get("Err")) {
        _ if must_undecided => info.lab("typed:not-judged(split layout)"),
        (Some(v), Some(got), _) => {
            if got.as_str() != Some(v.as_str()) {
                return Err(Fail::new("typed-value", format!("typed load returned {got}, expected {v}\n{}", describe())));
            }
            info.lab("typed:ok");
        }
        (None, None, Some(_)) => {
            info.lab("typed:missing-required-key-rejected");
        }
        (None, Some(got), _) => {
            return Err(Fail::new(
                "missing-required-key-accepted",
                format!("the key `must` is defined in no source but the typed configuration loaded with {got}\n{}", describe()),
            ));
        }
        (Some(_), None, e) => {
            // `must` may be a parent of nested keys in this case: then a String cannot hold it
            if expected.keys().any(|k| k.len() > 1 && k[0] == "must") {
                info.lab("typed:must-is-a-table");
            } else {
                return Err(Fail::new("typed-load-failed", format!("{e:?}\n{}", describe())));
            }
        }
        _ => {}
    }
    if multi || nested_env {
        info.set_nontrivial(true);
    }
    if multi {
        info.lab("key-in->=2-sources");
    }
    if nested_env {
        info.lab("nested-key-from-env");
    }
    info.lab(format!("dir:{:?}", c.dir));
    if omit_base {
        info.lab("base-file-absent");
    }
    if c.explicit_profile && px_profile.is_some() {
        info.lab("explicit-profile-and-PX_PROFILE-both-set");
    }
    if !c.profile_file_exists && split == 0 {
        info.lab("profile-file-missing(classified)");
    }
    Ok(info)
}

pub fn case_strategy() -> impl Strategy<Value = Case> {
    (
        prop::collection::vec((prop::collection::vec(0u8..7, 1..=3), 1u8..8), 1..=8),
        0u8..6,
        any::<bool>(),
        prop_oneof![
            2 => Just(PxProfile::Unset),
            5 => Just(PxProfile::Selected),
            1 => Just(PxProfile::Unknown),
            2 => (0u8..5).prop_map(PxProfile::OtherValid),
        ],
        prop_oneof![
            Just(DirMode::Absolute),
            Just(DirMode::Relative),
            Just(DirMode::RelativeFromSubdir),
            Just(DirMode::DefaultName)
        ],
        prop::bool::weighted(0.9),
        any::<bool>(),
        prop::bool::weighted(0.3),
        (prop_oneof![3 => Just(0u8), 1 => 1u8..4], prop::option::weighted(0.25, (0u8..5, 0u8..5)), any::<u8>()),
    )
        .prop_map(|(keys, profile, explicit_profile, px_profile, dir, profile_file_exists, noise_env, hand_profile, (split_layout, profile_sibling, env_rot))| Case {
            keys,
            profile,
            explicit_profile,
            px_profile,
            dir,
            profile_file_exists,
            noise_env,
            hand_profile,
            split_layout,
            profile_sibling,
            env_rot,
        })
}

pub fn main(mut chk: Check) -> ! {
    let _ = idx(0, 1);
    chk.ev.rule = "case = 1-8 prefix-free key paths (nesting 1-3, segments with and without '_') each assigned to a non-empty subset of {base.yml, <profile>.yml, PX_ environment} with distinct string values, one of 6 derive-macro profiles (default snake_case names and custom names incl. digits/upper case) or of 6 profiles of a hand-written ConfigProfile implementation (names with dots, one name a dot-prefix of another), profile given explicitly and/or through PX_PROFILE (unset, right, unknown, another valid one), configuration directory absolute / relative / relative from two levels below / default name, profile file present or not, noise variables. One child process per case with a cleared environment. Oracle: value(k) = env ?? profile ?? base for every key and nothing else in the loaded map (in particular no `profile` key, no value from another profile's file); no valid profile => error; typed load of a key defined nowhere => error. non-trivial = a key defined in >=2 sources, or a nested key overridden from the environment, or a profile error; distinct = distinct serialised case".into();
    chk.ev.assume("values are strings that figment cannot re-type; key segments are lower case; a missing profile *file* is only classified (the statement does not cover it); selecting another valid profile purely through PX_PROFILE is only classified");
    if let Some(p) = chk.settings.replay.clone() {
        if !chk.replay_one::<Case, _>("precedence", &p, oracle) {
            eprintln!("replay file {} does not belong to C18", p.display());
            std::process::exit(2);
        }
        chk.finish();
    }
    for p in chk.committed_replays() {
        chk.replay_one::<Case, _>("precedence", &p, oracle);
    }
    let t = chk.tier();
    chk.run("precedence", t.pick(6_000, 60_000), case_strategy(), oracle);
    let _ = std::fs::remove_dir_all("/verif/.work/c18");
    chk.finish()
}
