//! C11 — session state carries over from one request to the next, exactly.
use proptest::prelude::*;
use serde::{Deserialize, Serialize};
use vcommon::{CaseInfo, CaseResult, Check, Fail, idx};

use crate::sess::*;

#[derive(Clone, Debug, Serialize, Deserialize)]
pub struct History {
    pub cfg: Cfg,
    /// false = in-memory store, true = SQLite (in-memory database)
    #[serde(default)]
    pub sqlite: bool,
    pub reqs: Vec<Req>,
    /// store calls (numbered over the whole history) that fail with a transient error (in-memory store only).
    /// Non-empty => the "transient store errors" campaign: a failed operation changes nothing that the
    /// application can see, a failed `sync()` may be retried, a request whose finalisation fails ends the case.
    #[serde(default)]
    pub fail_calls: Vec<u8>,
}

thread_local! {
    static RT: tokio::runtime::Runtime = tokio::runtime::Builder::new_current_thread().enable_all().build().unwrap();
}

pub fn oracle(h: &History) -> CaseResult {
    let r = crate::util::catch(|| RT.with(|rt| rt.block_on(run(h))));
    // (histories with a value nested beyond the JSON parser's recursion limit exist as recorded reproductions only)
    let deep = h.reqs.iter().any(|r| r.ops.iter().any(|op| matches!(op, Op::SInsert(_, v) | Op::CInsert(_, v) if *v >= 253)));
    match r {
        Ok(Err(f)) if deep => Err(Fail::new(format!("value-nested-beyond-the-json-recursion-limit:{}", f.signature), f.message)),
        Ok(r) => r,
        Err(p) => Err(Fail::new(format!("panic:{}", crate::util::panic_sig(&p)), format!("panicked: {p}"))),
    }
}

async fn run(h: &History) -> CaseResult {
    let faulty = !h.fail_calls.is_empty();
    let store = if faulty { pavex_session::SessionStore::new(crate::c12_chaos::FaultyStore::new(&h.fail_calls, &[])) } else { crate::stores::make_store(h.sqlite).await };
    let config = h.cfg.session_config();
    let processor = encrypting_processor(&config.cookie.name);
    let mut w = World::default();
    let mut info = CaseInfo::default();
    let mut reuse_count = 0usize;

    for (ri, req) in h.reqs.iter().enumerate() {
        // ---- which cookie does the client present?
        let presented: Option<IssuedCookie> = match &req.cookie {
            CookieChoice::Jar => w.jar.map(|i| w.issued[i].clone()),
            CookieChoice::Older(raw) => {
                if w.issued.is_empty() { None } else { Some(w.issued[idx(*raw, w.issued.len())].clone()) }
            }
            CookieChoice::Drop => None,
        };
        if presented.is_some() {
            reuse_count += 1;
        }
        let (mut session, had) = new_session(&store, &config, &processor, presented.as_ref().map(|c| c.header.as_str()));
        if had != presented.is_some() {
            return Err(Fail::new(
                "cookie-not-recognised",
                format!("request #{ri}: a cookie issued earlier was presented={} but IncomingSession::extract found a session={had}", presented.is_some()),
            ));
        }
        let mut m = ReqModel::new(&mut w, presented.as_ref(), h.cfg.reject);
        let old_real: Option<String> = presented.as_ref().and_then(|c| w.real.get(&c.sym).cloned());

        let mut ops: Vec<Op> = vec![];
        if req.probe_start {
            for k in 0..KEYS.len() as u8 {
                ops.push(Op::CGet(k));
            }
            for k in 0..KEYS.len() as u8 {
                ops.push(Op::SGet(k));
            }
        }
        ops.extend(req.ops.iter().cloned());

        let mut loaded_then_mutated = false;
        let mut loaded = false;
        for (oi, op) in ops.iter().enumerate() {
            if *op == Op::Sync && faulty {
                // a sync that fails (injected) may leave the store half-way; what the application sees does not change,
                // and the next sync / the finalisation completes the work
                match session.sync().await {
                    Ok(()) => {
                        let _ = m.sync(&mut w);
                        info.lab("op:sync");
                    }
                    Err(_) => info.lab("op:sync-failed(injected)"),
                }
                continue;
            }
            if *op == Op::Sync {
                let expect = m.sync(&mut w);
                let got = session.sync().await;
                match (expect, got) {
                    (SyncOutcome::Ok, Ok(())) => {}
                    (SyncOutcome::RenameOfMissingUnloaded, Err(_)) => {
                        info.lab("sync:expected-error-rename-of-missing-record");
                    }
                    (SyncOutcome::Ok, Err(e)) => {
                        return Err(Fail::new(
                            format!("sync-error:{}", err_kind(&e)),
                            format!("request #{ri} op #{oi}: sync() failed with a fault-free store: {}", err_chain(&e)),
                        ));
                    }
                    (SyncOutcome::RenameOfMissingUnloaded, Ok(())) => {
                        // more lenient than the pinned behaviour: nothing to carry over, fine
                        info.lab("sync:lenient-rename-of-missing-record");
                    }
                }
                info.lab("op:sync");
                continue;
            }
            let was_loaded = m.srv != Srv::Unloaded;
            let (m_before, w_before) = if faulty { (Some(m.clone()), Some(w.clone())) } else { (None, None) };
            let Some(expected) = m.apply(&mut w, op) else {
                info.lab("op:skipped-undocumented(insert-after-delete)");
                continue;
            };
            let got = match real_op(&mut session, op).await {
                Ok(v) => v,
                Err(_) if faulty => {
                    // the store call behind this operation failed: the operation did not happen
                    m = m_before.unwrap();
                    w = w_before.unwrap();
                    info.lab("op:failed(injected)");
                    continue;
                }
                Err(e) => {
                    return Err(Fail::new(
                        format!("op-error:{}", op_kind(op)),
                        format!("request #{ri} op #{oi} {op:?} failed with a fault-free store: {e}"),
                    ));
                }
            };
            if got != expected {
                return Err(Fail::new(
                    format!("op-result:{}", op_kind(op)),
                    format!(
                        "request #{ri} (cookie {:?}) op #{oi} {op:?}: session returned {got}, the reference model says {expected}\nhistory so far: {:?}",
                        req.cookie,
                        &h.reqs[..=ri]
                    ),
                ));
            }
            if matches!(op, Op::SInsert(..) | Op::SRemove(_) | Op::SClear) && was_loaded && presented.is_some() {
                loaded_then_mutated = true;
            }
            if matches!(op, Op::CycleId | Op::SDelete | Op::Invalidate) {
                info.set_nontrivial(true);
            }
            loaded |= m.srv != Srv::Unloaded;
        }
        let _ = loaded;
        if loaded_then_mutated && reuse_count >= 1 {
            info.set_nontrivial(true);
            info.lab("req:mutation-after-load-on-existing-session");
        }

        // ---- finalisation
        let id_before = m.id;
        let expect_sync = m.sync(&mut w);
        let fin = real_finalize(session, &processor, &config.cookie.name).await?;
        let new_sym = m.id.cur();
        if faulty && matches!(fin, Finalized::Err(..)) {
            // the request failed: nothing is promised about what the next request sees
            info.lab("finalize:failed(injected), case ends");
            return Ok(info);
        }
        match fin {
            Finalized::Err(kind, chain) => match expect_sync {
                SyncOutcome::RenameOfMissingUnloaded => {
                    info.lab("finalize:expected-error-rename-of-missing-record");
                    // nothing changed; the client keeps what it had
                }
                SyncOutcome::Ok => {
                    return Err(Fail::new(
                        format!("finalize-error:{kind}"),
                        format!("request #{ri}: finalize_session failed with a fault-free store: {chain}\nhistory: {:?}", &h.reqs[..=ri]),
                    ));
                }
            },
            Finalized::NoCookie => {
                if matches!(expect_sync, SyncOutcome::RenameOfMissingUnloaded) {
                    info.lab("finalize:lenient-rename-of-missing-record");
                }
                let server_empty = w.store.get(&new_sym).map(|m| m.is_empty()).unwrap_or(true);
                let nothing_to_carry = (m.inv && !m.had_incoming)
                    || (!m.inv && !m.had_incoming && m.client.is_empty() && server_empty);
                if !nothing_to_carry {
                    return Err(Fail::new(
                        "no-cookie-but-state",
                        format!(
                            "request #{ri}: no session cookie was emitted although there is state to carry over (had_incoming={}, invalidated={}, client={:?}, server={:?})",
                            m.had_incoming, m.inv, m.client, w.store.get(&new_sym)
                        ),
                    ));
                }
                info.lab("finalize:no-cookie");
            }
            Finalized::Cookie(em) => {
                if em.is_removal {
                    // required when the client had a session; harmless (and accepted) for a
                    // fresh session that was invalidated after an explicit sync()
                    if !m.inv {
                        return Err(Fail::new(
                            "unexpected-removal-cookie",
                            format!("request #{ri}: removal cookie emitted, but invalidated={} had_incoming={}", m.inv, m.had_incoming),
                        ));
                    }
                    info.lab(if m.had_incoming { "finalize:removal-cookie" } else { "finalize:removal-cookie-for-fresh-session" });
                    w.jar = None;
                } else {
                    if m.inv {
                        return Err(Fail::new(
                            "cookie-after-invalidate",
                            format!("request #{ri}: the session was invalidated but a regular session cookie was emitted: {}", em.plain_value),
                        ));
                    }
                    let (real_id, client) = parse_plain(&em.plain_value).map_err(|e| Fail::new("cookie-format", e))?;
                    if client != m.client {
                        return Err(Fail::new(
                            "cookie-client-state",
                            format!("request #{ri}: cookie carries client state {client:?}, the request ended with {:?}", m.client),
                        ));
                    }
                    // identity of the id
                    match w.real.get(&new_sym) {
                        Some(known) if *known != real_id => {
                            return Err(Fail::new(
                                "id-changed-without-cycle",
                                format!("request #{ri}: the session id changed from {known} to {real_id} without cycle_id()"),
                            ));
                        }
                        Some(_) => {}
                        None => {
                            if let Some(other) = w.sym_of_real(&real_id) {
                                return Err(Fail::new(
                                    "id-not-fresh",
                                    format!("request #{ri}: after cycle_id()/for a new session the cookie carries the id of another session (sym {other})"),
                                ));
                            }
                            w.real.insert(new_sym, real_id.clone());
                        }
                    }
                    w.issued.push(IssuedCookie {
                        sym: new_sym,
                        client: m.client.clone(),
                        header: cookie_header_from_set_cookie(&em.set_cookie),
                    });
                    w.jar = Some(w.issued.len() - 1);
                    info.lab("finalize:cookie");
                }
            }
        }

        // ---- after cycle_id / invalidate: nothing is reachable under the old id any more
        if let (Some(old_real), true) = (
            &old_real,
            matches!(expect_sync, SyncOutcome::Ok) && (m.inv || matches!(id_before, IdK::Renamed { .. })),
        ) {
            if let Some(rec) = load_real(&store, old_real).await.map_err(|e| Fail::new("store-load-error", e))? {
                return Err(Fail::new(
                    if m.inv { "record-survives-invalidate" } else { "record-survives-cycle-id" },
                    format!("request #{ri}: the record {rec:?} is still stored under the old session id"),
                ));
            }
        }

        // ---- compare the whole store with the model (every id we can name)
        let syms: Vec<(usize, String)> = w.real.iter().map(|(s, r)| (*s, r.clone())).collect();
        for (sym, real) in syms {
            let actual = load_real(&store, &real).await.map_err(|e| Fail::new("store-load-error", e))?;
            if w.maybe_empty.remove(&sym) {
                match &actual {
                    None => {
                        w.store.remove(&sym);
                    }
                    Some(a) if a.is_empty() => {
                        w.store.insert(sym, Map::new());
                    }
                    Some(a) => {
                        return Err(Fail::new(
                            "store-mismatch",
                            format!("request #{ri}: store holds {a:?} for a session whose server state is empty in the model"),
                        ));
                    }
                }
                continue;
            }
            let expected = w.store.get(&sym).cloned();
            if actual != expected {
                return Err(Fail::new(
                    "store-mismatch",
                    format!(
                        "request #{ri} (cookie {:?}): after finalisation the store holds {actual:?} for session sym#{sym}, the reference model says {expected:?}\nhistory: {:?}",
                        req.cookie,
                        &h.reqs[..=ri]
                    ),
                ));
            }
        }
        // unresolved maybe-empty entries belong to ids no client can present
        let real = &w.real;
        w.maybe_empty.retain(|s| real.contains_key(s));
    }
    if reuse_count >= 2 {
        info.lab("history:>=2-requests-with-a-cookie");
    }
    Ok(info)
}

pub fn err_kind(e: &dyn std::fmt::Debug) -> String {
    let s = format!("{e:?}");
    s.split(['(', '{', ' ']).next().unwrap_or("").to_string()
}

pub fn err_chain(e: &(dyn std::error::Error + 'static)) -> String {
    let mut chain = format!("{e}");
    let mut src = e.source();
    while let Some(s) = src {
        chain.push_str(&format!(" <- {s}"));
        src = s.source();
    }
    chain
}

// ------------------------------------------------------------------------------------------
// Generators
// ------------------------------------------------------------------------------------------

pub fn cfg_strategy() -> impl Strategy<Value = Cfg> {
    (any::<bool>(), any::<bool>(), any::<bool>(), 0u8..4, any::<bool>()).prop_map(
        |(never_skip, reject, extend_on_loads, threshold, persistent)| Cfg {
            never_skip,
            reject,
            extend_on_loads,
            threshold,
            persistent,
        },
    )
}

pub fn op_strategy(with_sync: bool) -> BoxedStrategy<Op> {
    let k = 0u8..4;
    let v = 0u8..12;
    prop_oneof![
        4 => k.clone().prop_map(Op::SGet),
        6 => (k.clone(), v.clone()).prop_map(|(k, v)| Op::SInsert(k, v)),
        4 => k.clone().prop_map(Op::SRemove),
        2 => Just(Op::SClear),
        2 => Just(Op::SIsEmpty),
        1 => Just(Op::SDelete),
        1 => Just(Op::SForceLoad),
        3 => k.clone().prop_map(Op::CGet),
        4 => (k.clone(), v).prop_map(|(k, v)| Op::CInsert(k, v)),
        3 => k.prop_map(Op::CRemove),
        1 => Just(Op::CClear),
        1 => Just(Op::CIsEmpty),
        2 => Just(Op::CycleId),
        if with_sync { 2 } else { 0 } => Just(Op::Sync),
        1 => Just(Op::Invalidate),
    ]
    .boxed()
}

pub fn req_strategy(with_sync: bool) -> impl Strategy<Value = Req> {
    (
        prop_oneof![
            8 => Just(CookieChoice::Jar),
            2 => any::<u16>().prop_map(CookieChoice::Older),
            1 => Just(CookieChoice::Drop),
        ],
        prop::bool::weighted(0.3),
        prop::collection::vec(op_strategy(with_sync), 0..=8),
    )
        .prop_map(|(cookie, probe_start, ops)| Req { cookie, probe_start, ops })
}

pub fn history_strategy(sqlite: bool, with_sync: bool) -> impl Strategy<Value = History> {
    (cfg_strategy(), prop::collection::vec(req_strategy(with_sync), 1..=7))
        .prop_map(move |(cfg, reqs)| History { cfg, sqlite, reqs, fail_calls: vec![] })
}

pub fn main(mut chk: Check) -> ! {
    chk.ev.rule = "case = session configuration (creation policy x missing-state policy x TTL trigger x threshold x cookie kind) + a history of 1-7 requests, each presenting the cookie the client holds / an older cookie / none, each running 0-8 session operations (server get/insert/remove/clear/is_empty/delete/force_load, client get/insert/remove/clear/is_empty, cycle_id, sync, invalidate) through the real extract->Session::new->ops->finalize_session->inject pipeline with real cookie encryption; every op result, every emitted cookie and the whole store are compared with a map-based model after every step. non-trivial = a server-side mutation after the state of a pre-existing session was loaded, or a cycle_id/delete/invalidate anywhere; distinct = distinct serialised history".into();
    chk.ev.assume("whether an *empty* server record is created for a session is a policy decision outside the property: absent and empty records are both accepted and the model follows the observation");
    chk.ev.assume("server-side inserts between delete() and the next sync() are not executed (effect not documented)");
    chk.ev.assume("cycle_id() on a never-loaded session whose record is gone may fail (pinned by an upstream test); the store is fault-free otherwise");
    if let Some(p) = chk.settings.replay.clone() {
        if !chk.replay_one::<History, _>("histories", &p, oracle) {
            eprintln!("replay file {} does not belong to C11", p.display());
            std::process::exit(2);
        }
        chk.finish();
    }
    for p in chk.committed_replays() {
        chk.replay_one::<History, _>("histories", &p, oracle);
    }
    let n = chk.tier().pick(100_000, 600_000);
    chk.run("histories", n, history_strategy(false, true), oracle);
    let n2 = chk.tier().pick(7_500, 60_000);
    chk.run("histories-sqlite", n2, history_strategy(true, true), oracle);
    // third campaign: transient store errors (1-4 store calls of the history fail); failed operations and failed
    // syncs are invisible to the application, a later sync / the finalisation completes the work; after a successful
    // finalisation everything above is asserted as usual
    chk.ev.rule.push_str(" || campaign transient-store-errors: the same histories against a store wrapper that fails 1-4 chosen store calls: a failed operation leaves the model untouched, a failed sync() is retried by the next sync / the finalisation, a failing finalisation ends the case; after a successful finalisation the emitted cookie, the store content and the next request's observations are asserted as in the first campaign");
    let n3 = chk.tier().pick(40_000, 300_000);
    let faulty = (history_strategy(false, true), prop::collection::vec(0u8..20, 1..=4)).prop_map(|(mut h, f)| {
        h.fail_calls = f;
        h
    });
    chk.run("transient-store-errors", n3, faulty, oracle);
    chk.finish()
}
