//! Construction of the bundled session stores.
use pavex_session::SessionStore;
use pavex_session_memory_store::InMemorySessionStore;
use pavex_session_sqlx::SqliteSessionStore;
use sqlx::sqlite::{SqliteConnectOptions, SqlitePoolOptions};

pub async fn sqlite_memory() -> SqliteSessionStore {
    // one connection: every connection to `sqlite::memory:` is its own database
    let pool = SqlitePoolOptions::new()
        .max_connections(1)
        .connect_with(SqliteConnectOptions::new().in_memory(true))
        .await
        .expect("sqlite in-memory pool");
    let s = SqliteSessionStore::new(pool);
    s.migrate().await.expect("migrate");
    s
}

pub async fn sqlite_file(path: &std::path::Path, connections: u32) -> SqliteSessionStore {
    let _ = std::fs::remove_file(path);
    let pool = SqlitePoolOptions::new()
        .max_connections(connections)
        .connect_with(
            SqliteConnectOptions::new()
                .filename(path)
                .create_if_missing(true)
                .busy_timeout(std::time::Duration::from_secs(20)),
        )
        .await
        .expect("sqlite file pool");
    let s = SqliteSessionStore::new(pool);
    s.migrate().await.expect("migrate");
    s
}

pub async fn make_store(sqlite: bool) -> SessionStore {
    if sqlite {
        SessionStore::new(sqlite_memory().await)
    } else {
        SessionStore::new(InMemorySessionStore::new())
    }
}
