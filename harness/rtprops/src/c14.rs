//! C14 — a buffered request body never exceeds the configured size limit.
use std::collections::VecDeque;
use std::pin::Pin;
use std::task::{Context, Poll};

use bytes::Bytes;
use http_body::{Body, Frame};
use pavex::request::RequestHead;
use pavex::request::body::errors::{ExtractBufferedBodyError, ExtractJsonBodyError, ExtractUrlEncodedBodyError};
use pavex::request::body::{BodySizeLimit, BufferedBody, JsonBody, RawIncomingBody, UrlEncodedBody};
use pavex::unit::ToByteUnit;
use proptest::prelude::*;
use serde::{Deserialize, Serialize};
use vcommon::{CaseInfo, CaseResult, Check, Fail, idx};

#[derive(Clone, Debug, Serialize, Deserialize, PartialEq)]
pub enum Cl {
    Absent,
    Truthful,
    /// declares `total - min(delta, total)`
    Smaller(u16),
    /// declares something in `(total, N]` (if that interval is empty: N)
    LargerWithinLimit(u16),
    /// declares `N + 1 + delta`
    LargerAboveLimit(u16),
    /// 2^64: does not fit a usize
    Huge,
    /// index into GARBAGE
    Garbage(u8),
}

/// (header value, numeric readings a lenient parser might come up with)
const GARBAGE: &[(&str, &[u64])] = &[
    ("abc", &[]),
    (" 12", &[12]),
    ("12 ", &[12]),
    ("-1", &[]),
    ("+5", &[5]),
    ("1e3", &[1000, 1]),
    ("", &[]),
    ("0x10", &[16, 0]),
    ("7,7", &[7]),
    ("007", &[7]),
];

#[derive(Clone, Debug, Serialize, Deserialize)]
pub struct Case {
    pub limit: u32,
    pub total: u32,
    /// cut positions (monotone-mapped into 0..=total)
    pub cuts: Vec<u16>,
    /// positions (in the frame list) at which an empty data frame is inserted
    pub empties: Vec<u8>,
    pub trailers: bool,
    pub cl: Cl,
    /// 0 = BufferedBody only, 1 = + JsonBody<String>, 2 = + UrlEncodedBody<{a: String}>
    pub extractor: u8,
    /// frame index after which the stream yields an error (None = never)
    pub stream_error_after: Option<u8>,
    /// bit i set => the body answers `Poll::Pending` once (waking itself) before it yields frame i
    #[serde(default)]
    pub pending_before: u16,
    /// the request head also carries `Transfer-Encoding: chunked` (what hyper hands over when a client sends both headers)
    #[serde(default)]
    pub te_header: bool,
}

fn byte_at(i: usize, extractor: u8, total: usize) -> u8 {
    match extractor % 3 {
        1 => {
            // a JSON string: "xxxx"
            if i == 0 || i + 1 == total { b'"' } else { b'a' + (i % 26) as u8 }
        }
        2 => {
            // a form: a=xxxx
            match i {
                0 => b'a',
                1 => b'=',
                _ => b'a' + (i % 26) as u8,
            }
        }
        _ => (i.wrapping_mul(31).wrapping_add(7) % 251) as u8,
    }
}

fn body_bytes(c: &Case) -> Vec<u8> {
    let total = c.total as usize;
    (0..total).map(|i| byte_at(i, c.extractor, total)).collect()
}

enum Piece {
    Data(Bytes),
    Trailers,
    Error,
}

struct Frames {
    pieces: VecDeque<Piece>,
    pending_before: u16,
    yielded: usize,
}

#[derive(Debug)]
struct StreamBroke;
impl std::fmt::Display for StreamBroke {
    fn fmt(&self, f: &mut std::fmt::Formatter<'_>) -> std::fmt::Result {
        write!(f, "the body stream broke (injected)")
    }
}
impl std::error::Error for StreamBroke {}

impl Body for Frames {
    type Data = Bytes;
    type Error = Box<dyn std::error::Error + Send + Sync>;
    fn poll_frame(mut self: Pin<&mut Self>, cx: &mut Context<'_>) -> Poll<Option<Result<Frame<Bytes>, Self::Error>>> {
        let i = self.yielded;
        if i < 16 && self.pending_before & (1 << i) != 0 {
            // suspend once before this frame (the waker is invoked right away, so the poller comes back)
            self.pending_before &= !(1 << i);
            cx.waker().wake_by_ref();
            return Poll::Pending;
        }
        self.yielded += 1;
        Poll::Ready(match self.pieces.pop_front() {
            None => None,
            Some(Piece::Data(b)) => Some(Ok(Frame::data(b))),
            Some(Piece::Trailers) => {
                let mut h = pavex::http::HeaderMap::new();
                h.insert("x-trailer", pavex::http::HeaderValue::from_static("1"));
                Some(Ok(Frame::trailers(h)))
            }
            Some(Piece::Error) => Some(Err(Box::new(StreamBroke))),
        })
    }
}

fn frames(c: &Case, body: &[u8]) -> (Vec<Piece>, usize /*data frames*/, usize /* bytes delivered before an injected error */, bool) {
    let total = body.len();
    let mut cuts: Vec<usize> = c.cuts.iter().map(|r| idx(*r, total + 1)).collect();
    cuts.sort();
    cuts.dedup();
    let mut pieces = vec![];
    let mut prev = 0usize;
    for cut in cuts.into_iter().chain(std::iter::once(total)) {
        if cut > prev {
            pieces.push(Piece::Data(Bytes::copy_from_slice(&body[prev..cut])));
            prev = cut;
        }
    }
    for e in &c.empties {
        let pos = (*e as usize) % (pieces.len() + 1);
        pieces.insert(pos, Piece::Data(Bytes::new()));
    }
    let n_data = pieces.len();
    let mut delivered = total;
    let mut errored = false;
    if let Some(k) = c.stream_error_after {
        let k = (k as usize) % (pieces.len() + 1);
        delivered = pieces[..k]
            .iter()
            .map(|p| if let Piece::Data(b) = p { b.len() } else { 0 })
            .sum();
        pieces.truncate(k);
        pieces.push(Piece::Error);
        errored = true;
    } else if c.trailers {
        pieces.push(Piece::Trailers);
    }
    (pieces, n_data, delivered, errored)
}

/// Header value and the numeric readings it admits.
fn content_length(c: &Case) -> (Option<String>, Vec<u64>) {
    let (n, total) = (c.limit as u64, c.total as u64);
    match &c.cl {
        Cl::Absent => (None, vec![]),
        Cl::Truthful => (Some(total.to_string()), vec![total]),
        Cl::Smaller(d) => {
            let v = total - (*d as u64).min(total);
            (Some(v.to_string()), vec![v])
        }
        Cl::LargerWithinLimit(d) => {
            let v = if total < n { total + 1 + (*d as u64) % (n - total) } else { n };
            (Some(v.to_string()), vec![v])
        }
        Cl::LargerAboveLimit(d) => {
            let v = n + 1 + *d as u64;
            (Some(v.to_string()), vec![v])
        }
        Cl::Huge => (Some("18446744073709551616".into()), vec![u64::MAX]),
        Cl::Garbage(g) => {
            let (s, r) = GARBAGE[*g as usize % GARBAGE.len()];
            (Some(s.to_string()), r.to_vec())
        }
    }
}

fn head(cl: Option<&str>, content_type: Option<&str>) -> RequestHead {
    let mut headers = pavex::http::HeaderMap::new();
    if let Some(v) = cl {
        headers.insert(pavex::http::header::CONTENT_LENGTH, pavex::http::HeaderValue::from_str(v).unwrap());
    }
    if let Some(ct) = content_type {
        headers.insert(pavex::http::header::CONTENT_TYPE, pavex::http::HeaderValue::from_str(ct).unwrap());
    }
    RequestHead {
        method: pavex::http::Method::POST,
        target: "/".parse().unwrap(),
        version: pavex::http::Version::HTTP_11,
        headers,
    }
}

thread_local! {
    static RT: tokio::runtime::Runtime = tokio::runtime::Builder::new_current_thread().enable_all().build().unwrap();
}

#[derive(Deserialize, Debug, PartialEq)]
struct FormA {
    a: String,
}

/// The verdict rules shared by the in-process and the loopback variants.
fn judge(
    what: &str,
    n: u64,
    sent_total: u64,
    readings: &[u64],
    stream_errored: bool,
    outcome: &Result<Vec<u8>, String /* error kind */>,
    expected_bytes: &[u8],
    info: &mut CaseInfo,
) -> Result<(), Fail> {
    let declared_over = readings.iter().any(|r| *r > n);
    match outcome {
        Ok(b) => {
            if b.len() as u64 > n {
                return Err(Fail::new(
                    format!("{what}:over-limit-body-accepted"),
                    format!("limit {n} bytes: the extractor handed {} bytes to the application (sent {sent_total}, declared readings {readings:?})", b.len()),
                ));
            }
            if stream_errored {
                return Err(Fail::new(
                    format!("{what}:ok-despite-stream-error"),
                    format!("limit {n}: the body stream broke but the extractor returned Ok with {} bytes", b.len()),
                ));
            }
            if b.as_slice() != expected_bytes {
                return Err(Fail::new(
                    format!("{what}:bytes-differ"),
                    format!("limit {n}: the buffered body ({} bytes) is not byte-identical to what was sent ({} bytes)", b.len(), expected_bytes.len()),
                ));
            }
            info.lab("outcome:ok");
        }
        Err(kind) if kind == "SizeLimitExceeded" => {
            if !(sent_total > n || declared_over) {
                return Err(Fail::new(
                    format!("{what}:spurious-size-limit-error"),
                    format!("limit {n}: size-limit error although only {sent_total} bytes were sent and the Content-Length readings are {readings:?}"),
                ));
            }
            info.lab("outcome:size-limit");
        }
        Err(kind) => {
            if !stream_errored {
                return Err(Fail::new(
                    format!("{what}:unexpected-error:{kind}"),
                    format!("limit {n}: extraction failed with {kind} although the stream did not fail (sent {sent_total}, readings {readings:?})"),
                ));
            }
            info.lab("outcome:stream-error");
        }
    }
    Ok(())
}

pub fn oracle(c: &Case) -> CaseResult {
    let r = crate::util::catch(|| RT.with(|rt| rt.block_on(run(c))));
    match r {
        Ok(r) => r,
        Err(p) => Err(Fail::new(format!("panic:{}", crate::util::panic_sig(&p)), format!("panicked: {p}"))),
    }
}

fn nontrivial(c: &Case, n_data: usize) -> bool {
    let (n, t) = (c.limit as u64, c.total as u64);
    t == n || t == n + 1 || (n_data >= 3 && t > n) || !matches!(c.cl, Cl::Absent | Cl::Truthful)
}

async fn run(c: &Case) -> CaseResult {
    let mut info = CaseInfo::default();
    let body = body_bytes(c);
    let (pieces, n_data, delivered, errored) = frames(c, &body);
    let (cl, readings) = content_length(c);
    let ct = match c.extractor % 3 {
        1 => Some("application/json"),
        2 => Some("application/x-www-form-urlencoded"),
        _ => None,
    };
    let mut h = head(cl.as_deref(), ct);
    if c.te_header {
        h.headers.insert(pavex::http::header::TRANSFER_ENCODING, pavex::http::HeaderValue::from_static("chunked"));
    }
    let n = c.limit as u64;
    let r = BufferedBody::verif_extract_with_limit(&h, Frames { pieces: pieces.into(), pending_before: c.pending_before, yielded: 0 }, (c.limit as u64).bytes()).await;
    let outcome: Result<Vec<u8>, String> = match &r {
        Ok(b) => Ok(b.bytes.to_vec()),
        Err(ExtractBufferedBodyError::SizeLimitExceeded(_)) => Err("SizeLimitExceeded".into()),
        Err(ExtractBufferedBodyError::UnexpectedBufferError(_)) => Err("UnexpectedBufferError".into()),
        Err(e) => Err(format!("{e:?}")),
    };
    // if the stream breaks, the bytes delivered before the break may or may not already exceed N
    let sent = if errored { delivered as u64 } else { body.len() as u64 };
    if errored {
        // a size-limit error is fine only if the limit was already exceeded (or declared so);
        // the other acceptable outcome is the stream error itself
        if let Ok(b) = &outcome {
            return Err(Fail::new("in-process:ok-despite-stream-error", format!("returned {} bytes although the stream broke", b.len())));
        }
    }
    judge("in-process", n, sent, &readings, errored, &outcome, &body, &mut info)?;
    // must-accept clause: within the limit and nothing (plausibly) declares otherwise
    if !errored && body.len() as u64 <= n && readings.iter().all(|r| *r <= n) && outcome.is_err() {
        return Err(Fail::new(
            "in-process:within-limit-rejected",
            format!("limit {n}: a {}-byte body with Content-Length {cl:?} was rejected: {outcome:?}", body.len()),
        ));
    }
    // the extractors built on top see the same bytes
    if let Ok(b) = r {
        match c.extractor % 3 {
            1 if body.len() >= 2 => match JsonBody::<String>::extract(&h, &b) {
                Ok(JsonBody(s)) => {
                    if s.len() as u64 > n || s.as_bytes() != &body[1..body.len() - 1] {
                        return Err(Fail::new("in-process:json-differs", format!("JsonBody saw {} bytes, sent {}", s.len(), body.len())));
                    }
                    info.lab("extractor:json-ok");
                }
                Err(ExtractJsonBodyError::DeserializationError(e)) => {
                    return Err(Fail::new("in-process:json-rejected", format!("valid JSON string of {} bytes rejected: {e}", body.len())));
                }
                Err(e) => return Err(Fail::new("in-process:json-rejected", format!("{e:?}"))),
            },
            2 if body.len() >= 2 => match UrlEncodedBody::<FormA>::extract(&h, &b) {
                Ok(UrlEncodedBody(f)) => {
                    if f.a.len() as u64 > n || f.a.as_bytes() != &body[2..] {
                        return Err(Fail::new("in-process:form-differs", format!("UrlEncodedBody saw {} bytes, sent {}", f.a.len(), body.len())));
                    }
                    info.lab("extractor:form-ok");
                }
                Err(ExtractUrlEncodedBodyError::DeserializationError(e)) => {
                    return Err(Fail::new("in-process:form-rejected", format!("valid form of {} bytes rejected: {e}", body.len())));
                }
                Err(e) => return Err(Fail::new("in-process:form-rejected", format!("{e:?}"))),
            },
            _ => {}
        }
    }
    if nontrivial(c, n_data) {
        info.set_nontrivial(true);
    }
    info.lab(format!("cl:{}", cl_name(&c.cl)));
    if c.total as u64 == n {
        info.lab("boundary:len==N");
    }
    if c.total as u64 == n + 1 {
        info.lab("boundary:len==N+1");
    }
    Ok(info)
}

fn cl_name(cl: &Cl) -> &'static str {
    match cl {
        Cl::Absent => "absent",
        Cl::Truthful => "truthful",
        Cl::Smaller(_) => "smaller",
        Cl::LargerWithinLimit(_) => "larger-within-limit",
        Cl::LargerAboveLimit(_) => "larger-above-limit",
        Cl::Huge => "2^64",
        Cl::Garbage(_) => "garbage",
    }
}

// ------------------------------------------------------------------------------------------
// Loopback variant: the real `BufferedBody::extract` behind `pavex::server::Server`, a raw TCP
// client controlling the framing.
// ------------------------------------------------------------------------------------------

async fn loop_handler(
    req: hyper::Request<hyper::body::Incoming>,
    _c: Option<pavex::connection::ConnectionInfo>,
    _s: (),
) -> pavex::Response {
    let (parts, body) = req.into_parts();
    let limit: u64 = parts.headers.get("x-limit").and_then(|v| v.to_str().ok()).and_then(|v| v.parse().ok()).unwrap_or(0);
    let head: RequestHead = parts.into();
    if std::env::var("VERIF_DEBUG").is_ok() {
        eprintln!("debug: headers seen by the handler {:?}", head.headers);
    }
    let r = BufferedBody::extract(&head, RawIncomingBody::from(body), BodySizeLimit::Enabled { max_size: limit.bytes() }).await;
    let text = match r {
        Ok(b) => format!("ok {} {}", b.bytes.len(), hex(&b.bytes)),
        Err(ExtractBufferedBodyError::SizeLimitExceeded(_)) => "err SizeLimitExceeded".to_string(),
        Err(ExtractBufferedBodyError::UnexpectedBufferError(e)) => format!("err UnexpectedBufferError {e:?}"),
        Err(e) => format!("err {e:?}"),
    };
    pavex::Response::ok().set_typed_body(text)
}

fn hex(b: &[u8]) -> String {
    let mut s = String::with_capacity(b.len() * 2);
    for x in b {
        s.push_str(&format!("{x:02x}"));
    }
    s
}

fn unhex(s: &str) -> Vec<u8> {
    (0..s.len() / 2).map(|i| u8::from_str_radix(&s[2 * i..2 * i + 2], 16).unwrap_or(0)).collect()
}

/// The same handler behind hyper's plain HTTP/1 connection driver (one task per connection).
fn raw_hyper_addr() -> std::net::SocketAddr {
    static ADDR: std::sync::OnceLock<std::net::SocketAddr> = std::sync::OnceLock::new();
    *ADDR.get_or_init(|| {
        let rt: &'static tokio::runtime::Runtime = Box::leak(Box::new(
            tokio::runtime::Builder::new_multi_thread().worker_threads(2).enable_all().build().unwrap(),
        ));
        let listener = rt.block_on(async { tokio::net::TcpListener::bind("127.0.0.1:0").await.unwrap() });
        let addr = listener.local_addr().unwrap();
        rt.spawn(async move {
            loop {
                let Ok((stream, _)) = listener.accept().await else { continue };
                tokio::spawn(async move {
                    let service = hyper::service::service_fn(|req: hyper::Request<hyper::body::Incoming>| async move {
                        let resp: hyper::Response<pavex::response::ResponseBody> = loop_handler(req, None, ()).await.into();
                        Ok::<_, std::convert::Infallible>(resp)
                    });
                    let _ = hyper::server::conn::http1::Builder::new().serve_connection(hyper_util::rt::TokioIo::new(stream), service).await;
                });
            }
        });
        addr
    })
}

fn server_addr() -> std::net::SocketAddr {
    static ADDR: std::sync::OnceLock<std::net::SocketAddr> = std::sync::OnceLock::new();
    *ADDR.get_or_init(|| {
        // the listener is registered with this runtime's reactor: it must stay alive (and be
        // driven by a background thread) for as long as the server is used
        let rt: &'static tokio::runtime::Runtime = Box::leak(Box::new(
            tokio::runtime::Builder::new_multi_thread().worker_threads(1).enable_all().build().unwrap(),
        ));
        rt.block_on(async {
            let incoming = pavex::server::IncomingStream::bind("127.0.0.1:0".parse().unwrap()).await.unwrap();
            let addr = incoming.local_addr().unwrap();
            let handle = pavex::server::Server::new()
                .set_config(pavex::server::ServerConfiguration::new().set_n_workers(2))
                .listen(incoming)
                .serve(loop_handler, ());
            std::mem::forget(handle);
            addr
        })
    })
}

#[derive(Clone, Debug, Serialize, Deserialize)]
pub struct WireCase {
    pub limit: u32,
    pub total: u32,
    pub cuts: Vec<u16>,
    /// None = `Content-Length: total` framing; Some(x) = chunked framing, with an extra
    /// (lying or not) Content-Length header placed before Transfer-Encoding when x is Some
    pub chunked: Option<Option<Cl>>,
    /// how the chunked transfer coding is spelled in the request head (all of these mean "chunked" to an HTTP/1.1 server)
    #[serde(default)]
    pub te_spelling: u8,
    /// the extractor sits behind hyper's own HTTP/1 connection driver (`hyper::server::conn::http1`) instead of
    /// `pavex::server::Server`: there a Content-Length header that precedes Transfer-Encoding reaches the application
    #[serde(default)]
    pub raw_hyper: bool,
}

const TE_SPELLINGS: &[&str] = &[
    "Transfer-Encoding: chunked\r\n",
    "Transfer-Encoding: Chunked\r\n",
    "transfer-encoding: CHUNKED\r\n",
    "Transfer-Encoding: gzip, chunked\r\n",
    "Transfer-Encoding: gzip\r\nTransfer-Encoding: chunked\r\n",
    "Transfer-Encoding:chunked\r\n",
    "Transfer-Encoding: identity, chunked\r\n",
];

struct WirePlan {
    reqhead: String,
    chunks: Vec<Vec<u8>>,
    readings: Vec<u64>,
    body: Vec<u8>,
}

/// `salt` selects the byte pattern of the body (two requests in flight at once carry different bytes).
fn wire_plan(c: &WireCase, salt: u8) -> WirePlan {
    let total = c.total as usize;
    let body: Vec<u8> = (0..total).map(|i| if salt == 0 { byte_at(i, 0, total) } else { (i.wrapping_mul(17).wrapping_add(salt as usize * 29) % 241) as u8 }).collect();
    let n = c.limit as u64;
    let mut cuts: Vec<usize> = c.cuts.iter().map(|r| idx(*r, total + 1)).collect();
    cuts.sort();
    cuts.dedup();
    let mut chunks: Vec<Vec<u8>> = vec![];
    let mut prev = 0;
    for cut in cuts.into_iter().chain(std::iter::once(total)) {
        if cut > prev {
            chunks.push(body[prev..cut].to_vec());
            prev = cut;
        }
    }
    let mut readings = vec![];
    let mut reqhead = format!("POST / HTTP/1.1\r\nHost: localhost\r\nConnection: close\r\nx-limit: {n}\r\n");
    match &c.chunked {
        None => {
            reqhead.push_str(&format!("Content-Length: {total}\r\n"));
            readings.push(total as u64);
        }
        Some(extra) => {
            if let Some(cl) = extra {
                let fake = Case {
                    limit: c.limit,
                    total: c.total,
                    cuts: vec![],
                    empties: vec![],
                    trailers: false,
                    cl: cl.clone(),
                    extractor: 0,
                    stream_error_after: None,
                    pending_before: 0,
                    te_header: false,
                };
                let (v, r) = content_length(&fake);
                if let Some(v) = v {
                    if !v.is_empty() && v.trim() == v {
                        reqhead.push_str(&format!("Content-Length: {v}\r\n"));
                        readings = r;
                    }
                }
            }
            reqhead.push_str(TE_SPELLINGS[c.te_spelling as usize % TE_SPELLINGS.len()]);
        }
    }
    reqhead.push_str("\r\n");
    WirePlan { reqhead, chunks, readings, body }
}

fn write_chunk(s: &mut std::net::TcpStream, chunked: bool, ch: &[u8]) -> std::io::Result<()> {
    use std::io::Write;
    if chunked {
        s.write_all(format!("{:x}\r\n", ch.len()).as_bytes()).and_then(|_| s.write_all(ch)).and_then(|_| s.write_all(b"\r\n"))?;
    } else {
        s.write_all(ch)?;
    }
    s.flush()
}

pub fn wire_oracle(c: &WireCase) -> CaseResult {
    use std::io::{Read, Write};
    let addr = if c.raw_hyper { raw_hyper_addr() } else { server_addr() };
    let plan = wire_plan(c, 0);
    let io = |e: std::io::Error| Fail::new("loopback:io", format!("{e}"));
    let mut s = std::net::TcpStream::connect(addr).map_err(io)?;
    s.set_read_timeout(Some(std::time::Duration::from_secs(20))).ok();
    s.set_nodelay(true).ok();
    s.write_all(plan.reqhead.as_bytes()).map_err(io)?;
    let mut write_failed = false;
    for ch in &plan.chunks {
        if write_chunk(&mut s, c.chunked.is_some(), ch).is_err() {
            write_failed = true; // the server may legitimately stop reading once it has answered
            break;
        }
        std::thread::yield_now();
    }
    if c.chunked.is_some() && !write_failed {
        let _ = s.write_all(b"0\r\n\r\n");
    }
    let mut resp = Vec::new();
    let _ = s.read_to_end(&mut resp);
    wire_judge(c, &plan, String::from_utf8_lossy(&resp).to_string())
}

fn wire_judge(c: &WireCase, plan: &WirePlan, resp: String) -> CaseResult {
    if std::env::var("VERIF_DEBUG").is_ok() {
        eprintln!("debug: request head {:?}\ndebug: response {:?}", plan.reqhead, resp);
    }
    let (reqhead, chunks, readings, body) = (&plan.reqhead, &plan.chunks, &plan.readings, &plan.body);
    let n = c.limit as u64;
    let mut info = CaseInfo::default();
    let Some((status_line, rest)) = resp.split_once("\r\n") else {
        // hyper itself rejected the message (e.g. conflicting framing headers): nothing reached the application
        info.lab("loopback:no-response(transport-rejected)");
        return Ok(info);
    };
    if !status_line.contains(" 200 ") {
        info.lab(format!("loopback:transport-status:{}", status_line.split(' ').nth(1).unwrap_or("?")));
        return Ok(info);
    }
    let payload = rest.split("\r\n\r\n").nth(1).unwrap_or("").trim().to_string();
    // chunked response bodies: take the last token-bearing line
    let line = payload.lines().find(|l| l.starts_with("ok ") || l.starts_with("err ")).unwrap_or("").to_string();
    let outcome: Result<Vec<u8>, String> = if let Some(r) = line.strip_prefix("ok ") {
        let mut it = r.split(' ');
        let _len = it.next();
        Ok(unhex(it.next().unwrap_or("")))
    } else if let Some(r) = line.strip_prefix("err ") {
        Err(r.split(' ').next().unwrap_or("").to_string())
    } else {
        return Err(Fail::new("loopback:unparsable-response", resp));
    };
    // With a lying Content-Length *and* chunked framing hyper decides which one frames the body;
    // the bytes that reach the application may then be a prefix of what we sent. The limit clause
    // is judged on what the application was handed.
    match &outcome {
        Ok(b) if b.len() as u64 > n => {
            return Err(Fail::new(
                "loopback:over-limit-body-accepted",
                format!("limit {n}: the handler was handed {} bytes (request: {reqhead:?}, {} chunks)", b.len(), chunks.len()),
            ));
        }
        Ok(b) => {
            if !body.starts_with(b) || (matches!(c.chunked, None | Some(None)) && b.len() != body.len()) {
                return Err(Fail::new(
                    "loopback:bytes-differ",
                    format!("limit {n}: handler saw {} bytes that are not what was sent ({} bytes)", b.len(), body.len()),
                ));
            }
            info.lab("loopback:ok");
        }
        Err(k) if k == "SizeLimitExceeded" => {
            if !(body.len() as u64 > n || readings.iter().any(|r| *r > n)) {
                return Err(Fail::new(
                    "loopback:spurious-size-limit-error",
                    format!("limit {n}: size-limit error for a {}-byte body, request head {reqhead:?}", body.len()),
                ));
            }
            info.lab("loopback:size-limit");
        }
        Err(k) => {
            info.lab(format!("loopback:other-error:{k}"));
        }
    }
    if matches!(c.chunked, None | Some(None)) && body.len() as u64 <= n && outcome.is_err() {
        return Err(Fail::new("loopback:within-limit-rejected", format!("limit {n}: {}-byte body rejected: {outcome:?}", body.len())));
    }
    let (t, n_chunks) = (c.total as u64, chunks.len());
    if t == n || t == n + 1 || (n_chunks >= 3 && t > n) || matches!(c.chunked, Some(Some(_))) {
        info.set_nontrivial(true);
    }
    Ok(info)
}


/// Two requests in flight at once on a server with ONE worker, their chunks written alternately: the
/// buffered body of each is judged on its own (per-request limit, its own bytes).
#[derive(Clone, Debug, Serialize, Deserialize)]
pub struct PairCase {
    pub a: WireCase,
    pub b: WireCase,
}

fn single_worker_addr() -> std::net::SocketAddr {
    static ADDR: std::sync::OnceLock<std::net::SocketAddr> = std::sync::OnceLock::new();
    *ADDR.get_or_init(|| {
        let rt: &'static tokio::runtime::Runtime = Box::leak(Box::new(
            tokio::runtime::Builder::new_multi_thread().worker_threads(1).enable_all().build().unwrap(),
        ));
        rt.block_on(async {
            let incoming = pavex::server::IncomingStream::bind("127.0.0.1:0".parse().unwrap()).await.unwrap();
            let addr = incoming.local_addr().unwrap();
            let handle = pavex::server::Server::new()
                .set_config(pavex::server::ServerConfiguration::new().set_n_workers(1))
                .listen(incoming)
                .serve(loop_handler, ());
            std::mem::forget(handle);
            addr
        })
    })
}

pub fn pair_oracle(p: &PairCase) -> CaseResult {
    use std::io::{Read, Write};
    let addr = single_worker_addr();
    let plans = [wire_plan(&p.a, 1), wire_plan(&p.b, 2)];
    let cases = [&p.a, &p.b];
    let io = |e: std::io::Error| Fail::new("loopback:io", format!("{e}"));
    let mut socks = vec![];
    for plan in &plans {
        let mut s = std::net::TcpStream::connect(addr).map_err(io)?;
        s.set_read_timeout(Some(std::time::Duration::from_secs(20))).ok();
        s.set_nodelay(true).ok();
        s.write_all(plan.reqhead.as_bytes()).map_err(io)?;
        socks.push(s);
    }
    // alternate the chunks of the two bodies; a short pause lets the worker poll both extractions in between
    let mut failed = [false, false];
    let rounds = plans[0].chunks.len().max(plans[1].chunks.len());
    for r in 0..rounds {
        for k in 0..2 {
            if let Some(ch) = plans[k].chunks.get(r) {
                if !failed[k] && write_chunk(&mut socks[k], cases[k].chunked.is_some(), ch).is_err() {
                    failed[k] = true;
                }
            }
        }
        std::thread::sleep(std::time::Duration::from_millis(2));
    }
    for k in 0..2 {
        if cases[k].chunked.is_some() && !failed[k] {
            let _ = socks[k].write_all(b"0\r\n\r\n");
        }
    }
    let mut info = CaseInfo::default();
    for k in 0..2 {
        let mut resp = Vec::new();
        let _ = socks[k].read_to_end(&mut resp);
        let i = wire_judge(cases[k], &plans[k], String::from_utf8_lossy(&resp).to_string()).map_err(|f| Fail::new(format!("interleaved:{}", f.signature), format!("request {} of two interleaved requests on one worker: {}", ["A", "B"][k], f.message)))?;
        for l in i.labels {
            info.lab(l);
        }
    }
    if plans[0].chunks.len() >= 2 && plans[1].chunks.len() >= 2 {
        info.set_nontrivial(true);
        info.lab("interleaved:both-multi-chunk");
    }
    Ok(info)
}

// ------------------------------------------------------------------------------------------
// Generators
// ------------------------------------------------------------------------------------------

fn limit_and_total() -> impl Strategy<Value = (u32, u32)> {
    let limit = prop_oneof![
        4 => prop::sample::select(vec![0u32, 1, 2, 7, 64, 1000, 8192]),
        2 => 0u32..300,
        1 => 0u32..20_000,
    ];
    limit.prop_flat_map(|n| {
        let around = vec![0u32, n.saturating_sub(1), n, n + 1, n + 2, 2 * n, 3 * n + 5];
        (Just(n), prop_oneof![5 => prop::sample::select(around), 2 => 0..=(3 * n + 8)])
    })
}

fn cl_strategy() -> impl Strategy<Value = Cl> {
    prop_oneof![
        3 => Just(Cl::Absent),
        3 => Just(Cl::Truthful),
        2 => any::<u16>().prop_map(Cl::Smaller),
        2 => any::<u16>().prop_map(Cl::LargerWithinLimit),
        2 => (0u16..5).prop_map(Cl::LargerAboveLimit),
        1 => Just(Cl::Huge),
        2 => (0u8..10).prop_map(Cl::Garbage),
    ]
}

pub fn case_strategy() -> impl Strategy<Value = Case> {
    (
        limit_and_total(),
        prop::collection::vec(any::<u16>(), 0..12),
        prop::collection::vec(any::<u8>(), 0..3),
        any::<bool>(),
        cl_strategy(),
        0u8..3,
        prop::option::weighted(0.08, any::<u8>()),
        prop_oneof![2 => Just(0u16), 1 => any::<u16>()],
        prop::bool::weighted(0.3),
    )
        .prop_map(|((limit, total), cuts, empties, trailers, cl, extractor, stream_error_after, pending_before, te_header)| Case {
            limit,
            total,
            cuts,
            empties,
            trailers,
            cl,
            extractor,
            stream_error_after,
            pending_before,
            te_header,
        })
}

pub fn wire_strategy() -> impl Strategy<Value = WireCase> {
    (
        limit_and_total(),
        prop::collection::vec(any::<u16>(), 0..8),
        prop_oneof![
            2 => Just(None),
            3 => Just(Some(None)),
            3 => cl_strategy().prop_map(|c| Some(Some(c))),
        ],
        prop_oneof![2 => Just(0u8), 3 => 1u8..7],
        prop::bool::weighted(0.4),
    )
        .prop_map(|((limit, total), cuts, chunked, te_spelling, raw_hyper)| WireCase { limit, total, cuts, chunked, te_spelling, raw_hyper })
}

/// A chunked request with 2-6 chunks and a small limit (bodies around and above it).
fn wire_pair_member() -> impl Strategy<Value = WireCase> {
    (prop::sample::select(vec![8u32, 16, 64, 300]), 0u32..3, prop::collection::vec(any::<u16>(), 1..6)).prop_map(|(limit, k, cuts)| WireCase {
        limit,
        total: [limit.saturating_sub(3), limit, limit + limit / 2 + 1][k as usize],
        cuts,
        chunked: Some(None),
        te_spelling: (k as u8 + limit as u8) % 7,
        raw_hyper: false,
    })
}

pub fn main(mut chk: Check) -> ! {
    chk.ev.rule = "in-process (hook H1): limit N from {0,1,2,7,64,1000,8192} or random, body length around {0,N-1,N,N+1,N+2,2N,3N+5} or random, split into 1-12 data frames plus empty frames/trailers/an injected stream error, Content-Length in {absent, truthful, smaller, larger<=N, larger>N, 2^64, 10 kinds of garbage}, optionally followed by JsonBody/UrlEncodedBody extraction. loopback: the real BufferedBody::extract behind pavex::server::Server; raw TCP client with Content-Length framing or chunked framing (chosen chunk sizes), optionally with an extra (lying) Content-Length header before Transfer-Encoding, the chunked coding spelled in 7 ways (letter case, `gzip, chunked`, two header lines, no space), behind pavex::server::Server or behind hyper's plain HTTP/1 connection driver (where a Content-Length that precedes Transfer-Encoding reaches the extractor). Oracle: Ok(b) => len(b)<=N and b == bytes sent; size-limit error => sent>N or a plausible reading of the header >N; within-limit bodies with harmless headers must be accepted; no other error unless the stream failed. non-trivial = length in {N, N+1}, or >=3 frames of an over-limit body, or a Content-Length that is not absent/truthful; distinct = distinct serialised case".into();
    chk.ev.assume("for malformed Content-Length values every numeric reading a lenient parser could make is considered 'declared' (rejecting on it is allowed, never required)");
    chk.ev.assume("loopback: when hyper itself rejects a request (conflicting framing headers) nothing reaches the extractor and the case is only classified");
    if let Some(p) = chk.settings.replay.clone() {
        let ok = chk.replay_one::<Case, _>("in-process", &p, oracle) || chk.replay_one::<WireCase, _>("loopback", &p, wire_oracle) || chk.replay_one::<PairCase, _>("loopback-interleaved", &p, pair_oracle);
        if !ok {
            eprintln!("replay file {} does not belong to C14", p.display());
            std::process::exit(2);
        }
        chk.finish();
    }
    for p in chk.committed_replays() {
        let _ = chk.replay_one::<Case, _>("in-process", &p, oracle) || chk.replay_one::<WireCase, _>("loopback", &p, wire_oracle);
    }
    let t = chk.tier();
    chk.run("in-process", t.pick(300_000, 2_000_000), case_strategy(), oracle);
    chk.run("loopback", t.pick(4_000, 30_000), wire_strategy(), wire_oracle);
    // two requests in flight at once on one worker, chunks written alternately (each judged on its own)
    chk.ev.rule.push_str(" || campaign loopback-interleaved: pairs of chunked requests (2-6 chunks each, own limit, different byte patterns) to a server with one worker, chunks written alternately with 2 ms pauses; each response judged as in the loopback campaign");
    let pair = (wire_pair_member(), wire_pair_member()).prop_map(|(a, b)| PairCase { a, b });
    chk.run("loopback-interleaved", t.pick(700, 8_000), pair, pair_oracle);
    chk.finish()
}

// ------------------------------------------------------------------------------------------
// libFuzzer entry: bytes -> a case of the same class (thorough tier, harness/fuzz/fuzz_targets/fz_c14.rs)
// ------------------------------------------------------------------------------------------

pub fn case_from_bytes(data: &[u8]) -> Case {
    let mut i = 0usize;
    let mut b = || {
        let v = data.get(i).copied().unwrap_or(0);
        i += 1;
        v
    };
    // limits around small numbers and a few round ones; totals around the limit
    let limit: u32 = match b() % 8 {
        0 => 0,
        1 => 1,
        2 => 2,
        3 => 7,
        4 => 64,
        5 => 1000,
        6 => 8192,
        _ => u16::from_le_bytes([b(), b()]) as u32 % 5000,
    };
    let total: u32 = match b() % 8 {
        0 => 0,
        1 => limit.saturating_sub(1),
        2 => limit,
        3 => limit + 1,
        4 => limit * 2,
        5 => limit * 3 + 5,
        _ => u16::from_le_bytes([b(), b()]) as u32 % 12_000,
    };
    let n_cuts = (b() % 12) as usize;
    let cuts: Vec<u16> = (0..n_cuts).map(|_| u16::from_le_bytes([b(), b()])).collect();
    let n_empty = (b() % 4) as usize;
    let empties: Vec<u8> = (0..n_empty).map(|_| b()).collect();
    let flags = b();
    let cl = match b() % 9 {
        0 | 1 => Cl::Absent,
        2 => Cl::Truthful,
        3 => Cl::Smaller(u16::from_le_bytes([b(), b()])),
        4 => Cl::LargerWithinLimit(u16::from_le_bytes([b(), b()])),
        5 => Cl::LargerAboveLimit(u16::from_le_bytes([b(), b()])),
        6 => Cl::Huge,
        _ => Cl::Garbage(b()),
    };
    Case {
        limit,
        total,
        cuts,
        empties,
        trailers: flags & 1 == 1,
        cl,
        extractor: (flags >> 1) % 3,
        stream_error_after: if flags & 0x10 != 0 { Some(b() % 14) } else { None },
        pending_before: u16::from_le_bytes([b(), b()]),
        te_header: flags & 0x20 != 0,
    }
}
