//! C16 — graceful shutdown drains in-flight requests and stops accepting new ones.
//! Scenarios are built so that the harness *owns* the state of every connection at the moment
//! `shutdown` is called (handler-started signals, hook H4 for "queued at a worker").
use std::io::{Read, Write};
use std::net::{SocketAddr, TcpStream};
use std::sync::atomic::Ordering;
use std::sync::{Arc, Mutex, mpsc};
use std::time::{Duration, Instant};

use pavex::server::{IncomingStream, Server, ServerConfiguration, ServerHandle, ShutdownMode};
use proptest::prelude::*;
use serde::{Deserialize, Serialize};
use vcommon::{CaseInfo, CaseResult, Check, Fail};

#[derive(Clone, Debug, Serialize, Deserialize, PartialEq)]
pub enum Mode {
    Graceful { timeout_ms: u32 },
    Forced,
}

#[derive(Clone, Debug, Serialize, Deserialize)]
pub struct Scenario {
    pub workers: u8,
    pub mode: Mode,
    /// a handler that blocks worker 0's thread (std::thread::sleep) for this long; requests sent
    /// afterwards are queued at that worker
    pub blocker_ms: Option<u32>,
    /// number of requests written (and dispatched to a worker, per hook H4) while the worker is
    /// blocked, i.e. queued but not started when `shutdown` is called
    pub queued: u8,
    /// async handlers (tokio sleep) that are running when `shutdown` is called
    pub mid_handler_ms: Vec<u32>,
    /// keep-alive connections that have completed one request and sit idle
    pub idle_keepalive: u8,
    /// try to connect between the shutdown call and its resolution
    pub connect_during: bool,
    /// a second `shutdown` (same mode) issued from another handle clone 60 ms after the first
    #[serde(default)]
    pub second_shutdown: bool,
    /// worker 0's queue filled to the brim: (number of requests queued behind the blocker: 13-18, the queue holds 15 and
    /// the acceptor moves on to worker 1 only when it is full; a second thread-blocking handler on worker 1 once it is)
    #[serde(default)]
    pub flood: Option<(u8, bool)>,
}

/// `timeout_ms == u32::MAX` stands for `Duration::MAX` ("wait for as long as it takes").
fn timeout_of(ms: u32) -> Duration {
    if ms == u32::MAX { Duration::MAX } else { Duration::from_millis(ms as u64) }
}

struct St {
    started: Mutex<mpsc::Sender<u32>>,
    done: Mutex<Vec<(u32, Instant)>>,
}

async fn handler(
    req: hyper::Request<hyper::body::Incoming>,
    _c: Option<pavex::connection::ConnectionInfo>,
    st: Arc<St>,
) -> pavex::Response {
    // path: /<id>/<a|b>/<ms>
    let parts: Vec<String> = req.uri().path().split('/').map(|s| s.to_string()).collect();
    let id: u32 = parts.get(1).and_then(|s| s.parse().ok()).unwrap_or(0);
    let kind = parts.get(2).cloned().unwrap_or_default();
    let ms: u64 = parts.get(3).and_then(|s| s.parse().ok()).unwrap_or(0);
    let _ = st.started.lock().unwrap().send(id);
    if kind == "b" {
        std::thread::sleep(Duration::from_millis(ms));
    } else if ms > 0 {
        tokio::time::sleep(Duration::from_millis(ms)).await;
    }
    st.done.lock().unwrap().push((id, Instant::now()));
    pavex::Response::ok().set_typed_body(format!("done:{id}"))
}

#[derive(Debug, Clone, PartialEq)]
enum Outcome {
    Complete(String),
    /// connection closed/reset before a complete response
    Dropped(String),
    TimedOut,
}

fn read_response(s: &mut TcpStream, max_wait: Duration) -> Outcome {
    let _ = s.set_read_timeout(Some(Duration::from_millis(50)));
    let deadline = Instant::now() + max_wait;
    let mut buf = Vec::new();
    let mut tmp = [0u8; 4096];
    loop {
        if let Some(body) = complete(&buf) {
            return Outcome::Complete(body);
        }
        if Instant::now() > deadline {
            return Outcome::TimedOut;
        }
        match s.read(&mut tmp) {
            Ok(0) => return Outcome::Dropped(format!("EOF after {} bytes", buf.len())),
            Ok(n) => buf.extend_from_slice(&tmp[..n]),
            Err(e) if e.kind() == std::io::ErrorKind::WouldBlock || e.kind() == std::io::ErrorKind::TimedOut => {}
            Err(e) => return Outcome::Dropped(format!("{:?} after {} bytes", e.kind(), buf.len())),
        }
    }
}

fn complete(buf: &[u8]) -> Option<String> {
    let text = String::from_utf8_lossy(buf);
    let (head, body) = text.split_once("\r\n\r\n")?;
    if !head.starts_with("HTTP/1.1 200") {
        return None;
    }
    let cl: usize = head
        .lines()
        .find_map(|l| l.to_ascii_lowercase().strip_prefix("content-length:").map(|v| v.trim().parse().ok()))??;
    if body.len() >= cl { Some(body[..cl].to_string()) } else { None }
}

fn send(addr: SocketAddr, id: u32, kind: &str, ms: u32, keep_alive: bool) -> std::io::Result<TcpStream> {
    let mut s = TcpStream::connect(addr)?;
    s.set_nodelay(true)?;
    let conn = if keep_alive { "keep-alive" } else { "close" };
    s.write_all(format!("GET /{id}/{kind}/{ms} HTTP/1.1\r\nHost: localhost\r\nConnection: {conn}\r\n\r\n").as_bytes())?;
    s.flush()?;
    Ok(s)
}

fn rt() -> &'static tokio::runtime::Runtime {
    static R: std::sync::OnceLock<tokio::runtime::Runtime> = std::sync::OnceLock::new();
    R.get_or_init(|| tokio::runtime::Builder::new_multi_thread().worker_threads(2).enable_all().build().unwrap())
}

fn wait_started(rx: &mpsc::Receiver<u32>, want: &[u32], within: Duration) -> bool {
    let deadline = Instant::now() + within;
    let mut missing: Vec<u32> = want.to_vec();
    while !missing.is_empty() {
        let left = deadline.saturating_duration_since(Instant::now());
        if left.is_zero() {
            return false;
        }
        if let Ok(id) = rx.recv_timeout(left) {
            missing.retain(|m| *m != id);
        }
    }
    true
}

pub fn oracle(sc: &Scenario) -> CaseResult {
    // A verdict that rests on *when* shutdown resolved is only believed when the same scenario gives it three times in a
    // row (a systematic delay shows every time, a scheduling hiccup of the machine does not).
    match oracle_once(sc) {
        Err(f) if f.signature.starts_with("graceful:timeout-not-honoured") => {
            for _ in 0..2 {
                match oracle_once(sc) {
                    Err(g) if g.signature == f.signature => {}
                    other => return other.map(|mut i| { i.lab("timing:not-reproduced(inconclusive)"); i }),
                }
            }
            Err(f)
        }
        other => other,
    }
}

fn oracle_once(sc: &Scenario) -> CaseResult {
    let mut info = CaseInfo::default();
    let (tx, rx) = mpsc::channel();
    let st = Arc::new(St { started: Mutex::new(tx), done: Mutex::new(vec![]) });
    let workers = sc.workers.clamp(1, 4) as usize;
    let (handle, addr): (ServerHandle, SocketAddr) = rt().block_on(async {
        let incoming = IncomingStream::bind("127.0.0.1:0".parse().unwrap()).await.expect("bind");
        let addr = incoming.local_addr().unwrap();
        let h = Server::new()
            .set_config(ServerConfiguration::new().set_n_workers(workers))
            .listen(incoming)
            .serve(handler, st.clone());
        (h, addr)
    });
    let infra = |what: &str, e: std::io::Error| -> Fail { Fail::new("harness:io", format!("{what}: {e}")) };
    let dispatched0 = pavex::server::VERIF_DISPATCHED.load(Ordering::SeqCst);
    let mut expect_dispatched = dispatched0;
    let wait_dispatch = |n: usize| -> bool {
        let deadline = Instant::now() + Duration::from_secs(5);
        while pavex::server::VERIF_DISPATCHED.load(Ordering::SeqCst) < n {
            if Instant::now() > deadline {
                return false;
            }
            std::thread::sleep(Duration::from_millis(2));
        }
        true
    };

    // ---- idle keep-alive connections: one completed exchange each
    let mut idle = vec![];
    for i in 0..sc.idle_keepalive.min(3) as u32 {
        let mut s = send(addr, 900 + i, "a", 0, true).map_err(|e| infra("keep-alive request", e))?;
        expect_dispatched += 1;
        match read_response(&mut s, Duration::from_secs(5)) {
            Outcome::Complete(_) => idle.push(s),
            o => return Err(Fail::new("harness:warmup", format!("keep-alive warm-up request failed before any shutdown: {o:?}"))),
        }
    }
    // ---- async handlers that will be mid-flight
    let mut mids: Vec<(u32, u32, TcpStream)> = vec![];
    for (i, d) in sc.mid_handler_ms.iter().take(4).enumerate() {
        let id = 100 + i as u32;
        let s = send(addr, id, "a", *d, false).map_err(|e| infra("mid-handler request", e))?;
        expect_dispatched += 1;
        mids.push((id, *d, s));
    }
    let mid_ids: Vec<u32> = mids.iter().map(|m| m.0).collect();
    if !wait_started(&rx, &mid_ids, Duration::from_secs(5)) {
        return Err(Fail::new("harness:handlers-did-not-start", "async handlers did not start before shutdown (no shutdown requested yet)"));
    }
    // ---- the blocker and the requests queued behind it
    let mut blocker: Option<(u32, TcpStream)> = None;
    let mut queued: Vec<(u32, TcpStream)> = vec![];
    let mut second_blocker: Option<TcpStream> = None;
    if let Some(b) = sc.blocker_ms {
        let s = send(addr, 1, "b", b, false).map_err(|e| infra("blocker request", e))?;
        expect_dispatched += 1;
        if !wait_started(&rx, &[1], Duration::from_secs(5)) {
            return Err(Fail::new("harness:handlers-did-not-start", "blocker did not start"));
        }
        blocker = Some((b, s));
        let n_queued = match sc.flood {
            Some((q, _)) => {
                let q = q.clamp(13, 18);
                if workers == 1 { q.min(15) } else { q }
            }
            None => sc.queued.min(6),
        };
        for i in 0..n_queued as u32 {
            let id = 200 + i;
            let s = send(addr, id, "a", 0, false).map_err(|e| infra("queued request", e))?;
            expect_dispatched += 1;
            queued.push((id, s));
        }
        if !wait_dispatch(expect_dispatched) {
            return Err(Fail::new("harness:not-dispatched", "connections were not handed to a worker within 5 s (before shutdown)"));
        }
        if n_queued >= 15 {
            info.lab(format!("flood:{n_queued}-queued-behind-a-blocked-worker"));
        }
        if let Some((_, true)) = sc.flood {
            if workers >= 2 && n_queued >= 15 {
                // worker 0's queue is full: this one lands on worker 1 and blocks its thread as well
                let s = send(addr, 2, "b", b, false).map_err(|e| infra("second blocker request", e))?;
                if !wait_started(&rx, &[2], Duration::from_secs(5)) {
                    return Err(Fail::new("harness:handlers-did-not-start", "second blocker did not start"));
                }
                second_blocker = Some(s);
                info.lab("flood:two-workers-blocked");
            }
        }
    }

    // ---- shutdown
    let mode = match &sc.mode {
        Mode::Graceful { timeout_ms } => ShutdownMode::Graceful { timeout: timeout_of(*timeout_ms) },
        Mode::Forced => ShutdownMode::Forced,
    };
    let waiter = handle.clone();
    let second = handle.clone();
    let mode2 = mode.clone();
    let (wtx, wrx) = mpsc::channel();
    rt().spawn(async move {
        waiter.await;
        let _ = wtx.send(Instant::now());
    });
    let t0 = Instant::now();
    let (stx, srx) = mpsc::channel();
    rt().spawn(async move {
        handle.shutdown(mode).await;
        let _ = stx.send(Instant::now());
    });
    let (s2tx, s2rx) = mpsc::channel();
    if sc.second_shutdown {
        rt().spawn(async move {
            tokio::time::sleep(Duration::from_millis(60)).await;
            second.shutdown(mode2).await;
            let _ = s2tx.send(Instant::now());
        });
    }
    // a connection attempt while draining
    let mut during: Option<Outcome> = None;
    let mut early: Option<Instant> = None;
    if sc.connect_during {
        std::thread::sleep(Duration::from_millis(120));
        early = srx.try_recv().ok();
        if early.is_none() {
            // still draining
            during = Some(match send(addr, 777, "a", 0, false) {
                Err(_) => Outcome::Dropped("connect refused".into()),
                Ok(mut s) => read_response(&mut s, Duration::from_millis(1500)),
            });
        }
    }
    let timeout_ms = match &sc.mode {
        Mode::Graceful { timeout_ms } if *timeout_ms == u32::MAX => 1_000_000_000,
        Mode::Graceful { timeout_ms } => *timeout_ms as u64,
        Mode::Forced => 0,
    };
    let resolved_at = early.or_else(|| srx.recv_timeout(Duration::from_millis(timeout_ms.min(3_000) + 12_000)).ok());
    let Some(resolved_at) = resolved_at else {
        return Err(Fail::new(
            "shutdown-never-resolved",
            format!("shutdown({:?}) did not resolve within timeout + 12 s\n{sc:?}", sc.mode),
        ));
    };
    let r_ms = resolved_at.duration_since(t0).as_millis() as u64;

    // ---- collect client-side outcomes
    let budget = Duration::from_secs(6);
    let mut results: Vec<(String, u32, u32, Outcome)> = vec![];
    for (id, d, mut s) in mids {
        results.push(("mid-handler".into(), id, d, read_response(&mut s, budget)));
    }
    if let Some((b, mut s)) = blocker {
        results.push(("blocker".into(), 1, b, read_response(&mut s, budget)));
    }
    for (id, mut s) in queued {
        results.push(("queued".into(), id, 0, read_response(&mut s, budget)));
    }
    let done: Vec<(u32, Instant)> = st.done.lock().unwrap().clone();
    let b_ms = sc.blocker_ms.unwrap_or(0) as u64;

    match &sc.mode {
        Mode::Graceful { .. } => {
            for (kind, id, d, out) in &results {
                // when does this handler finish, at the latest, counted from the shutdown call?
                let finish = match kind.as_str() {
                    "mid-handler" => (*d as u64).max(b_ms),
                    "blocker" => b_ms,
                    _ => b_ms,
                };
                let in_budget = finish + 400 < timeout_ms;
                if !in_budget {
                    info.lab(format!("{kind}:out-of-budget"));
                    continue;
                }
                match out {
                    Outcome::Complete(body) if *body == format!("done:{id}") => {
                        info.lab(format!("{kind}:answered"));
                    }
                    other => {
                        return Err(Fail::new(
                            format!("graceful:{kind}-request-not-answered"),
                            format!(
                                "a request that had been received before shutdown(Graceful {{ timeout: {timeout_ms} ms }}) was called and whose handler needs at most {finish} ms was not answered in full: {other:?} (request #{id}, state at the call: {kind})\n{sc:?}"
                            ),
                        ));
                    }
                }
                // the shutdown future must not resolve before the handler has finished
                if let Some((_, at)) = done.iter().find(|(i, _)| i == id) {
                    if resolved_at < *at {
                        return Err(Fail::new(
                            "graceful:resolved-before-handler-finished",
                            format!("shutdown resolved {} ms before handler #{id} ({kind}) finished\n{sc:?}", at.duration_since(resolved_at).as_millis()),
                        ));
                    }
                }
            }
            // resolves once idle or at the timeout, whichever is first
            let last_finish = results
                .iter()
                .map(|(k, _, d, _)| if k == "mid-handler" { (*d as u64).max(b_ms) } else { b_ms })
                .max()
                .unwrap_or(0);
            let bound = last_finish.min(timeout_ms);
            // "... or the timeout elapses, whichever is first": the timeout is one deadline for the whole server, however many
            // workers are still busy when it expires
            if second_blocker.is_some() && timeout_ms + 1_000 < b_ms && r_ms >= timeout_ms + 1_200 && r_ms < b_ms.saturating_sub(200) {
                return Err(Fail::new(
                    "graceful:timeout-not-honoured",
                    format!("two workers were busy for {b_ms} ms; shutdown(Graceful {{ timeout: {timeout_ms} ms }}) resolved after {r_ms} ms (three runs alike)\n{sc:?}"),
                ));
            }
            if r_ms > bound + 1_500 {
                if last_finish + 500 < timeout_ms && r_ms + 100 >= timeout_ms {
                    return Err(Fail::new(
                        "graceful:waited-for-timeout-although-idle",
                        format!("all handlers were done after ~{last_finish} ms but shutdown only resolved after {r_ms} ms (timeout {timeout_ms} ms)\n{sc:?}"),
                    ));
                }
                if r_ms > bound + 15_000 {
                    return Err(Fail::new("graceful:resolution-far-too-late", format!("resolved after {r_ms} ms, expected about {bound} ms\n{sc:?}")));
                }
                info.lab("timing:slow-resolution(inconclusive)");
            }
            if timeout_ms + 300 < last_finish && r_ms + 60 < timeout_ms {
                // work was still running: must wait for the timeout (or for idleness)
                let all_dropped = results.iter().all(|(_, _, _, o)| !matches!(o, Outcome::Complete(_)));
                if !all_dropped {
                    info.lab("timing:resolved-before-timeout-with-work-left");
                }
            }
        }
        Mode::Forced => {
            let longest = sc.mid_handler_ms.iter().copied().max().unwrap_or(0) as u64;
            if r_ms > 2_000 {
                if r_ms > 20_000 {
                    return Err(Fail::new("forced:not-prompt", format!("Forced shutdown resolved after {r_ms} ms\n{sc:?}")));
                }
                info.lab("timing:slow-resolution(inconclusive)");
            }
            // in-flight work: async handlers mid-flight and the handler that blocks a worker's thread
            let work = longest.max(b_ms);
            if work >= 1_000 && r_ms + 300 > work {
                return Err(Fail::new(
                    "forced:waited-for-in-flight-work",
                    format!("Forced shutdown resolved after {r_ms} ms, i.e. it waited for a {work} ms handler\n{sc:?}"),
                ));
            }
            if b_ms >= 1_000 {
                info.lab("forced:while-a-worker-thread-is-blocked");
            }
            info.lab("forced:resolved");
        }
    }
    // ---- awaiting a handle resolves too - and, like `shutdown`, not while in-budget work is still running
    let in_budget_done: Vec<(u32, Instant)> = match &sc.mode {
        Mode::Graceful { .. } => results
            .iter()
            .filter(|(k, _, d, _)| (if k == "mid-handler" { (*d as u64).max(b_ms) } else { b_ms }) + 400 < timeout_ms)
            .filter_map(|(_, id, _, _)| done.iter().find(|(i, _)| i == id).cloned())
            .collect(),
        Mode::Forced => vec![],
    };
    if sc.second_shutdown {
        match s2rx.recv_timeout(Duration::from_secs(5)) {
            Ok(at) => {
                if let Some((id, h)) = in_budget_done.iter().find(|(_, h)| at < *h) {
                    return Err(Fail::new(
                        "second-shutdown-resolved-before-drain",
                        format!("a second shutdown() issued from another handle resolved {} ms before handler #{id} finished\n{sc:?}", h.duration_since(at).as_millis()),
                    ));
                }
                info.lab("second-shutdown:resolved");
            }
            Err(_) => {
                return Err(Fail::new("second-shutdown-never-resolves", format!("a second shutdown() from another handle did not resolve within 5 s after the first\n{sc:?}")));
            }
        }
    }
    match wrx.recv_timeout(Duration::from_secs(5)) {
        Ok(at) => {
            if let Some((id, h)) = in_budget_done.iter().find(|(_, h)| at < *h) {
                return Err(Fail::new(
                    "await-handle-resolved-before-drain",
                    format!("awaiting a ServerHandle resolved {} ms before handler #{id} (in budget, received before the shutdown call) finished\n{sc:?}", h.duration_since(at).as_millis()),
                ));
            }
            info.lab("await-handle:resolved")
        }
        Err(_) => {
            return Err(Fail::new(
                "await-handle-never-resolves",
                format!("awaiting a ServerHandle did not resolve within 5 s after shutdown had resolved\n{sc:?}"),
            ));
        }
    }
    // ---- no new connections once shutdown has resolved (and none served while draining).
    // Right after resolution the kernel may still complete a TCP handshake from the listen backlog
    // (the listener is closed a moment later): such a connection must never be *served*, and
    // shortly afterwards connect() itself must be refused.
    if let Ok(mut s) = TcpStream::connect_timeout(&addr, Duration::from_millis(500)) {
        let _ = s.write_all(b"GET /555/a/0 HTTP/1.1\r\nHost: localhost\r\nConnection: close\r\n\r\n");
        if let Outcome::Complete(b) = read_response(&mut s, Duration::from_millis(800)) {
            return Err(Fail::new(
                "request-served-after-shutdown",
                format!("a connection opened after shutdown had resolved was accepted and answered ({b})\n{sc:?}"),
            ));
        }
        info.lab("connect-after:backlog-handshake-not-served");
        std::thread::sleep(Duration::from_millis(300));
    }
    match TcpStream::connect_timeout(&addr, Duration::from_millis(500)) {
        Err(_) => info.lab("connect-after:refused"),
        Ok(_) => {
            return Err(Fail::new(
                "connection-accepted-after-shutdown",
                format!("connect() to the server address still succeeds 300 ms after shutdown had resolved\n{sc:?}"),
            ));
        }
    }
    if let Some(Outcome::Complete(b)) = &during {
        return Err(Fail::new(
            "request-served-while-draining",
            format!("a connection opened ~120 ms after shutdown had been called was accepted and answered ({b})\n{sc:?}"),
        ));
    }
    if during.is_some() {
        info.lab("connect-during-drain:not-served");
    }
    drop(idle);
    drop(second_blocker);
    if sc.queued >= 1 && sc.blocker_ms.is_some() || sc.mid_handler_ms.len() >= 2 {
        info.set_nontrivial(true);
    }
    Ok(info)
}

pub fn scenario_strategy() -> impl Strategy<Value = Scenario> {
    let mode = prop_oneof![
        5 => prop::sample::select(vec![1500u32, 2500]).prop_map(|t| Mode::Graceful { timeout_ms: t }),
        1 => Just(Mode::Graceful { timeout_ms: u32::MAX }),
        1 => Just(Mode::Graceful { timeout_ms: 300 }),
        2 => Just(Mode::Forced),
    ];
    (
        1u8..=3,
        mode,
        prop::option::weighted(0.5, prop::sample::select(vec![250u32, 400])),
        0u8..=4,
        prop::collection::vec(prop::sample::select(vec![0u32, 50, 150, 400, 1500]), 0..=3),
        0u8..=2,
        any::<bool>(),
        prop::bool::weighted(0.3),
        prop::option::weighted(0.12, (13u8..=18, any::<bool>())),
    )
        .prop_map(|(workers, mode, blocker_ms, queued, mid_handler_ms, idle_keepalive, connect_during, second_shutdown, flood)| {
            // a Forced shutdown resolves promptly "regardless of in-flight work": a handler that keeps a worker's
            // thread busy for 1.5 s is in-flight work too (short blockers say nothing in this mode)
            let blocker_ms = if mode == Mode::Forced { blocker_ms.map(|b| if b == 400 { 1500 } else { 0 }).filter(|b| *b > 0) } else { blocker_ms };
            // a full queue needs a blocked worker; with a second blocked worker the question is when shutdown resolves
            // (both handlers outlast the timeout), otherwise whether all 13-18 queued requests are answered (in budget)
            let (mode, blocker_ms, flood) = match (flood, &mode) {
                (Some((q, true)), Mode::Graceful { .. }) if workers >= 2 => (Mode::Graceful { timeout_ms: 1500 }, Some(4000), Some((q.max(15), true))),
                (Some((q, _)), Mode::Graceful { timeout_ms }) if *timeout_ms >= 1500 => (mode.clone(), Some(blocker_ms.unwrap_or(250)), Some((q, false))),
                _ => (mode, blocker_ms, None),
            };
            Scenario { workers, mode, blocker_ms, queued, mid_handler_ms, idle_keepalive, connect_during, second_shutdown, flood }
        })
}

pub fn main(mut chk: Check) -> ! {
    chk.ev.rule = "scenario = number of workers (1-3) x shutdown mode (Graceful 1.5 s / 2.5 s / 0.3 s, Forced) x connection states pinned at the moment `shutdown` is called: async handlers mid-flight (0-1500 ms, start confirmed by a channel), an optional handler that blocks worker 0's thread (250/400 ms) with 0-4 further requests written and (hook H4) already dispatched to that worker's queue, 0-2 idle keep-alive connections, an optional connection attempt while draining; in 1 of 8 scenarios worker 0's queue is filled to the brim (13-18 requests behind the blocker; it holds 15) and, with >=2 workers, a second thread-blocking handler lands on worker 1 (both outlast the timeout: shutdown must resolve at about the timeout, judged over three runs). Oracle: every request received before the call whose handler finishes >=400 ms inside the timeout gets a complete response; shutdown does not resolve before those handlers finish, resolves about when the last one finishes (not at the timeout), Forced resolves promptly; awaiting a handle resolves; connect() is refused afterwards; nothing is served while draining. non-trivial = >=1 queued request, or >=2 mid-flight handlers; distinct = distinct serialised scenario. All durations are >=100 ms away from every threshold; slow resolutions within 10x slack are labelled inconclusive, not violations.".into();
    chk.ev.assume("interleavings inside hyper/tokio are sampled, not enumerated; the acceptor sends every connection to worker 0 until its queue (15) is full, so 'queued' means queued at worker 0");
    if let Some(p) = chk.settings.replay.clone() {
        if !chk.replay_one::<Scenario, _>("scenarios", &p, oracle) {
            eprintln!("replay file {} does not belong to C16", p.display());
            std::process::exit(2);
        }
        chk.finish();
    }
    for p in chk.committed_replays() {
        chk.replay_one::<Scenario, _>("scenarios", &p, oracle);
    }
    let t = chk.tier();
    chk.run("scenarios", t.pick(160, 2_500), scenario_strategy(), oracle);
    chk.finish()
}
