//! C13 — session stores behave like a map with expiry, under concurrency too.
use std::borrow::Cow;
use std::collections::{BTreeMap, BTreeSet, HashMap, HashSet};
use std::num::NonZeroUsize;
use std::sync::Arc;
use std::time::Duration;

use pavex_session::SessionId;
use pavex_session::store::errors::{ChangeIdError, CreateError, DeleteError, UpdateError, UpdateTtlError};
use pavex_session::store::{SessionRecordRef, SessionStorageBackend};
use pavex_session_memory_store::InMemorySessionStore;
use proptest::prelude::*;
use serde::{Deserialize, Serialize};
use serde_json::Value;
use vcommon::{CaseInfo, CaseResult, Check, Fail};

type State = HashMap<Cow<'static, str>, Value>;
type Map = BTreeMap<String, Value>;

#[derive(Clone, Debug, Serialize, Deserialize, PartialEq)]
pub enum Op {
    Create { id: u8, state: Map, ttl: u8 },
    Update { id: u8, state: Map, ttl: u8 },
    UpdateTtl { id: u8, ttl: u8 },
    Load { id: u8 },
    Delete { id: u8 },
    ChangeId { old: u8, new: u8 },
    DeleteExpired { batch: Option<u8> },
}

#[derive(Clone, Debug, Serialize, Deserialize)]
pub struct SeqCase {
    pub sqlite: bool,
    pub ops: Vec<Op>,
}

#[derive(Clone, Debug, Serialize, Deserialize)]
pub struct ConcCase {
    pub sqlite: bool,
    /// sequential prefix that sets the stage
    pub setup: Vec<Op>,
    pub tasks: Vec<Vec<Op>>,
    pub yields: Vec<u8>,
}

/// `t % 3`: 0 = expired at once, 1 = one hour, 2 = ten years; `t / 3`: a sub-second part for the live ones
/// (0 = none, 1 = 100 ms, 2 = 999 ms): a store may keep a record a little *shorter* than asked (whole-second
/// clocks), never longer.
fn ttl_of(t: u8) -> Duration {
    let frac = match (t % 3, t / 3) {
        (0, _) | (_, 0) => Duration::ZERO,
        (_, 1) => Duration::from_millis(100),
        _ => Duration::from_millis(999),
    };
    frac + match t % 3 {
        0 => Duration::ZERO,
        1 => Duration::from_secs(3600),
        _ => Duration::from_secs(10 * 365 * 86_400),
    }
}

fn to_state(m: &Map) -> State {
    m.iter().map(|(k, v)| (Cow::Owned(k.clone()), v.clone())).collect()
}

fn from_state(s: &State) -> Map {
    s.iter().map(|(k, v)| (k.to_string(), v.clone())).collect()
}

/// What we observed from one call, in a backend-independent form.
#[derive(Clone, Debug, PartialEq, Serialize)]
pub enum Obs {
    Ok,
    Duplicate,
    Unknown,
    Loaded(Option<(Map, u64 /* remaining ttl, milliseconds */)>),
    Deleted(usize),
    OtherError(String),
}

async fn exec(store: &dyn SessionStorageBackend, ids: &[SessionId], op: &Op) -> Obs {
    let id = |i: &u8| &ids[*i as usize % ids.len()];
    match op {
        Op::Create { id: i, state, ttl } => {
            let st = to_state(state);
            match store.create(id(i), SessionRecordRef { state: Cow::Borrowed(&st), ttl: ttl_of(*ttl) }).await {
                Ok(()) => Obs::Ok,
                Err(CreateError::DuplicateId(_)) => Obs::Duplicate,
                Err(e) => Obs::OtherError(format!("{e:?}")),
            }
        }
        Op::Update { id: i, state, ttl } => {
            let st = to_state(state);
            match store.update(id(i), SessionRecordRef { state: Cow::Borrowed(&st), ttl: ttl_of(*ttl) }).await {
                Ok(()) => Obs::Ok,
                Err(UpdateError::UnknownIdError(_)) => Obs::Unknown,
                Err(e) => Obs::OtherError(format!("{e:?}")),
            }
        }
        Op::UpdateTtl { id: i, ttl } => match store.update_ttl(id(i), ttl_of(*ttl)).await {
            Ok(()) => Obs::Ok,
            Err(UpdateTtlError::UnknownId(_)) => Obs::Unknown,
            Err(e) => Obs::OtherError(format!("{e:?}")),
        },
        Op::Load { id: i } => match store.load(id(i)).await {
            Ok(r) => Obs::Loaded(r.map(|r| (from_state(&r.state), r.ttl.as_millis() as u64))),
            Err(e) => Obs::OtherError(format!("{e:?}")),
        },
        Op::Delete { id: i } => match store.delete(id(i)).await {
            Ok(()) => Obs::Ok,
            Err(DeleteError::UnknownId(_)) => Obs::Unknown,
            Err(e) => Obs::OtherError(format!("{e:?}")),
        },
        Op::ChangeId { old, new } => match store.change_id(id(old), id(new)).await {
            Ok(()) => Obs::Ok,
            Err(ChangeIdError::UnknownId(_)) => Obs::Unknown,
            Err(ChangeIdError::DuplicateId(_)) => Obs::Duplicate,
            Err(e) => Obs::OtherError(format!("{e:?}")),
        },
        Op::DeleteExpired { batch } => {
            let b = batch.and_then(|b| NonZeroUsize::new(b as usize % 3 + 1));
            match store.delete_expired(b).await {
                Ok(n) => Obs::Deleted(n),
                Err(e) => Obs::OtherError(format!("{e:?}")),
            }
        }
    }
}

// ------------------------------------------------------------------------------------------
// Reference model: a map with expiry. `step` says whether an observation is acceptable and, if
// so, what the next model state is (a *set* of successors is never needed: every tolerated
// alternative leaves the state unchanged).
// ------------------------------------------------------------------------------------------

#[derive(Clone, Debug, PartialEq, Eq, Hash, PartialOrd, Ord)]
struct Rec {
    state: String, // canonical JSON of the map
    live: bool,
    /// (milliseconds)
    ttl_s: u64,
}

#[derive(Clone, Debug, Default, PartialEq, Eq, Hash, PartialOrd, Ord)]
struct Model {
    recs: BTreeMap<u8, Rec>,
    /// ids under which an expired record may still physically sit (unobservable through load)
    ghosts: BTreeSet<u8>,
}

fn canon(m: &Map) -> String {
    serde_json::to_string(m).unwrap()
}

impl Model {
    fn live(&self, id: u8) -> Option<&Rec> {
        self.recs.get(&id).filter(|r| r.live)
    }

    fn put(&mut self, id: u8, state: &Map, ttl: u8) {
        let live = ttl % 3 != 0;
        self.recs.insert(id, Rec { state: canon(state), live, ttl_s: ttl_of(ttl).as_millis() as u64 });
        if live {
            self.ghosts.remove(&id);
        } else {
            self.ghosts.insert(id);
        }
    }

    /// `Ok(model')` if `obs` is an acceptable outcome of `op` in this state, `Err(reason)` otherwise.
    fn step(&self, op: &Op, obs: &Obs, n_ids: usize) -> Result<Model, String> {
        let mut m = self.clone();
        let k = |i: &u8| *i % n_ids as u8;
        match op {
            Op::Create { id, state, ttl } => {
                let id = k(id);
                if self.live(id).is_some() {
                    // must not overwrite; `DuplicateId` or a silent `Ok` (pinned upstream for SQLite)
                    match obs {
                        Obs::Duplicate | Obs::Ok => Ok(m),
                        o => Err(format!("create on a live id returned {o:?}")),
                    }
                } else {
                    match obs {
                        Obs::Ok => {
                            m.put(id, state, *ttl);
                            Ok(m)
                        }
                        o => Err(format!("create on a free (absent or expired) id returned {o:?}")),
                    }
                }
            }
            Op::Update { id, state, ttl } => {
                let id = k(id);
                match (self.live(id).is_some(), obs) {
                    (true, Obs::Ok) => {
                        m.put(id, state, *ttl);
                        Ok(m)
                    }
                    (false, Obs::Unknown) => Ok(m),
                    (l, o) => Err(format!("update on a {} record returned {o:?}", if l { "live" } else { "absent/expired" })),
                }
            }
            Op::UpdateTtl { id, ttl } => {
                let id = k(id);
                match (self.live(id).is_some(), obs) {
                    (true, Obs::Ok) => {
                        let r = m.recs.get_mut(&id).unwrap();
                        r.live = ttl % 3 != 0;
                        r.ttl_s = ttl_of(*ttl).as_millis() as u64;
                        if !r.live {
                            m.ghosts.insert(id);
                        }
                        Ok(m)
                    }
                    (false, Obs::Unknown) => Ok(m),
                    (l, o) => Err(format!("update_ttl on a {} record returned {o:?}", if l { "live" } else { "absent/expired" })),
                }
            }
            Op::Load { id } => {
                let id = k(id);
                match (self.live(id), obs) {
                    (Some(r), Obs::Loaded(Some((state, ttl)))) => {
                        if canon(state) != r.state {
                            return Err(format!("load returned {state:?}, last successful write was {}", r.state));
                        }
                        // (milliseconds: a record never lives longer than asked - not even by a fraction of a second -
                        // and not more than 30 s shorter)
                        if *ttl > r.ttl_s || *ttl + 30_000 < r.ttl_s {
                            return Err(format!("load returned a remaining ttl of {ttl} ms for a record written with ttl {} ms", r.ttl_s));
                        }
                        Ok(m)
                    }
                    (None, Obs::Loaded(None)) => Ok(m),
                    (Some(_), o) => Err(format!("load of a live record returned {o:?}")),
                    (None, o) => Err(format!("load of an absent/expired/deleted record returned {o:?}")),
                }
            }
            Op::Delete { id } => {
                let id = k(id);
                match (self.live(id).is_some(), obs) {
                    (true, Obs::Ok) => {
                        m.recs.remove(&id);
                        Ok(m)
                    }
                    (false, Obs::Unknown) => Ok(m),
                    (l, o) => Err(format!("delete on a {} record returned {o:?}", if l { "live" } else { "absent/expired" })),
                }
            }
            Op::ChangeId { old, new } => {
                let (old, new) = (k(old), k(new));
                let old_live = self.live(old).is_some();
                let new_live = self.live(new).is_some();
                match (old_live, new_live, obs) {
                    (false, false, Obs::Unknown) => Ok(m),
                    // both conditions hold: either error is fine
                    (false, true, Obs::Unknown | Obs::Duplicate) => Ok(m),
                    (true, true, Obs::Duplicate) => Ok(m),
                    (true, false, Obs::Ok) => {
                        let r = m.recs.remove(&old).unwrap();
                        m.recs.insert(new, r);
                        m.ghosts.remove(&new);
                        Ok(m)
                    }
                    // the target id may still be physically occupied by an expired, not yet purged
                    // record: the statement does not say what happens then; refusing is tolerated
                    (true, false, Obs::Duplicate) if self.ghosts.contains(&new) => Ok(m),
                    (o, n, obs) => Err(format!("change_id(old live={o}, new live={n}) returned {obs:?}")),
                }
            }
            Op::DeleteExpired { .. } => match obs {
                Obs::Deleted(n) => {
                    if *n > self.ghosts.len() {
                        return Err(format!("delete_expired removed {n} records but at most {} expired records can exist", self.ghosts.len()));
                    }
                    if *n == self.ghosts.len() {
                        m.ghosts.clear();
                        m.recs.retain(|_, r| r.live);
                    }
                    Ok(m)
                }
                o => Err(format!("delete_expired returned {o:?}")),
            },
        }
    }
}

thread_local! {
    static RT: tokio::runtime::Runtime = tokio::runtime::Builder::new_current_thread().enable_all().build().unwrap();
}

fn mt_rt() -> &'static tokio::runtime::Runtime {
    static R: std::sync::OnceLock<tokio::runtime::Runtime> = std::sync::OnceLock::new();
    R.get_or_init(|| tokio::runtime::Builder::new_multi_thread().worker_threads(4).enable_all().build().unwrap())
}

fn op_name(op: &Op) -> &'static str {
    match op {
        Op::Create { .. } => "create",
        Op::Update { .. } => "update",
        Op::UpdateTtl { .. } => "update_ttl",
        Op::Load { .. } => "load",
        Op::Delete { .. } => "delete",
        Op::ChangeId { .. } => "change_id",
        Op::DeleteExpired { .. } => "delete_expired",
    }
}

fn fresh_ids(n: usize) -> Vec<SessionId> {
    (0..n).map(|_| SessionId::random()).collect()
}

pub fn seq_oracle(c: &SeqCase) -> CaseResult {
    let r = crate::util::catch(|| RT.with(|rt| rt.block_on(run_seq(c))));
    match r {
        Ok(r) => r,
        Err(p) => Err(Fail::new(format!("panic:{}", crate::util::panic_sig(&p)), format!("panicked: {p}"))),
    }
}

async fn run_seq(c: &SeqCase) -> CaseResult {
    let ids = fresh_ids(3);
    let store: Box<dyn SessionStorageBackend> = if c.sqlite {
        Box::new(crate::stores::sqlite_memory().await)
    } else {
        Box::new(InMemorySessionStore::new())
    };
    let mut m = Model::default();
    let mut info = CaseInfo::default();
    let backend = if c.sqlite { "sqlite" } else { "memory" };
    for (i, op) in c.ops.iter().enumerate() {
        let touches_expired = match op {
            Op::Create { id, .. } | Op::Update { id, .. } | Op::UpdateTtl { id, .. } | Op::Load { id } | Op::Delete { id } => {
                m.recs.get(&(id % 3)).is_some_and(|r| !r.live)
            }
            Op::ChangeId { old, new } => {
                m.recs.get(&(old % 3)).is_some_and(|r| !r.live)
                    || m.recs.get(&(new % 3)).is_some()
            }
            Op::DeleteExpired { .. } => !m.ghosts.is_empty(),
        };
        if let Op::ChangeId { old, new } = op {
            if old % 3 == new % 3 {
                info.lab("op:skipped(change_id onto itself)");
                continue;
            }
        }
        let obs = exec(store.as_ref(), &ids, op).await;
        match m.step(op, &obs, 3) {
            Ok(next) => m = next,
            Err(why) => {
                return Err(Fail::new(
                    format!("{backend}:{}", op_name(op)),
                    format!("{backend} store, op #{i} {op:?}: {why}\nhistory: {:?}", &c.ops[..=i]),
                ));
            }
        }
        if touches_expired {
            info.set_nontrivial(true);
            info.lab("touches-expired-or-occupied-target");
        }
        info.lab(format!("op:{}", op_name(op)));
    }
    // final scan: every id reads as the model says
    for i in 0..3u8 {
        let op = Op::Load { id: i };
        let obs = exec(store.as_ref(), &ids, &op).await;
        if let Err(why) = m.step(&op, &obs, 3) {
            return Err(Fail::new(format!("{backend}:final-scan"), format!("{backend} store, final scan of id {i}: {why}\nhistory: {:?}", c.ops)));
        }
    }
    Ok(info)
}

// ------------------------------------------------------------------------------------------
// Concurrent histories: is there a sequential order (respecting each task's program order) that
// explains every observed result and the final loads?
// ------------------------------------------------------------------------------------------

fn explain(
    m: &Model,
    pos: &mut Vec<usize>,
    tasks: &[Vec<(Op, Obs)>],
    finals: &[(Op, Obs)],
    n_ids: usize,
    seen: &mut HashSet<(Vec<usize>, Model)>,
    budget: &mut usize,
) -> bool {
    if *budget == 0 {
        return true; // inconclusive: give the implementation the benefit of the doubt
    }
    *budget -= 1;
    if pos.iter().zip(tasks).all(|(p, t)| *p == t.len()) {
        let mut mm = m.clone();
        for (op, obs) in finals {
            match mm.step(op, obs, n_ids) {
                Ok(n) => mm = n,
                Err(_) => return false,
            }
        }
        return true;
    }
    if !seen.insert((pos.clone(), m.clone())) {
        return false;
    }
    for t in 0..tasks.len() {
        if pos[t] < tasks[t].len() {
            let (op, obs) = &tasks[t][pos[t]];
            if let Ok(next) = m.step(op, obs, n_ids) {
                pos[t] += 1;
                let ok = explain(&next, pos, tasks, finals, n_ids, seen, budget);
                pos[t] -= 1;
                if ok {
                    return true;
                }
            }
        }
    }
    false
}

static DB_COUNTER: std::sync::atomic::AtomicUsize = std::sync::atomic::AtomicUsize::new(0);

pub fn conc_oracle(c: &ConcCase, repeats: usize) -> CaseResult {
    let r = crate::util::catch(|| mt_rt().block_on(run_conc(c, repeats)));
    match r {
        Ok(r) => r,
        Err(p) => Err(Fail::new(format!("panic:{}", crate::util::panic_sig(&p)), format!("panicked: {p}"))),
    }
}

async fn run_conc(c: &ConcCase, repeats: usize) -> CaseResult {
    let backend = if c.sqlite { "sqlite" } else { "memory" };
    let n_ids = 2usize;
    let mut info = CaseInfo::default();
    let writers_same_id = {
        let mut per_id: BTreeMap<u8, BTreeSet<usize>> = BTreeMap::new();
        for (t, ops) in c.tasks.iter().enumerate() {
            for op in ops {
                let ids: Vec<u8> = match op {
                    Op::Create { id, .. } | Op::Update { id, .. } | Op::UpdateTtl { id, .. } | Op::Delete { id } => vec![*id % 2],
                    Op::ChangeId { old, new } => vec![*old % 2, *new % 2],
                    _ => vec![],
                };
                for i in ids {
                    per_id.entry(i).or_default().insert(t);
                }
            }
        }
        per_id.values().any(|s| s.len() >= 2)
    };
    if writers_same_id {
        info.set_nontrivial(true);
        info.lab("conc:>=2-tasks-write-the-same-id");
    }
    let dir = std::path::Path::new("/verif/.work/c13db");
    let _ = std::fs::create_dir_all(dir);
    let db_path = dir.join(format!("c13-{}-{}.db", std::process::id(), DB_COUNTER.fetch_add(1, std::sync::atomic::Ordering::Relaxed)));
    let store: Arc<dyn SessionStorageBackend> = if c.sqlite {
        Arc::new(crate::stores::sqlite_file(&db_path, 4).await)
    } else {
        Arc::new(InMemorySessionStore::new())
    };
    let mut result = Ok(());
    'rep: for rep in 0..repeats {
        let ids = Arc::new(fresh_ids(n_ids));
        let mut m = Model::default();
        for op in &c.setup {
            if let Op::ChangeId { old, new } = op {
                if old % 2 == new % 2 {
                    continue;
                }
            }
            let obs = exec(store.as_ref(), &ids, op).await;
            match m.step(op, &obs, n_ids) {
                Ok(n) => m = n,
                Err(why) => {
                    result = Err(Fail::new(format!("{backend}:{}", op_name(op)), format!("{backend} store, sequential setup op {op:?}: {why}")));
                    break 'rep;
                }
            }
        }
        let barrier = Arc::new(tokio::sync::Barrier::new(c.tasks.len()));
        let mut handles = vec![];
        for (t, ops) in c.tasks.iter().enumerate() {
            let ops: Vec<Op> = ops
                .iter()
                .filter(|op| !matches!(op, Op::ChangeId { old, new } if old % 2 == new % 2))
                .cloned()
                .collect();
            let store = store.clone();
            let ids = ids.clone();
            let barrier = barrier.clone();
            let yields = c.yields.clone();
            handles.push(tokio::spawn(async move {
                barrier.wait().await;
                let mut out = vec![];
                for (i, op) in ops.into_iter().enumerate() {
                    let y = yields.get((t * 7 + i + rep) % yields.len().max(1)).copied().unwrap_or(0) % 3;
                    for _ in 0..y {
                        tokio::task::yield_now().await;
                    }
                    let obs = exec(store.as_ref(), &ids, &op).await;
                    out.push((op, obs));
                }
                out
            }));
        }
        let mut tasks: Vec<Vec<(Op, Obs)>> = vec![];
        for h in handles {
            tasks.push(h.await.expect("task"));
        }
        let mut finals = vec![];
        for i in 0..n_ids as u8 {
            let op = Op::Load { id: i };
            let obs = exec(store.as_ref(), &ids, &op).await;
            finals.push((op, obs));
        }
        let mut pos = vec![0; tasks.len()];
        let mut seen = HashSet::new();
        let mut budget = 200_000usize;
        let ok = explain(&m, &mut pos, &tasks, &finals, n_ids, &mut seen, &mut budget);
        if budget == 0 {
            info.lab("conc:search-budget-exhausted");
        }
        if !ok {
            result = Err(Fail::new(
                format!("{backend}:not-serialisable"),
                format!(
                    "{backend} store, repetition {rep}: no sequential order of the tasks' operations explains what was observed.\nsetup: {:?}\nobserved per task: {}\nfinal loads: {:?}",
                    c.setup,
                    tasks
                        .iter()
                        .enumerate()
                        .map(|(t, v)| format!("\n  task {t}: {}", v.iter().map(|(o, r)| format!("{}{:?} -> {}", op_name(o), ids_of(o), short(r))).collect::<Vec<_>>().join("; ")))
                        .collect::<String>(),
                    finals.iter().map(|(_, r)| short(r)).collect::<Vec<_>>()
                ),
            ));
            break 'rep;
        }
    }
    drop(store);
    if c.sqlite {
        for ext in ["", "-wal", "-shm", "-journal"] {
            let _ = std::fs::remove_file(format!("{}{}", db_path.display(), ext));
        }
    }
    result.map(|_| info)
}

// ------------------------------------------------------------------------------------------
// Expired leftovers under contention: many ids whose record has expired but was not reaped yet;
// then, at the same time, reaper tasks call delete_expired (any batch size) and creator tasks
// re-create the ids. Whatever the interleaving, a sequential order of these operations leaves,
// for every id, exactly the record of a creator whose create returned Ok: delete_expired removes
// only expired records, create never overwrites a live record.
// ------------------------------------------------------------------------------------------

#[derive(Clone, Debug, Serialize, Deserialize)]
pub struct LeftoverCase {
    pub sqlite: bool,
    pub n_ids: u16,
    /// delete_expired batch size (None = unbounded)
    pub batch: Option<u16>,
    pub reapers: u8,
    pub creators: u8,
    /// every creator tries every id (true) or the ids are split among the creators (false)
    pub contended: bool,
    /// the expired records carry a large state (dropping it takes a while)
    pub big_old_state: bool,
}

pub fn leftover_oracle(c: &LeftoverCase) -> CaseResult {
    let r = crate::util::catch(|| mt_rt().block_on(run_leftovers(c)));
    match r {
        Ok(r) => r,
        Err(p) => Err(Fail::new(format!("panic:{}", crate::util::panic_sig(&p)), format!("panicked: {p}"))),
    }
}

async fn run_leftovers(c: &LeftoverCase) -> CaseResult {
    let backend = if c.sqlite { "sqlite" } else { "memory" };
    let mut info = CaseInfo::default();
    let dir = std::path::Path::new("/verif/.work/c13db");
    let _ = std::fs::create_dir_all(dir);
    let db_path = dir.join(format!("c13-left-{}-{}.db", std::process::id(), DB_COUNTER.fetch_add(1, std::sync::atomic::Ordering::Relaxed)));
    let store: Arc<dyn SessionStorageBackend> = if c.sqlite { Arc::new(crate::stores::sqlite_file(&db_path, 6).await) } else { Arc::new(InMemorySessionStore::new()) };
    let n = c.n_ids.max(2) as usize;
    let ids = Arc::new(fresh_ids(n));
    // ---- leftovers: records that expire at once
    let filler = if c.big_old_state { "x".repeat(64 * 1024) } else { "x".to_string() };
    for id in ids.iter() {
        let mut st = State::default();
        st.insert("old".into(), Value::from(filler.clone()));
        if let Err(e) = store.create(id, SessionRecordRef { state: Cow::Borrowed(&st), ttl: Duration::ZERO }).await {
            return Err(Fail::new(format!("{backend}:create"), format!("{backend} store: creating a fresh id failed: {e:?}")));
        }
    }
    // SQLite deadlines have a resolution of one second: wait until the leftovers are strictly in the past
    tokio::time::sleep(Duration::from_millis(if c.sqlite { 1100 } else { 3 })).await;
    // ---- reapers and creators start together
    let n_creators = c.creators.clamp(1, 4) as usize;
    let n_reapers = c.reapers.min(2) as usize;
    let barrier = Arc::new(tokio::sync::Barrier::new(n_creators + n_reapers));
    let batch = c.batch.and_then(|b| NonZeroUsize::new(b as usize));
    let mut reaper_handles = vec![];
    for _ in 0..n_reapers {
        let (store, barrier) = (store.clone(), barrier.clone());
        reaper_handles.push(tokio::spawn(async move {
            barrier.wait().await;
            let mut errors = vec![];
            for _ in 0..60 {
                match store.delete_expired(batch).await {
                    Ok(_) => {}
                    Err(e) => errors.push(format!("{e:?}")),
                }
                tokio::task::yield_now().await;
            }
            errors
        }));
    }
    let mut creator_handles = vec![];
    for t in 0..n_creators {
        let (store, barrier, ids) = (store.clone(), barrier.clone(), ids.clone());
        let contended = c.contended;
        creator_handles.push(tokio::spawn(async move {
            barrier.wait().await;
            let mut oks: Vec<usize> = vec![];
            let mut errors = vec![];
            for k in 0..ids.len() {
                // every creator walks the ids in its own order
                let i = (k + t * 13) % ids.len();
                if !contended && i % n_creators != t {
                    continue;
                }
                let mut st = State::default();
                st.insert("by".into(), Value::from(t as u64));
                match store.create(&ids[i], SessionRecordRef { state: Cow::Borrowed(&st), ttl: Duration::from_secs(3600) }).await {
                    Ok(()) => oks.push(i),
                    Err(CreateError::DuplicateId(_)) => {}
                    Err(e) => errors.push(format!("{e:?}")),
                }
            }
            (oks, errors)
        }));
    }
    let mut ok_by: Vec<Vec<usize>> = vec![vec![]; n];
    for (t, h) in creator_handles.into_iter().enumerate() {
        let (oks, errors) = h.await.map_err(|e| Fail::new("harness:join", e.to_string()))?;
        if let Some(e) = errors.first() {
            return Err(Fail::new(format!("{backend}:create"), format!("{backend} store: create failed with {e}")));
        }
        for i in oks {
            ok_by[i].push(t);
        }
    }
    for h in reaper_handles {
        let errors = h.await.map_err(|e| Fail::new("harness:join", e.to_string()))?;
        if let Some(e) = errors.first() {
            return Err(Fail::new(format!("{backend}:delete_expired"), format!("{backend} store: delete_expired failed with {e}")));
        }
    }
    // ---- what every sequential order implies
    let mut result = Ok(());
    for (i, id) in ids.iter().enumerate() {
        if !c.contended && ok_by[i].is_empty() && n_creators > 0 {
            // the creator responsible for this id must have succeeded: the old record had expired
            result = Err(Fail::new(format!("{backend}:create-refused-on-expired-leftover"), format!("{backend} store: no create succeeded for an id whose previous record had expired")));
            break;
        }
        if c.contended && ok_by[i].is_empty() {
            result = Err(Fail::new(format!("{backend}:create-refused-on-expired-leftover"), format!("{backend} store: {n_creators} tasks tried to create an id whose previous record had expired, none succeeded")));
            break;
        }
        if !c.sqlite && ok_by[i].len() > 1 {
            // (the SQLite store may answer Ok without effect for a live id: pinned by an upstream test)
            result = Err(Fail::new("memory:two-creates-succeeded-for-one-id", format!("memory store: create returned Ok to {} tasks for the same id: a live record was overwritten", ok_by[i].len())));
            break;
        }
        match store.load(id).await {
            Ok(Some(r)) => {
                let by = r.state.get("by").and_then(|v| v.as_u64()).map(|t| t as usize);
                if !by.is_some_and(|t| ok_by[i].contains(&t)) {
                    result = Err(Fail::new(format!("{backend}:final-state"), format!("{backend} store: the record of an id holds {:?}, which is not the state of a task whose create succeeded ({:?})", r.state, ok_by[i])));
                    break;
                }
            }
            Ok(None) => {
                result = Err(Fail::new(
                    format!("{backend}:live-record-lost"),
                    format!("{backend} store: create returned Ok (ttl 1h) for an id but the record is gone right afterwards ({} reaper task(s) were calling delete_expired({:?}) meanwhile)", n_reapers, c.batch),
                ));
                break;
            }
            Err(e) => {
                result = Err(Fail::new(format!("{backend}:load"), format!("{e:?}")));
                break;
            }
        }
    }
    drop(store);
    if c.sqlite {
        let _ = std::fs::remove_file(&db_path);
        let _ = std::fs::remove_file(db_path.with_extension("db-wal"));
        let _ = std::fs::remove_file(db_path.with_extension("db-shm"));
    }
    result?;
    info.set_nontrivial(c.contended || n_reapers > 0);
    info.lab(format!("leftovers:{}{}", if c.contended { "contended" } else { "partitioned" }, if n_reapers > 0 { "+reapers" } else { "" }));
    Ok(info)
}

pub fn leftover_strategy(sqlite: bool) -> impl Strategy<Value = LeftoverCase> {
    (
        // (now and then far more leftovers than any internal chunking of a sweep would hold at once; cheap in memory only)
        if sqlite { (20u16..200).boxed() } else { prop_oneof![4 => 20u16..200, 1 => 520u16..3000].boxed() },
        prop_oneof![2 => Just(None), 2 => Just(Some(1u16)), 2 => Just(Some(7)), 2 => Just(Some(64)), 1 => Just(Some(1000))],
        (if sqlite { 1u8 } else { 0u8 })..3,
        2u8..5,
        any::<bool>(),
        prop::bool::weighted(0.3),
    )
        .prop_map(move |(n_ids, batch, reapers, creators, contended, big_old_state)| {
            let (batch, big_old_state, reapers) = if n_ids >= 500 { (batch.filter(|b| *b >= 64), false, reapers.max(1)) } else { (batch, big_old_state, reapers) };
            LeftoverCase { sqlite, n_ids, batch, reapers, creators, contended, big_old_state }
        })
}

// ------------------------------------------------------------------------------------------
// Renames onto an expired leftover: an id whose record has expired but was not reaped, and 2-3 live records that are
// renamed onto it at the same time (`change_id(a_j, b)`), optionally next to a reaper. In every sequential order at most
// one rename can succeed (after the first, `b` is live); the winner's state is what `b` holds afterwards, the sources of
// the losers are untouched. (Whether a rename onto an expired-but-unreaped id succeeds at all differs between the two
// stores and is not judged.)
// ------------------------------------------------------------------------------------------

#[derive(Clone, Debug, Serialize, Deserialize)]
pub struct RenameCase {
    pub sqlite: bool,
    pub n_targets: u16,
    pub renamers: u8,
    pub reaper: bool,
}

pub fn rename_oracle(c: &RenameCase) -> CaseResult {
    let r = crate::util::catch(|| mt_rt().block_on(run_renames(c)));
    match r {
        Ok(r) => r,
        Err(p) => Err(Fail::new(format!("panic:{}", crate::util::panic_sig(&p)), format!("panicked: {p}"))),
    }
}

async fn run_renames(c: &RenameCase) -> CaseResult {
    let backend = if c.sqlite { "sqlite" } else { "memory" };
    let mut info = CaseInfo::default();
    let dir = std::path::Path::new("/verif/.work/c13db");
    let _ = std::fs::create_dir_all(dir);
    let db_path = dir.join(format!("c13-ren-{}-{}.db", std::process::id(), DB_COUNTER.fetch_add(1, std::sync::atomic::Ordering::Relaxed)));
    let store: Arc<dyn SessionStorageBackend> = if c.sqlite { Arc::new(crate::stores::sqlite_file(&db_path, 6).await) } else { Arc::new(InMemorySessionStore::new()) };
    let n = c.n_targets.max(1) as usize;
    let r = c.renamers.clamp(2, 3) as usize;
    let targets = Arc::new(fresh_ids(n));
    let sources: Arc<Vec<Vec<SessionId>>> = Arc::new((0..r).map(|_| fresh_ids(n)).collect());
    let state_of = |j: usize, k: usize| {
        let mut st = State::default();
        st.insert("src".into(), Value::from(j as u64));
        st.insert("k".into(), Value::from(k as u64));
        st
    };
    for k in 0..n {
        let mut old = State::default();
        old.insert("old".into(), Value::from(k as u64));
        store.create(&targets[k], SessionRecordRef { state: Cow::Borrowed(&old), ttl: Duration::ZERO }).await.map_err(|e| Fail::new(format!("{backend}:create"), format!("{e:?}")))?;
        for j in 0..r {
            store.create(&sources[j][k], SessionRecordRef { state: Cow::Owned(state_of(j, k)), ttl: Duration::from_secs(3600) }).await.map_err(|e| Fail::new(format!("{backend}:create"), format!("{e:?}")))?;
        }
    }
    tokio::time::sleep(Duration::from_millis(if c.sqlite { 1100 } else { 3 })).await;
    let barrier = Arc::new(tokio::sync::Barrier::new(r + c.reaper as usize));
    let reaper = if c.reaper {
        let (store, barrier) = (store.clone(), barrier.clone());
        Some(tokio::spawn(async move {
            barrier.wait().await;
            for _ in 0..20 {
                let _ = store.delete_expired(NonZeroUsize::new(16)).await;
                tokio::task::yield_now().await;
            }
        }))
    } else {
        None
    };
    let mut hs = vec![];
    for j in 0..r {
        let (store, barrier, targets, sources) = (store.clone(), barrier.clone(), targets.clone(), sources.clone());
        hs.push(tokio::spawn(async move {
            barrier.wait().await;
            let mut oks = vec![];
            for k in 0..targets.len() {
                if store.change_id(&sources[j][k], &targets[k]).await.is_ok() {
                    oks.push(k);
                }
            }
            oks
        }));
    }
    let mut ok_by: Vec<Vec<usize>> = vec![vec![]; n];
    for (j, h) in hs.into_iter().enumerate() {
        for k in h.await.map_err(|e| Fail::new("harness:join", e.to_string()))? {
            ok_by[k].push(j);
        }
    }
    if let Some(h) = reaper {
        let _ = h.await;
    }
    let mut result = Ok(());
    let mut contended_wins = 0;
    'outer: for k in 0..n {
        if ok_by[k].len() > 1 {
            result = Err(Fail::new(
                format!("{backend}:two-renames-onto-one-id-succeeded"),
                format!("{backend} store: change_id onto the same id (held by an expired, unreaped record) returned Ok to {} concurrent callers: in every sequential order the second one finds a live record there", ok_by[k].len()),
            ));
            break;
        }
        let loaded = store.load(&targets[k]).await.map_err(|e| Fail::new(format!("{backend}:load"), format!("{e:?}")))?;
        match (ok_by[k].first(), loaded) {
            (Some(j), Some(rec)) if rec.state == state_of(*j, k) => contended_wins += 1,
            (Some(j), other) => {
                result = Err(Fail::new(format!("{backend}:rename-lost"), format!("{backend} store: change_id returned Ok to caller {j} but the target id holds {:?}", other.map(|r| r.state))));
                break;
            }
            (None, Some(rec)) => {
                result = Err(Fail::new(format!("{backend}:rename-without-ok"), format!("{backend} store: no change_id succeeded but the target id holds a live record {:?}", rec.state)));
                break;
            }
            (None, None) => {}
        }
        for j in 0..r {
            let src = store.load(&sources[j][k]).await.map_err(|e| Fail::new(format!("{backend}:load"), format!("{e:?}")))?;
            let winner = ok_by[k].first() == Some(&j);
            match (winner, src) {
                (true, None) => {}
                (true, Some(_)) => {
                    result = Err(Fail::new(format!("{backend}:rename-left-old-id"), format!("{backend} store: change_id returned Ok but the old id still loads")));
                    break 'outer;
                }
                (false, Some(rec)) if rec.state == state_of(j, k) => {}
                (false, other) => {
                    result = Err(Fail::new(
                        format!("{backend}:failed-rename-destroyed-its-source"),
                        format!("{backend} store: change_id failed for caller {j} (another caller won the id) but its own live record now loads as {:?}", other.map(|r| r.state)),
                    ));
                    break 'outer;
                }
            }
        }
    }
    drop(store);
    if c.sqlite {
        let _ = std::fs::remove_file(&db_path);
        let _ = std::fs::remove_file(db_path.with_extension("db-wal"));
        let _ = std::fs::remove_file(db_path.with_extension("db-shm"));
    }
    result?;
    info.set_nontrivial(true);
    info.lab(format!("renames-onto-expired:{}{}", if contended_wins > 0 { "some-won" } else { "none-won" }, if c.reaper { "+reaper" } else { "" }));
    Ok(info)
}

pub fn rename_strategy(sqlite: bool) -> impl Strategy<Value = RenameCase> {
    (40u16..240, 2u8..4, any::<bool>()).prop_map(move |(n_targets, renamers, reaper)| RenameCase { sqlite, n_targets, renamers, reaper })
}

fn ids_of(op: &Op) -> Vec<u8> {
    match op {
        Op::Create { id, .. } | Op::Update { id, .. } | Op::UpdateTtl { id, .. } | Op::Load { id } | Op::Delete { id } => vec![*id % 2],
        Op::ChangeId { old, new } => vec![*old % 2, *new % 2],
        Op::DeleteExpired { .. } => vec![],
    }
}

fn short(o: &Obs) -> String {
    match o {
        Obs::Loaded(Some((m, _))) => {
            let s = canon(m);
            format!("Some({})", if s.len() > 40 { format!("{}..[{}B]", &s[..40.min(s.len())].escape_debug(), s.len()) } else { s })
        }
        Obs::Loaded(None) => "None".into(),
        o => format!("{o:?}"),
    }
}

// ------------------------------------------------------------------------------------------
// Generators
// ------------------------------------------------------------------------------------------

fn json_value() -> impl Strategy<Value = Value> {
    let leaf = prop_oneof![
        Just(Value::Null),
        any::<bool>().prop_map(Value::from),
        any::<i64>().prop_map(Value::from),
        any::<u64>().prop_map(Value::from),
        // serde_json (without its `float_roundtrip` feature, as built here) parses some decimal
        // texts 1 ULP off; such numbers cannot survive *any* JSON text channel, which is not a
        // store property: keep only floats that survive text encoding in the harness itself.
        // (by construction, not by rejection: an unsafe float is replaced by what its text form parses to)
        any::<f64>()
            .prop_map(|f| {
                let mut f = if f.is_finite() { f } else { 0.5 };
                for _ in 0..4 {
                    let back = serde_json::from_str::<Value>(&serde_json::to_string(&Value::from(f)).unwrap()).ok().and_then(|v| v.as_f64());
                    match back {
                        Some(b) if b == f => return Value::from(f),
                        Some(b) if b.is_finite() => f = b,
                        _ => break,
                    }
                }
                Value::from(0.5f64)
            }),
        prop_oneof![
            Just(0.1f64),
            Just(-0.0f64),
            Just(1e300f64),
            Just(5e-324f64),
            Just(0.30000000000000004f64)
        ]
        .prop_map(Value::from),
        any::<String>().prop_map(Value::from),
        "[ -~]{0,12}".prop_map(Value::from),
        Just(Value::from("\u{10FFFF}\u{1F600}é\t\n\"\\'%;")),
    ];
    leaf.prop_recursive(3, 16, 4, |inner| {
        prop_oneof![
            prop::collection::vec(inner.clone(), 0..4).prop_map(Value::Array),
            prop::collection::btree_map(any::<String>(), inner, 0..4)
                .prop_map(|m| Value::Object(m.into_iter().collect())),
        ]
    })
}

fn state_map() -> impl Strategy<Value = Map> {
    prop_oneof![
        1 => Just(Map::new()),
        6 => prop::collection::btree_map(
            prop_oneof![3 => "[a-z_.]{1,6}", 1 => any::<String>()],
            json_value(),
            0..4
        ),
    ]
}

fn seq_op() -> impl Strategy<Value = Op> {
    let id = 0u8..3;
    let ttl = prop_oneof![4 => Just(0u8), 4 => Just(1u8), 2 => Just(2u8), 2 => Just(4u8), 2 => Just(7u8), 1 => Just(8u8)];
    prop_oneof![
        5 => (id.clone(), state_map(), ttl.clone()).prop_map(|(id, state, ttl)| Op::Create { id, state, ttl }),
        4 => (id.clone(), state_map(), ttl.clone()).prop_map(|(id, state, ttl)| Op::Update { id, state, ttl }),
        2 => (id.clone(), ttl).prop_map(|(id, ttl)| Op::UpdateTtl { id, ttl }),
        4 => id.clone().prop_map(|id| Op::Load { id }),
        2 => id.clone().prop_map(|id| Op::Delete { id }),
        3 => (id.clone(), id).prop_map(|(old, new)| Op::ChangeId { old, new }),
        1 => prop::option::of(0u8..3).prop_map(|batch| Op::DeleteExpired { batch }),
    ]
}

pub fn seq_strategy(sqlite: bool) -> impl Strategy<Value = SeqCase> {
    prop::collection::vec(seq_op(), 1..=40).prop_map(move |ops| SeqCase { sqlite, ops })
}

fn small_state() -> impl Strategy<Value = Map> {
    prop_oneof![
        4 => (0u8..6).prop_map(|i| {
            let mut m = Map::new();
            m.insert("v".into(), Value::from(i));
            m
        }),
        1 => (0u8..3).prop_map(|i| {
            // a large state: widens check-then-act windows inside a store
            let mut m = Map::new();
            m.insert("v".into(), Value::from(100 + i));
            m.insert("blob".into(), Value::Array((0..30_000).map(|x| Value::from(x as u64 * 7919)).collect()));
            m
        }),
    ]
}

fn conc_op() -> impl Strategy<Value = Op> {
    let id = 0u8..2;
    let ttl = prop_oneof![Just(1u8), Just(2u8)];
    prop_oneof![
        3 => (id.clone(), small_state(), ttl.clone()).prop_map(|(id, state, ttl)| Op::Create { id, state, ttl }),
        4 => (id.clone(), small_state(), ttl.clone()).prop_map(|(id, state, ttl)| Op::Update { id, state, ttl }),
        1 => (id.clone(), ttl).prop_map(|(id, ttl)| Op::UpdateTtl { id, ttl }),
        3 => id.clone().prop_map(|id| Op::Load { id }),
        3 => id.clone().prop_map(|id| Op::Delete { id }),
        3 => (id.clone(), id).prop_map(|(old, new)| Op::ChangeId { old, new }),
    ]
}

pub fn conc_strategy(sqlite: bool) -> impl Strategy<Value = ConcCase> {
    (
        prop::collection::vec(conc_op(), 0..=2),
        prop::collection::vec(prop::collection::vec(conc_op(), 2..=5), 2..=4),
        prop::collection::vec(0u8..3, 1..8),
    )
        .prop_map(move |(setup, tasks, yields)| ConcCase { sqlite, setup, tasks, yields })
}

pub fn main(mut chk: Check) -> ! {
    chk.ev.rule = "sequential: 1-40 store operations (create/update/update_ttl/load/delete/change_id/delete_expired) over 3 ids, states = arbitrary JSON maps (any unicode, extreme numbers), ttl in {0 = expired at once, 1h, 10y, 1h+100ms, 1h+999ms, 10y+999ms}, on the in-memory and the SQLite store; every result is checked against a map-with-expiry model and every id is loaded at the end. concurrent: 2-4 tasks x 2-5 ops on 2 ids (long TTLs), multi-thread runtime, barrier start, random yields, each history repeated; oracle = some interleaving respecting program order explains all results and final loads (memoised DFS). leftovers: 20-200 ids with an expired, unreaped record; 0-2 reaper tasks (delete_expired, batch none/1/7/64) and 2-4 creator tasks (contended or partitioned) start together; oracle = what every sequential order implies (some create succeeds per id, in-memory exactly one, the final record is the one of a successful creator, never gone). renames: 40-240 ids held by an expired, unreaped record, each the target of 2-3 concurrent change_id calls from live records (optionally next to a reaper); oracle = at most one rename per target succeeds, the target then holds the winner's state, losers keep their record. non-trivial = an op touches an expired record or a change_id whose target exists (sequential), >=2 tasks write the same id (concurrent); distinct = distinct serialised case".into();
    chk.ev.assume("create on a live id may answer DuplicateId or Ok-without-effect (the latter is pinned by an upstream SQLite test)");
    chk.ev.assume("change_id onto an id still physically occupied by an expired, unpurged record may be refused (not covered by the statement)");
    chk.ev.assume("floating point numbers are restricted to those that survive serde_json text encoding/decoding in the harness (serde_json is built without float_roundtrip; 1-ULP parse errors are a property of that library, not of the stores)");
    chk.ev.assume("expiry is controlled through ttl=0; long TTLs never expire during a case; the harness does not own the thread schedule of the concurrent part (sampling)");
    let reps = match chk.tier() {
        vcommon::Tier::Quick => 6,
        vcommon::Tier::Thorough => 25,
    };
    if let Some(p) = chk.settings.replay.clone() {
        let ok = chk.replay_one::<SeqCase, _>("sequential-memory", &p, seq_oracle)
            || chk.replay_one::<SeqCase, _>("sequential-sqlite", &p, seq_oracle)
            || chk.replay_one::<ConcCase, _>("concurrent-memory", &p, |c| conc_oracle(c, 50))
            || chk.replay_one::<ConcCase, _>("concurrent-sqlite", &p, |c| conc_oracle(c, 50))
            || chk.replay_one::<LeftoverCase, _>("leftovers-memory", &p, leftover_oracle)
            || chk.replay_one::<LeftoverCase, _>("leftovers-sqlite", &p, leftover_oracle)
            || chk.replay_one::<RenameCase, _>("renames-memory", &p, rename_oracle)
            || chk.replay_one::<RenameCase, _>("renames-sqlite", &p, rename_oracle);
        if !ok {
            eprintln!("replay file {} does not belong to C13", p.display());
            std::process::exit(2);
        }
        chk.finish();
    }
    for p in chk.committed_replays() {
        let _ = chk.replay_one::<SeqCase, _>("sequential-memory", &p, seq_oracle)
            || chk.replay_one::<SeqCase, _>("sequential-sqlite", &p, seq_oracle)
            || chk.replay_one::<ConcCase, _>("concurrent-memory", &p, |c| conc_oracle(c, 50))
            || chk.replay_one::<ConcCase, _>("concurrent-sqlite", &p, |c| conc_oracle(c, 50));
    }
    let t = chk.tier();
    chk.run("sequential-memory", t.pick(30_000, 300_000), seq_strategy(false), seq_oracle);
    chk.run("sequential-sqlite", t.pick(2_500, 40_000), seq_strategy(true), seq_oracle);
    chk.run("concurrent-memory", t.pick(600, 6_000), conc_strategy(false), |c| conc_oracle(c, reps));
    chk.run("concurrent-sqlite", t.pick(60, 1_500), conc_strategy(true), |c| conc_oracle(c, reps));
    chk.run("leftovers-memory", t.pick(60, 1_500), leftover_strategy(false), leftover_oracle);
    chk.run("leftovers-sqlite", t.pick(10, 120), leftover_strategy(true), leftover_oracle);
    chk.run("renames-memory", t.pick(40, 1_000), rename_strategy(false), rename_oracle);
    chk.run("renames-sqlite", t.pick(8, 100), rename_strategy(true), rename_oracle);
    chk.finish()
}
