//! C19 (a) — what you register is what the compiler sees: builder -> RON -> schema round trip.
//! (Part (b), attributes -> rustdoc JSON -> annotation parser, lives in the E2E engine.)
use pavex::Blueprint;
use pavex::blueprint::reflection::{AnnotationCoordinates, CreatedAt, Sources};
use pavex::blueprint::{
    CloningPolicy, Config, Constructor, ErrorHandler, ErrorObserver, Fallback, Import, Lifecycle, Lint,
    PostProcessingMiddleware, PreProcessingMiddleware, Prebuilt, Route, WrappingMiddleware,
};
use pavex_bp_schema as s;
use proptest::prelude::*;
use serde::{Deserialize, Serialize};
use vcommon::{CaseInfo, CaseResult, Check, Fail};

const IDS: [&str; 6] = ["A_CTOR", "GET_HOME", "MW_1", "ERR_H", "OBS", "CFG_X"];
const PKGS: [(&str, &str); 3] = [("app", "0.1.0"), ("dep-crate", "1.2.3-beta.1"), ("pavex", "0.2.10")];
const MACROS: [&str; 5] = ["constructor", "get", "wrap", "error_handler", "config"];
const PREFIXES: [&str; 5] = ["/api", "/v1/{tenant}", "", "/a/b", "no-slash"];
const DOMAINS: [&str; 4] = ["pavex.dev", "{sub}.example.com", "{*any}.x.io", "not a domain!"];
const MODULES: [&str; 4] = ["crate", "crate::routes", "super::x", "dep_crate::y"];

#[derive(Clone, Debug, Serialize, Deserialize, PartialEq)]
pub struct Coord(pub u8, pub u8, pub u8);

#[derive(Clone, Debug, Serialize, Deserialize, PartialEq)]
pub enum Src {
    All,
    Some(Vec<u8>),
}

#[derive(Clone, Debug, Serialize, Deserialize, PartialEq)]
pub enum Modif {
    Prefix(u8),
    Domain(u8),
}

#[derive(Clone, Debug, Serialize, Deserialize, PartialEq)]
pub enum BOp {
    Constructor { c: Coord, lifecycle: Option<u8>, cloning: Vec<bool>, eh: Option<Coord>, lints: Vec<(bool, u8)> },
    Wrap { c: Coord, eh: Option<Coord> },
    Pre { c: Coord, eh: Option<Coord> },
    Post { c: Coord, eh: Option<Coord> },
    Route { c: Coord, eh: Option<Coord> },
    Fallback { c: Coord, eh: Option<Coord> },
    ErrorObserver { c: Coord },
    ErrorHandler { c: Coord },
    Prebuilt { c: Coord, cloning: Vec<bool> },
    Config { c: Coord, cloning: Vec<bool>, dim: Vec<bool>, include_if_unused: bool },
    Import { src: Src, module: u8, pkg: u8 },
    Routes { src: Src, module: u8, pkg: u8 },
    /// `bp.nest(child)` when `modifs` is empty, `bp.prefix(..)/.domain(..)…nest(child)` otherwise
    Nest { modifs: Vec<Modif>, child: Vec<BOp> },
    /// `bp.prefix(..)/.domain(..)….routes(import)`; needs >= 1 modifier
    NestRoutes { modifs: Vec<Modif>, src: Src, module: u8, pkg: u8 },
}

#[derive(Clone, Debug, Serialize, Deserialize)]
pub struct Case {
    pub ops: Vec<BOp>,
}

fn coords(c: &Coord) -> AnnotationCoordinates {
    let (p, v) = PKGS[c.1 as usize % PKGS.len()];
    AnnotationCoordinates {
        id: IDS[c.0 as usize % IDS.len()],
        created_at: CreatedAt { package_name: p, package_version: v },
        macro_name: MACROS[c.2 as usize % MACROS.len()],
    }
}

fn scoords(c: &Coord) -> s::AnnotationCoordinates {
    let (p, v) = PKGS[c.1 as usize % PKGS.len()];
    s::AnnotationCoordinates {
        id: IDS[c.0 as usize % IDS.len()].to_string(),
        created_at: s::CreatedAt { package_name: p.to_string(), package_version: v.to_string() },
        macro_name: MACROS[c.2 as usize % MACROS.len()].to_string(),
    }
}

fn import_of(src: &Src, module: u8, pkg: u8) -> Import {
    let (p, v) = PKGS[pkg as usize % PKGS.len()];
    Import {
        sources: match src {
            Src::All => Sources::All,
            Src::Some(v) => Sources::Some(v.iter().map(|m| MODULES[*m as usize % MODULES.len()].into()).collect()),
        },
        relative_to: MODULES[module as usize % MODULES.len()],
        created_at: CreatedAt { package_name: p, package_version: v },
    }
}

fn ssources(src: &Src) -> s::Sources {
    match src {
        Src::All => s::Sources::All,
        Src::Some(v) => s::Sources::Some(v.iter().map(|m| MODULES[*m as usize % MODULES.len()].to_string()).collect()),
    }
}

fn screated(pkg: u8) -> s::CreatedAt {
    let (p, v) = PKGS[pkg as usize % PKGS.len()];
    s::CreatedAt { package_name: p.to_string(), package_version: v.to_string() }
}

fn lifecycle(i: u8) -> (Lifecycle, s::Lifecycle) {
    match i % 3 {
        0 => (Lifecycle::Singleton, s::Lifecycle::Singleton),
        1 => (Lifecycle::RequestScoped, s::Lifecycle::RequestScoped),
        _ => (Lifecycle::Transient, s::Lifecycle::Transient),
    }
}

fn cloning(b: bool) -> (CloningPolicy, s::CloningPolicy) {
    if b {
        (CloningPolicy::CloneIfNecessary, s::CloningPolicy::CloneIfNecessary)
    } else {
        (CloningPolicy::NeverClone, s::CloningPolicy::NeverClone)
    }
}

#[track_caller]
fn here() -> s::Location {
    s::Location::caller()
}

// Every wrapper below is #[track_caller]: the Pavex API called inside inherits the location of the
// wrapper's call site, which `here()` reports independently.

#[track_caller]
fn do_new() -> (Blueprint, s::Location) {
    (Blueprint::new(), here())
}

fn seh(eh: &Option<Coord>, at: &s::Location) -> Option<s::ErrorHandler> {
    eh.as_ref().map(|c| s::ErrorHandler { coordinates: scoords(c), registered_at: at.clone() })
}

#[track_caller]
fn apply(bp: &mut Blueprint, op: &BOp, expected: &mut Vec<s::Component>, depth: usize, stats: &mut Stats) {
    let at = here();
    match op {
        BOp::Constructor { c, lifecycle: lc, cloning: cl, eh, lints } => {
            let mut r = bp.constructor(Constructor { coordinates: coords(c) });
            let mut e = s::Constructor {
                coordinates: scoords(c),
                lifecycle: None,
                cloning_policy: None,
                error_handler: None,
                lints: Default::default(),
                registered_at: at.clone(),
            };
            if let Some(l) = lc {
                let (a, b) = lifecycle(*l);
                r = r.lifecycle(a);
                e.lifecycle = Some(b);
            }
            for (i, c) in cl.iter().enumerate() {
                let (a, b) = cloning(*c);
                r = match i % 2 {
                    0 => r.cloning(a),
                    _ => {
                        if *c { r.clone_if_necessary() } else { r.never_clone() }
                    }
                };
                e.cloning_policy = Some(b);
                if i > 0 {
                    stats.overriding = true;
                }
            }
            if let Some(h) = eh {
                r = r.error_handler(ErrorHandler { coordinates: coords(h) });
                e.error_handler = seh(eh, &at);
            }
            for (unused, setting) in lints {
                let (l, sl) = if *unused { (Lint::Unused, s::Lint::Unused) } else { (Lint::ErrorFallback, s::Lint::ErrorFallback) };
                let st = match setting % 3 {
                    0 => {
                        r = r.allow(l);
                        s::LintSetting::Allow
                    }
                    1 => {
                        r = r.warn(l);
                        s::LintSetting::Warn
                    }
                    _ => {
                        r = r.deny(l);
                        s::LintSetting::Deny
                    }
                };
                e.lints.insert(sl, st);
            }
            let _ = r;
            expected.push(e.into());
        }
        BOp::Wrap { c, eh } => {
            let r = bp.wrap(WrappingMiddleware { coordinates: coords(c) });
            if let Some(h) = eh {
                let _ = r.error_handler(ErrorHandler { coordinates: coords(h) });
            }
            expected.push(s::WrappingMiddleware { coordinates: scoords(c), registered_at: at.clone(), error_handler: seh(eh, &at) }.into());
        }
        BOp::Pre { c, eh } => {
            let r = bp.pre_process(PreProcessingMiddleware { coordinates: coords(c) });
            if let Some(h) = eh {
                let _ = r.error_handler(ErrorHandler { coordinates: coords(h) });
            }
            expected.push(s::PreProcessingMiddleware { coordinates: scoords(c), registered_at: at.clone(), error_handler: seh(eh, &at) }.into());
        }
        BOp::Post { c, eh } => {
            let r = bp.post_process(PostProcessingMiddleware { coordinates: coords(c) });
            if let Some(h) = eh {
                let _ = r.error_handler(ErrorHandler { coordinates: coords(h) });
            }
            expected.push(s::PostProcessingMiddleware { coordinates: scoords(c), registered_at: at.clone(), error_handler: seh(eh, &at) }.into());
        }
        BOp::Route { c, eh } => {
            let r = bp.route(Route { coordinates: coords(c) });
            if let Some(h) = eh {
                let _ = r.error_handler(ErrorHandler { coordinates: coords(h) });
            }
            expected.push(s::Route { coordinates: scoords(c), registered_at: at.clone(), error_handler: seh(eh, &at) }.into());
        }
        BOp::Fallback { c, eh } => {
            let r = bp.fallback(Fallback { coordinates: coords(c) });
            if let Some(h) = eh {
                let _ = r.error_handler(ErrorHandler { coordinates: coords(h) });
            }
            expected.push(s::Fallback { coordinates: scoords(c), registered_at: at.clone(), error_handler: seh(eh, &at) }.into());
        }
        BOp::ErrorObserver { c } => {
            let _ = bp.error_observer(ErrorObserver { coordinates: coords(c) });
            expected.push(s::ErrorObserver { coordinates: scoords(c), registered_at: at.clone() }.into());
        }
        BOp::ErrorHandler { c } => {
            let _ = bp.error_handler(ErrorHandler { coordinates: coords(c) });
            expected.push(s::ErrorHandler { coordinates: scoords(c), registered_at: at.clone() }.into());
        }
        BOp::Prebuilt { c, cloning: cl } => {
            let mut r = bp.prebuilt(Prebuilt { coordinates: coords(c) });
            let mut e = s::PrebuiltType { coordinates: scoords(c), cloning_policy: None, registered_at: at.clone() };
            for (i, c) in cl.iter().enumerate() {
                let (a, b) = cloning(*c);
                r = match i % 2 {
                    0 => r.cloning(a),
                    _ => {
                        if *c { r.clone_if_necessary() } else { r.never_clone() }
                    }
                };
                e.cloning_policy = Some(b);
            }
            let _ = r;
            expected.push(e.into());
        }
        BOp::Config { c, cloning: cl, dim, include_if_unused } => {
            let mut r = bp.config(Config { coordinates: coords(c) });
            let mut e = s::ConfigType {
                coordinates: scoords(c),
                cloning_policy: None,
                default_if_missing: None,
                include_if_unused: None,
                registered_at: at.clone(),
            };
            for c in cl {
                let (a, b) = cloning(*c);
                r = r.cloning(a);
                e.cloning_policy = Some(b);
            }
            for d in dim {
                r = if *d { r.default_if_missing() } else { r.required() };
                e.default_if_missing = Some(*d);
            }
            if *include_if_unused {
                r = r.include_if_unused();
                e.include_if_unused = Some(true);
            }
            let _ = r;
            expected.push(e.into());
        }
        BOp::Import { src, module, pkg } => {
            let _ = bp.import(import_of(src, *module, *pkg));
            expected.push(
                s::Import {
                    sources: ssources(src),
                    relative_to: MODULES[*module as usize % MODULES.len()].to_string(),
                    created_at: screated(*pkg),
                    registered_at: at.clone(),
                }
                .into(),
            );
        }
        BOp::Routes { src, module, pkg } => {
            let _ = bp.routes(import_of(src, *module, *pkg));
            expected.push(
                s::RoutesImport {
                    sources: ssources(src),
                    relative_to: MODULES[*module as usize % MODULES.len()].to_string(),
                    created_at: screated(*pkg),
                    registered_at: at.clone(),
                }
                .into(),
            );
        }
        BOp::Nest { modifs, child } => {
            let (mut cbp, created) = do_new();
            let mut cexp = vec![];
            for op in child {
                apply(&mut cbp, op, &mut cexp, depth + 1, stats);
            }
            stats.max_depth = stats.max_depth.max(depth + 1);
            let (prefix, domain) = modifiers(modifs, &at, stats);
            if modifs.is_empty() {
                bp.nest(cbp);
            } else {
                let mut rm = match &modifs[0] {
                    Modif::Prefix(p) => bp.prefix(PREFIXES[*p as usize % PREFIXES.len()]),
                    Modif::Domain(d) => bp.domain(DOMAINS[*d as usize % DOMAINS.len()]),
                };
                for m in &modifs[1..] {
                    rm = match m {
                        Modif::Prefix(p) => rm.prefix(PREFIXES[*p as usize % PREFIXES.len()]),
                        Modif::Domain(d) => rm.domain(DOMAINS[*d as usize % DOMAINS.len()]),
                    };
                }
                rm.nest(cbp);
            }
            expected.push(
                s::NestedBlueprint {
                    blueprint: s::Blueprint { creation_location: created, components: cexp },
                    path_prefix: prefix,
                    domain,
                    nested_at: at.clone(),
                }
                .into(),
            );
        }
        BOp::NestRoutes { modifs, src, module, pkg } => {
            if modifs.is_empty() {
                return;
            }
            let (prefix, domain) = modifiers(modifs, &at, stats);
            let mut rm = match &modifs[0] {
                Modif::Prefix(p) => bp.prefix(PREFIXES[*p as usize % PREFIXES.len()]),
                Modif::Domain(d) => bp.domain(DOMAINS[*d as usize % DOMAINS.len()]),
            };
            for m in &modifs[1..] {
                rm = match m {
                    Modif::Prefix(p) => rm.prefix(PREFIXES[*p as usize % PREFIXES.len()]),
                    Modif::Domain(d) => rm.domain(DOMAINS[*d as usize % DOMAINS.len()]),
                };
            }
            rm.routes(import_of(src, *module, *pkg));
            // documented as a shortcut for nesting a fresh blueprint that only imports routes;
            // locations inside that implicit blueprint are not pinned down by the docs: compared
            // modulo location (see `strip_inner_locations`)
            expected.push(
                s::NestedBlueprint {
                    blueprint: s::Blueprint {
                        creation_location: at.clone(),
                        components: vec![
                            s::RoutesImport {
                                sources: ssources(src),
                                relative_to: MODULES[*module as usize % MODULES.len()].to_string(),
                                created_at: screated(*pkg),
                                registered_at: at.clone(),
                            }
                            .into(),
                        ],
                    },
                    path_prefix: prefix,
                    domain,
                    nested_at: at.clone(),
                }
                .into(),
            );
            stats.shortcut_routes = true;
        }
    }
}

fn modifiers(modifs: &[Modif], at: &s::Location, stats: &mut Stats) -> (Option<s::PathPrefix>, Option<s::Domain>) {
    let mut prefix = None;
    let mut domain = None;
    let (mut np, mut nd) = (0, 0);
    for m in modifs {
        match m {
            Modif::Prefix(p) => {
                np += 1;
                prefix = Some(s::PathPrefix { path_prefix: PREFIXES[*p as usize % PREFIXES.len()].to_string(), registered_at: at.clone() })
            }
            Modif::Domain(d) => {
                nd += 1;
                domain = Some(s::Domain { domain: DOMAINS[*d as usize % DOMAINS.len()].to_string(), registered_at: at.clone() })
            }
        }
    }
    if np >= 2 || nd >= 2 {
        stats.overriding = true;
    }
    if np >= 1 && nd >= 1 {
        stats.prefix_and_domain = true;
    }
    (prefix, domain)
}

#[derive(Default)]
struct Stats {
    max_depth: usize,
    overriding: bool,
    prefix_and_domain: bool,
    shortcut_routes: bool,
}

static COUNTER: std::sync::atomic::AtomicUsize = std::sync::atomic::AtomicUsize::new(0);

pub fn oracle(c: &Case) -> CaseResult {
    match crate::util::catch(|| run(c)) {
        Ok(r) => r,
        Err(p) => Err(Fail::new(format!("panic:{}", crate::util::panic_sig(&p)), format!("panicked: {p}"))),
    }
}

fn run(c: &Case) -> CaseResult {
    let mut info = CaseInfo::default();
    let mut stats = Stats::default();
    let (mut bp, created) = do_new();
    let mut exp = vec![];
    for op in &c.ops {
        apply(&mut bp, op, &mut exp, 0, &mut stats);
    }
    let expected = s::Blueprint { creation_location: created, components: exp };

    let dir = std::path::Path::new("/verif/.work/c19");
    let _ = std::fs::create_dir_all(dir);
    let n = COUNTER.fetch_add(1, std::sync::atomic::Ordering::Relaxed);
    let f1 = dir.join(format!("bp-{}-{}.ron", std::process::id(), n % 64));
    let f2 = dir.join(format!("bp2-{}-{}.ron", std::process::id(), n % 64));
    let _ = std::fs::remove_file(&f1);
    let _ = std::fs::remove_file(&f2);
    bp.persist(&f1).map_err(|e| Fail::new("persist-error", format!("{e:#}")))?;
    let text = std::fs::read_to_string(&f1).map_err(|e| Fail::new("harness:io", e.to_string()))?;
    // read it back the way pavexc_cli does
    let seen: s::Blueprint = ron::de::from_str(&text).map_err(|e| Fail::new("ron-does-not-read-back", format!("{e}\n{text}")))?;
    if seen != expected {
        let (a, b) = first_difference(&seen, &expected);
        return Err(Fail::new(
            format!("schema-differs:{}", a.0),
            format!("what the compiler reads differs from what was registered.\n  compiler sees: {}\n  registered:    {}\nops: {:?}", a.1, b, c.ops),
        ));
    }
    // persist twice: byte-identical; load + persist: same bytes
    bp.persist(&f2).map_err(|e| Fail::new("persist-error", format!("{e:#}")))?;
    let text2 = std::fs::read_to_string(&f2).map_err(|e| Fail::new("harness:io", e.to_string()))?;
    if text2 != text {
        return Err(Fail::new("persist-not-deterministic", "persisting the same blueprint twice gives different bytes"));
    }
    let loaded = Blueprint::load(&f1).map_err(|e| Fail::new("load-error", format!("{e:#}")))?;
    let _ = std::fs::remove_file(&f2);
    loaded.persist(&f2).map_err(|e| Fail::new("persist-error", format!("{e:#}")))?;
    let text3 = std::fs::read_to_string(&f2).map_err(|e| Fail::new("harness:io", e.to_string()))?;
    if text3 != text {
        return Err(Fail::new("load-persist-not-identity", "Blueprint::load followed by persist changes the bytes"));
    }
    // persisting over a file that holds something else (an older blueprint): whatever the old content, of
    // the same length or not, the file must end up holding exactly this blueprint
    {
        let bytes = text.as_bytes();
        let h = vcommon::fnv(&text) as usize;
        let positions = [bytes.len().saturating_sub(2), bytes.len() / 2, 1usize.min(bytes.len().saturating_sub(1)), h % bytes.len().max(1)];
        for (vi, pos) in positions.iter().enumerate() {
            let mut stale = bytes.to_vec();
            if vi == 2 && h % 3 == 0 {
                stale.truncate(stale.len() / 2);
            } else if vi == 1 && h % 5 == 0 {
                stale.extend_from_slice(b"\n// stale");
            } else if !stale.is_empty() {
                stale[*pos] = if stale[*pos] == b'x' { b'y' } else { b'x' };
            }
            std::fs::write(&f2, &stale).map_err(|e| Fail::new("harness:io", e.to_string()))?;
            bp.persist(&f2).map_err(|e| Fail::new("persist-error", format!("{e:#}")))?;
            let now = std::fs::read(&f2).map_err(|e| Fail::new("harness:io", e.to_string()))?;
            if now != bytes {
                return Err(Fail::new(
                    "persist-keeps-stale-file",
                    format!("persist() over an existing file that differs from the blueprint ({} bytes, same length: {}, first difference at byte {}) left stale content on disk", stale.len(), stale.len() == bytes.len(), stale.iter().zip(bytes).position(|(a, b)| a != b).unwrap_or(stale.len().min(bytes.len()))),
                ));
            }
        }
        info.lab("persist-over-stale-file".to_string());
    }
    let _ = std::fs::remove_file(&f1);
    let _ = std::fs::remove_file(&f2);
    if stats.prefix_and_domain && stats.overriding {
        info.set_nontrivial(true);
    }
    if stats.max_depth >= 2 {
        info.set_nontrivial(true);
        info.lab(format!("depth:{}", stats.max_depth.min(5)));
    }
    if stats.prefix_and_domain {
        info.lab("nest:prefix+domain");
    }
    if stats.overriding {
        info.lab("overriding-modifier-call");
    }
    if stats.shortcut_routes {
        info.lab("modifiers.routes-shortcut");
    }
    Ok(info)
}

/// Human-readable pointer to the first differing component.
fn first_difference(a: &s::Blueprint, b: &s::Blueprint) -> ((String, String), String) {
    if a.creation_location != b.creation_location {
        return (("creation_location".into(), format!("{:?}", a.creation_location)), format!("{:?}", b.creation_location));
    }
    if a.components.len() != b.components.len() {
        return (("component-count".into(), format!("{} components", a.components.len())), format!("{} components", b.components.len()));
    }
    for (x, y) in a.components.iter().zip(&b.components) {
        if x != y {
            if let (s::Component::NestedBlueprint(nx), s::Component::NestedBlueprint(ny)) = (x, y) {
                if nx.path_prefix != ny.path_prefix {
                    return (("nest.path_prefix".into(), format!("{:?}", nx.path_prefix)), format!("{:?}", ny.path_prefix));
                }
                if nx.domain != ny.domain {
                    return (("nest.domain".into(), format!("{:?}", nx.domain)), format!("{:?}", ny.domain));
                }
                if nx.nested_at != ny.nested_at {
                    return (("nest.nested_at".into(), format!("{:?}", nx.nested_at)), format!("{:?}", ny.nested_at));
                }
                return first_difference(&nx.blueprint, &ny.blueprint);
            }
            let kind = format!("{x:?}");
            let kind = kind.split(['(', '{', ' ']).next().unwrap_or("component").to_string();
            return ((kind, format!("{x:?}")), format!("{y:?}"));
        }
    }
    (("none".into(), String::new()), String::new())
}

// ------------------------------------------------------------------------------------------
// Generators
// ------------------------------------------------------------------------------------------

fn coord() -> impl Strategy<Value = Coord> {
    (0u8..6, 0u8..3, 0u8..5).prop_map(|(a, b, c)| Coord(a, b, c))
}

fn src() -> impl Strategy<Value = Src> {
    prop_oneof![Just(Src::All), prop::collection::vec(0u8..4, 0..3).prop_map(Src::Some)]
}

fn modifs() -> impl Strategy<Value = Vec<Modif>> {
    prop::collection::vec(prop_oneof![(0u8..5).prop_map(Modif::Prefix), (0u8..4).prop_map(Modif::Domain)], 0..=4)
}

fn leaf_op() -> BoxedStrategy<BOp> {
    let eh = || prop::option::weighted(0.3, coord());
    prop_oneof![
        4 => (coord(), prop::option::of(0u8..3), prop::collection::vec(any::<bool>(), 0..3), eh(), prop::collection::vec((any::<bool>(), 0u8..3), 0..3))
            .prop_map(|(c, lifecycle, cloning, eh, lints)| BOp::Constructor { c, lifecycle, cloning, eh, lints }),
        1 => (coord(), eh()).prop_map(|(c, eh)| BOp::Wrap { c, eh }),
        1 => (coord(), eh()).prop_map(|(c, eh)| BOp::Pre { c, eh }),
        1 => (coord(), eh()).prop_map(|(c, eh)| BOp::Post { c, eh }),
        3 => (coord(), eh()).prop_map(|(c, eh)| BOp::Route { c, eh }),
        1 => (coord(), eh()).prop_map(|(c, eh)| BOp::Fallback { c, eh }),
        1 => coord().prop_map(|c| BOp::ErrorObserver { c }),
        1 => coord().prop_map(|c| BOp::ErrorHandler { c }),
        1 => (coord(), prop::collection::vec(any::<bool>(), 0..3)).prop_map(|(c, cloning)| BOp::Prebuilt { c, cloning }),
        1 => (coord(), prop::collection::vec(any::<bool>(), 0..2), prop::collection::vec(any::<bool>(), 0..3), any::<bool>())
            .prop_map(|(c, cloning, dim, include_if_unused)| BOp::Config { c, cloning, dim, include_if_unused }),
        1 => (src(), 0u8..4, 0u8..3).prop_map(|(src, module, pkg)| BOp::Import { src, module, pkg }),
        1 => (src(), 0u8..4, 0u8..3).prop_map(|(src, module, pkg)| BOp::Routes { src, module, pkg }),
        2 => (prop::collection::vec(prop_oneof![(0u8..5).prop_map(Modif::Prefix), (0u8..4).prop_map(Modif::Domain)], 1..=4), src(), 0u8..4, 0u8..3)
            .prop_map(|(modifs, src, module, pkg)| BOp::NestRoutes { modifs, src, module, pkg }),
    ]
    .boxed()
}

fn op() -> BoxedStrategy<BOp> {
    leaf_op()
        .prop_recursive(5, 40, 5, |inner| {
            prop_oneof![
                3 => inner.clone(),
                2 => (modifs(), prop::collection::vec(inner, 0..5)).prop_map(|(modifs, child)| BOp::Nest { modifs, child }),
            ]
        })
        .boxed()
}

pub fn case_strategy() -> impl Strategy<Value = Case> {
    prop::collection::vec(op(), 0..10).prop_map(|ops| Case { ops })
}

pub fn main(mut chk: Check) -> ! {
    chk.ev.rule = "part (a): call sequences over the public Blueprint API (constructor + lifecycle/cloning/clone_if_necessary/never_clone/error_handler/allow/warn/deny, wrap/pre_process/post_process/route/fallback + error_handler, error_observer, error_handler, prebuilt, config + modifiers, import, routes, nest, prefix/domain chains of up to 4 calls incl. overriding calls, the `.routes()` shortcut), nesting depth <= 5, through #[track_caller] wrappers; a reference pavex_bp_schema::Blueprint is built in parallel; persist() output is read back with ron::de exactly as pavexc_cli does and must equal the reference including order, nesting, prefixes, domains, policies, lints, error handlers and every registered_at/nested_at location; persisting twice and load+persist are byte-identical. non-trivial = nesting depth >= 2, or a nest with both prefix and domain plus an overriding modifier call; distinct = distinct serialised case. Part (b) (attributes -> rustdoc JSON -> annotation parser) runs in the E2E engine.".into();
    chk.ev.assume("locations inside the implicit blueprint created by RoutingModifiers::routes are expected to be the call site (the function is #[track_caller])");
    if let Some(p) = chk.settings.replay.clone() {
        if !chk.replay_one::<Case, _>("builder-roundtrip", &p, oracle) {
            eprintln!("replay file {} does not belong to C19", p.display());
            std::process::exit(2);
        }
        chk.finish();
    }
    for p in chk.committed_replays() {
        chk.replay_one::<Case, _>("builder-roundtrip", &p, oracle);
    }
    let t = chk.tier();
    chk.run("builder-roundtrip", t.pick(40_000, 300_000), case_strategy(), oracle);
    chk.finish()
}
