//! In-process property checks (one binary, one sub-command per property).
use rtprops::{c11, c12, c13, c14, c15, c16, c17, c18, c19};

use vcommon::{Check, Settings};

fn main() {
    let args: Vec<String> = std::env::args().collect();
    let Some(prop) = args.get(1).cloned() else {
        eprintln!("usage: rtprops <Cxx> [--tier quick|thorough] [--replay file]");
        std::process::exit(2);
    };
    if prop == "C18-child" {
        c18::child(args.get(2).map(|s| s.as_str()).unwrap_or("{}"));
    }
    let settings = Settings::from_env_and_args(&prop, &args[2..]);
    let chk = Check::new(settings, "");
    match prop.as_str() {
        "C11" => c11::main(chk),
        "C12" => c12::main(chk),
        "C13" => c13::main(chk),
        "C14" => c14::main(chk),
        "C15" => c15::main(chk),
        "C16" => c16::main(chk),
        "C17" => c17::main(chk),
        "C18" => c18::main(chk),
        "C19" => c19::main(chk),
        _ => {
            eprintln!("rtprops: unknown property {prop}");
            std::process::exit(2);
        }
    }
}
