//! In-process property checks (one binary, one sub-command per property).
mod c11;
mod c12;
mod c13;
mod c14;
mod c15;
mod c16;
mod c17;
mod c18;
mod c19;
mod sess;
mod stores;
mod util;

use vcommon::{Check, Settings};

fn main() {
    let args: Vec<String> = std::env::args().collect();
    let Some(prop) = args.get(1).cloned() else {
        eprintln!("usage: rtprops <Cxx> [--tier quick|thorough] [--replay file]");
        std::process::exit(2);
    };
    if prop == "C18-child" {
        c18::child(args.get(2).map(|s| s.as_str()).unwrap_or("{}"));
    }
    let settings = Settings::from_env_and_args(&prop, &args[2..]);
    let chk = Check::new(settings, "");
    match prop.as_str() {
        "C11" => c11::main(chk),
        "C12" => c12::main(chk),
        "C13" => c13::main(chk),
        "C14" => c14::main(chk),
        "C15" => c15::main(chk),
        "C16" => c16::main(chk),
        "C17" => c17::main(chk),
        "C18" => c18::main(chk),
        "C19" => c19::main(chk),
        _ => {
            eprintln!("rtprops: unknown property {prop}");
            std::process::exit(2);
        }
    }
}
