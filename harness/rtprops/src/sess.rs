//! Shared session harness for C11 / C12: drives the *real* components in the real order
//! (`extract_request_cookies` -> `IncomingSession::extract` -> `Session::new` -> ops ->
//! `finalize_session` -> `inject_response_cookies`) against a map-based reference model.
use std::borrow::Cow;
use std::collections::{BTreeMap, BTreeSet};

use pavex::cookie::config::{CryptoAlgorithm, CryptoRule};
use pavex::cookie::{Key, Processor, ProcessorConfig, ResponseCookies, extract_request_cookies, inject_response_cookies};
use pavex::request::RequestHead;
use pavex::Response;
use pavex_session::config::{
    MissingServerState, ServerStateCreation, SessionCookieKind, TtlExtensionThreshold, TtlExtensionTrigger,
};
use pavex_session::{IncomingSession, Session, SessionConfig, SessionId, SessionStore, finalize_session};
use serde::{Deserialize, Serialize};
use serde_json::{Value, json};
use vcommon::Fail;

pub const KEYS: [&str; 4] = ["k0", "k1", "user.id", "ключ"];

/// Indices 0-11 are what the generators draw. 252-255 (recorded reproductions only, see the open finding of C11):
/// a value nested 100 / 126 / 130 / 200 arrays deep.
pub fn value_pool(i: u8) -> Value {
    if i >= 252 {
        let mut v = json!(1);
        for _ in 0..[100, 126, 130, 200][(i - 252) as usize] {
            v = Value::Array(vec![v]);
        }
        return v;
    }
    match i % 12 {
        0 => Value::Null,
        1 => json!(true),
        2 => json!(0),
        3 => json!(-7),
        4 => json!(3.5),
        5 => json!(""),
        6 => json!("x"),
        7 => json!("héllo ✓ \u{1F600} \"quoted\" ; = %41"),
        8 => json!([1, 2, [3]]),
        9 => json!({"a": {"b": [1, null]}}),
        10 => json!(18446744073709551615u64),
        _ => json!({"": "", "k0": false}),
    }
}

#[derive(Clone, Debug, Serialize, Deserialize)]
pub struct Cfg {
    pub never_skip: bool,
    pub reject: bool,
    pub extend_on_loads: bool,
    /// 0 = None, 1 = 0.0, 2 = 0.8, 3 = 1.0
    pub threshold: u8,
    pub persistent: bool,
}

impl Cfg {
    pub fn session_config(&self) -> SessionConfig {
        let mut c = SessionConfig::default();
        c.state.server_state_creation =
            if self.never_skip { ServerStateCreation::NeverSkip } else { ServerStateCreation::SkipIfEmpty };
        c.state.missing_server_state =
            if self.reject { MissingServerState::Reject } else { MissingServerState::Allow };
        c.state.extend_ttl = if self.extend_on_loads {
            TtlExtensionTrigger::OnStateLoadsAndChanges
        } else {
            TtlExtensionTrigger::OnStateChanges
        };
        c.state.ttl_extension_threshold = match self.threshold % 4 {
            0 => None,
            1 => Some(TtlExtensionThreshold::new(0.0).unwrap()),
            2 => Some(TtlExtensionThreshold::new(0.8).unwrap()),
            _ => Some(TtlExtensionThreshold::new(1.0).unwrap()),
        };
        c.cookie.kind = if self.persistent { SessionCookieKind::Persistent } else { SessionCookieKind::Session };
        c
    }
}

#[derive(Clone, Debug, Serialize, Deserialize, PartialEq)]
pub enum Op {
    SGet(u8),
    SInsert(u8, u8),
    SRemove(u8),
    SClear,
    SIsEmpty,
    SDelete,
    SForceLoad,
    CGet(u8),
    CInsert(u8, u8),
    CRemove(u8),
    CClear,
    CIsEmpty,
    CycleId,
    Sync,
    Invalidate,
}

#[derive(Clone, Debug, Serialize, Deserialize, PartialEq)]
pub enum CookieChoice {
    /// what a well-behaved client holds right now (nothing after a removal cookie)
    Jar,
    /// replay a cookie issued earlier (index into everything ever issued, monotone-mapped)
    Older(u16),
    /// present no cookie
    Drop,
}

#[derive(Clone, Debug, Serialize, Deserialize)]
pub struct Req {
    pub cookie: CookieChoice,
    pub probe_start: bool,
    pub ops: Vec<Op>,
}

pub fn key_name(i: u8) -> &'static str {
    KEYS[i as usize % KEYS.len()]
}

pub fn fixed_key(tag: u8) -> Key {
    Key::from((0..64u8).map(|i| i.wrapping_mul(31).wrapping_add(tag)).collect::<Vec<u8>>())
}

pub fn encrypting_processor(cookie_name: &str) -> Processor {
    let mut c = ProcessorConfig::default();
    c.crypto_rules.push(CryptoRule {
        cookie_names: vec![cookie_name.to_string()],
        algorithm: CryptoAlgorithm::Encryption,
        key: fixed_key(1),
        fallbacks: vec![],
    });
    c.into()
}

// ------------------------------------------------------------------------------------------
// Reference model
// ------------------------------------------------------------------------------------------

pub type Map = BTreeMap<String, Value>;

#[derive(Clone, Debug, PartialEq)]
pub enum Srv {
    Unloaded,
    Absent,
    Present(Map),
    Deleted,
}

#[derive(Clone, Copy, Debug, PartialEq)]
pub enum IdK {
    Existing(usize),
    Renamed { old: usize, new: usize },
    New(usize),
}

impl IdK {
    pub fn cur(&self) -> usize {
        match self {
            IdK::Existing(s) | IdK::New(s) => *s,
            IdK::Renamed { new, .. } => *new,
        }
    }
    pub fn old(&self) -> Option<usize> {
        match self {
            IdK::Existing(s) => Some(*s),
            IdK::Renamed { old, .. } => Some(*old),
            IdK::New(_) => None,
        }
    }
}

#[derive(Clone, Debug)]
pub struct IssuedCookie {
    pub sym: usize,
    pub client: Map,
    /// `name=value` exactly as a client would send it back
    pub header: String,
}

#[derive(Default, Clone)]
pub struct World {
    /// model of the store, keyed by symbolic id
    pub store: BTreeMap<usize, Map>,
    /// symbolic ids whose record may legitimately be either absent or empty (creation policy is
    /// not part of the property); resolved by observation
    pub maybe_empty: BTreeSet<usize>,
    pub real: BTreeMap<usize, String>,
    pub next_sym: usize,
    pub issued: Vec<IssuedCookie>,
    /// what a well-behaved client currently holds
    pub jar: Option<usize>,
}

impl World {
    pub fn fresh(&mut self) -> usize {
        self.next_sym += 1;
        self.next_sym
    }
    pub fn sym_of_real(&self, real: &str) -> Option<usize> {
        self.real.iter().find(|(_, r)| r.as_str() == real).map(|(s, _)| *s)
    }
}

#[derive(Clone)]
pub struct ReqModel {
    pub inv: bool,
    pub client: Map,
    pub srv: Srv,
    pub id: IdK,
    pub had_incoming: bool,
    pub reject: bool,
}

pub enum SyncOutcome {
    Ok,
    /// cycle_id() on a session whose record is gone and was never loaded: upstream pins this as
    /// an error (test `id_cycling_fails_if_the_old_state_record_is_gone_and_it_had_not_been_loaded_previously`)
    RenameOfMissingUnloaded,
}

impl ReqModel {
    pub fn new(w: &mut World, incoming: Option<&IssuedCookie>, reject: bool) -> ReqModel {
        match incoming {
            Some(c) => ReqModel {
                inv: false,
                client: c.client.clone(),
                srv: Srv::Unloaded,
                id: IdK::Existing(c.sym),
                had_incoming: true,
                reject,
            },
            None => ReqModel {
                inv: false,
                client: Map::new(),
                srv: Srv::Absent,
                id: IdK::New(w.fresh()),
                had_incoming: false,
                reject,
            },
        }
    }

    fn load(&mut self, w: &World) {
        if self.srv == Srv::Unloaded {
            let old = self.id.old().expect("unloaded state implies an existing id");
            match w.store.get(&old) {
                Some(m) => self.srv = Srv::Present(m.clone()),
                None => {
                    if self.reject {
                        self.srv = Srv::Deleted;
                        self.inv = true;
                    } else {
                        self.srv = Srv::Absent;
                    }
                }
            }
        }
    }

    /// Returns the expected result of the op (as JSON) or `None` when the op's effect is not
    /// pinned down by the documentation (then it is not executed at all).
    pub fn apply(&mut self, w: &mut World, op: &Op) -> Option<Value> {
        let opt = |v: Option<Value>| v.map(|v| json!({"some": v})).unwrap_or(json!("none"));
        Some(match op {
            Op::SGet(k) => {
                self.load(w);
                match &self.srv {
                    Srv::Present(m) => opt(m.get(key_name(*k)).cloned()),
                    _ => opt(None),
                }
            }
            Op::SInsert(k, v) => {
                self.load(w);
                match &mut self.srv {
                    Srv::Present(m) => opt(m.insert(key_name(*k).to_string(), value_pool(*v))),
                    Srv::Absent => {
                        let mut m = Map::new();
                        m.insert(key_name(*k).to_string(), value_pool(*v));
                        self.srv = Srv::Present(m);
                        opt(None)
                    }
                    Srv::Deleted => {
                        if self.inv {
                            // documented: operations on an invalidated session are no-ops
                            opt(None)
                        } else {
                            // insert between delete() and the next sync(): not pinned down by docs
                            return None;
                        }
                    }
                    Srv::Unloaded => unreachable!(),
                }
            }
            Op::SRemove(k) => {
                self.load(w);
                match &mut self.srv {
                    Srv::Present(m) => opt(m.remove(key_name(*k))),
                    _ => opt(None),
                }
            }
            Op::SClear => {
                self.load(w);
                if let Srv::Present(m) = &mut self.srv {
                    m.clear();
                }
                json!("unit")
            }
            Op::SIsEmpty => {
                self.load(w);
                match &self.srv {
                    Srv::Present(m) => json!(m.is_empty()),
                    _ => json!(true),
                }
            }
            Op::SDelete => {
                self.srv = Srv::Deleted;
                json!("unit")
            }
            Op::SForceLoad => {
                self.load(w);
                json!("unit")
            }
            Op::CGet(k) => {
                if self.inv { opt(None) } else { opt(self.client.get(key_name(*k)).cloned()) }
            }
            Op::CInsert(k, v) => {
                if self.inv {
                    opt(None)
                } else {
                    opt(self.client.insert(key_name(*k).to_string(), value_pool(*v)))
                }
            }
            Op::CRemove(k) => {
                if self.inv { opt(None) } else { opt(self.client.remove(key_name(*k))) }
            }
            Op::CClear => {
                if !self.inv {
                    self.client.clear();
                }
                json!("unit")
            }
            Op::CIsEmpty => json!(self.inv || self.client.is_empty()),
            Op::CycleId => {
                let n = w.fresh();
                self.id = match self.id {
                    IdK::Existing(s) | IdK::Renamed { old: s, .. } => IdK::Renamed { old: s, new: n },
                    IdK::New(_) => IdK::New(n),
                };
                json!("unit")
            }
            Op::Invalidate => {
                self.inv = true;
                self.srv = Srv::Deleted;
                json!("unit")
            }
            Op::Sync => unreachable!("handled by the interpreter"),
        })
    }

    /// Bring the model store in line with the in-memory state.
    pub fn sync(&mut self, w: &mut World) -> SyncOutcome {
        let old = self.id.old();
        let new = self.id.cur();
        let renamed = old.is_some() && old != Some(new);
        match &self.srv {
            Srv::Unloaded => {
                if renamed {
                    match w.store.remove(&old.unwrap()) {
                        Some(m) => {
                            w.store.insert(new, m);
                            if w.maybe_empty.remove(&old.unwrap()) {
                                w.maybe_empty.insert(new);
                            }
                        }
                        None => return SyncOutcome::RenameOfMissingUnloaded,
                    }
                }
            }
            Srv::Absent => {
                // no record under the old id (that is what Absent means); whether an *empty*
                // record is created under the current id is a policy decision we do not judge
                w.maybe_empty.insert(new);
                w.store.remove(&new);
            }
            Srv::Present(m) => {
                if renamed {
                    w.store.remove(&old.unwrap());
                }
                w.store.insert(new, m.clone());
                w.maybe_empty.remove(&new);
            }
            Srv::Deleted => {
                if let Some(o) = old {
                    w.store.remove(&o);
                    w.maybe_empty.remove(&o);
                }
                if !self.inv {
                    self.srv = Srv::Absent;
                }
            }
        }
        if old.is_some() {
            self.id = IdK::Existing(new);
        } else if matches!(self.srv, Srv::Present(_)) {
            self.id = IdK::Existing(new);
        }
        SyncOutcome::Ok
    }
}

// ------------------------------------------------------------------------------------------
// Real side
// ------------------------------------------------------------------------------------------

pub fn state_to_map(s: &std::collections::HashMap<Cow<'static, str>, Value>) -> Map {
    s.iter().map(|(k, v)| (k.to_string(), v.clone())).collect()
}

pub fn sid(real: &str) -> SessionId {
    serde_json::from_value(json!(real)).expect("session id is a uuid")
}

pub async fn real_op(session: &mut Session<'_>, op: &Op) -> Result<Value, String> {
    let opt = |v: Option<Value>| v.map(|v| json!({"some": v})).unwrap_or(json!("none"));
    let e = |e: &dyn std::fmt::Display| format!("{e}");
    Ok(match op {
        Op::SGet(k) => opt(session.get_raw(key_name(*k)).await.map_err(|x| e(&x))?.cloned()),
        Op::SInsert(k, v) => opt(session.insert_raw(key_name(*k), value_pool(*v)).await.map_err(|x| e(&x))?),
        Op::SRemove(k) => opt(session.remove_raw(key_name(*k)).await.map_err(|x| e(&x))?),
        Op::SClear => {
            session.clear().await.map_err(|x| e(&x))?;
            json!("unit")
        }
        Op::SIsEmpty => json!(session.is_empty().await.map_err(|x| e(&x))?),
        Op::SDelete => {
            session.delete();
            json!("unit")
        }
        Op::SForceLoad => {
            session.force_load().await.map_err(|x| e(&x))?;
            json!("unit")
        }
        Op::CGet(k) => opt(session.client().get_raw(key_name(*k)).cloned()),
        Op::CInsert(k, v) => opt(session.client_mut().insert_raw(key_name(*k), value_pool(*v))),
        Op::CRemove(k) => opt(session.client_mut().remove_raw(key_name(*k))),
        Op::CClear => {
            session.client_mut().clear();
            json!("unit")
        }
        Op::CIsEmpty => json!(session.client().is_empty()),
        Op::CycleId => {
            session.cycle_id();
            json!("unit")
        }
        Op::Invalidate => {
            session.invalidate();
            json!("unit")
        }
        Op::Sync => unreachable!(),
    })
}

pub fn op_kind(op: &Op) -> &'static str {
    match op {
        Op::SGet(_) => "server.get",
        Op::SInsert(..) => "server.insert",
        Op::SRemove(_) => "server.remove",
        Op::SClear => "server.clear",
        Op::SIsEmpty => "server.is_empty",
        Op::SDelete => "server.delete",
        Op::SForceLoad => "server.force_load",
        Op::CGet(_) => "client.get",
        Op::CInsert(..) => "client.insert",
        Op::CRemove(_) => "client.remove",
        Op::CClear => "client.clear",
        Op::CIsEmpty => "client.is_empty",
        Op::CycleId => "cycle_id",
        Op::Sync => "sync",
        Op::Invalidate => "invalidate",
    }
}

pub fn request_head(cookie_header: Option<&str>) -> RequestHead {
    let mut headers = pavex::http::HeaderMap::new();
    if let Some(c) = cookie_header {
        headers.insert(pavex::http::header::COOKIE, pavex::http::HeaderValue::from_str(c).expect("cookie header"));
    }
    RequestHead {
        method: pavex::http::Method::GET,
        target: "/".parse().unwrap(),
        version: pavex::http::Version::HTTP_11,
        headers,
    }
}

/// What came out of finalisation, as seen (a) before the cookie processor (plain) and (b) on the wire.
pub struct Emitted {
    pub plain_value: String,
    pub is_removal: bool,
    /// full `Set-Cookie` header value
    pub set_cookie: String,
    pub attrs: CookieAttrs,
}

#[derive(Debug, Clone, PartialEq)]
pub struct CookieAttrs {
    pub name: String,
    pub domain: Option<String>,
    pub path: Option<String>,
    pub same_site: Option<String>,
    pub secure: bool,
    pub http_only: bool,
    pub max_age_s: Option<i64>,
}

pub enum Finalized {
    Err(String, String),
    NoCookie,
    Cookie(Emitted),
}

/// Runs `finalize_session` + `inject_response_cookies` for real.
pub async fn real_finalize(
    session: Session<'_>,
    processor: &Processor,
    cookie_name: &str,
) -> Result<Finalized, Fail> {
    let mut rc = ResponseCookies::new();
    let r = finalize_session(Response::ok(), &mut rc, processor, session).await;
    let response = match r {
        Ok(r) => r,
        Err(e) => {
            let mut chain = format!("{e}");
            let mut src = std::error::Error::source(&e);
            while let Some(s) = src {
                chain.push_str(&format!(" <- {s}"));
                src = s.source();
            }
            if rc.iter().any(|c| c.name() == cookie_name) {
                return Err(Fail::new(
                    "cookie-set-despite-error",
                    format!("finalize_session failed ({chain}) but a `{cookie_name}` cookie is in ResponseCookies"),
                ));
            }
            let kind = format!("{e:?}");
            let kind = kind.split(['(', '{', ' ']).next().unwrap_or("").to_string();
            return Ok(Finalized::Err(kind, chain));
        }
    };
    let plain = rc.iter().find(|c| c.name() == cookie_name).map(|c| {
        let is_removal = c
            .expires_datetime()
            .map(|z| z.timestamp().as_second() == 0)
            .unwrap_or(false);
        (
            c.value().to_string(),
            is_removal,
            CookieAttrs {
                name: c.name().to_string(),
                domain: c.domain().map(|s| s.to_string()),
                path: c.path().map(|s| s.to_string()),
                same_site: c.same_site().map(|s| format!("{s:?}")),
                secure: c.secure().unwrap_or(false),
                http_only: c.http_only().unwrap_or(false),
                max_age_s: c.max_age().map(|d| d.as_secs()),
            },
        )
    });
    let n_session_cookies = rc.iter().filter(|c| c.name() == cookie_name).count();
    let response = inject_response_cookies(response, rc, processor)
        .map_err(|e| Fail::new("inject-response-cookies-error", format!("{e}")))?;
    let set_cookies: Vec<String> = response
        .headers()
        .get_all(pavex::http::header::SET_COOKIE)
        .iter()
        .map(|v| v.to_str().unwrap_or("<non-utf8>").to_string())
        .collect();
    match plain {
        None => {
            if !set_cookies.is_empty() {
                return Err(Fail::new("unexpected-set-cookie", format!("{set_cookies:?}")));
            }
            Ok(Finalized::NoCookie)
        }
        Some((plain_value, is_removal, attrs)) => {
            if n_session_cookies != 1 || set_cookies.len() != 1 {
                return Err(Fail::new(
                    "several-session-cookies",
                    format!("{n_session_cookies} session cookies, Set-Cookie: {set_cookies:?}"),
                ));
            }
            Ok(Finalized::Cookie(Emitted {
                plain_value,
                is_removal,
                set_cookie: set_cookies[0].clone(),
                attrs,
            }))
        }
    }
}

pub fn cookie_header_from_set_cookie(sc: &str) -> String {
    sc.split(';').next().unwrap_or("").trim().to_string()
}

pub fn parse_plain(plain: &str) -> Result<(String, Map), String> {
    // (the harness reads the cookie without a depth limit: what the code under test can read back is for it to show)
    let mut de = serde_json::Deserializer::from_str(plain);
    de.disable_recursion_limit();
    let v: Value = serde::Deserialize::deserialize(&mut de).map_err(|e| format!("cookie value is not JSON: {e}"))?;
    let id = v.get("0").and_then(|x| x.as_str()).ok_or("cookie value has no id")?.to_string();
    let client = match v.get("1") {
        None => Map::new(),
        Some(Value::Object(o)) => o.iter().map(|(k, v)| (k.clone(), v.clone())).collect(),
        Some(_) => return Err("client state is not an object".into()),
    };
    Ok((id, client))
}

pub async fn load_real(store: &SessionStore, real: &str) -> Result<Option<Map>, String> {
    // (an inspection by the harness: a fault-injecting store must not count or fail it)
    crate::c12_chaos::FAULTS_PAUSED.with(|p| p.set(true));
    let r = load_real_(store, real).await;
    crate::c12_chaos::FAULTS_PAUSED.with(|p| p.set(false));
    r
}

async fn load_real_(store: &SessionStore, real: &str) -> Result<Option<Map>, String> {
    store
        .load(&sid(real))
        .await
        .map(|r| r.map(|r| state_to_map(&r.state)))
        .map_err(|e| format!("{e}"))
}

pub fn new_session<'a>(
    store: &'a SessionStore,
    config: &'a SessionConfig,
    processor: &Processor,
    cookie_header: Option<&str>,
) -> (Session<'a>, bool) {
    let head = request_head(cookie_header);
    let cookies = extract_request_cookies(&head, processor).expect("extract_request_cookies is infallible in practice");
    let incoming = IncomingSession::extract(&cookies, &config.cookie);
    let had = incoming.is_some();
    (Session::new(store, config, incoming), had)
}
