//! Small helpers shared by the in-process checks (they live in `vcommon`).
pub use vcommon::util::{catch, panic_sig};
