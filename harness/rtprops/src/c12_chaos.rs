//! C12, second campaign: the same property under a *faulty* store and concurrent reads.
//!
//! The statement of C12 does not depend on what the store does: whatever happens to the server-side
//! record (calls that fail, records that vanish between two loads because another request or an
//! operator deleted them, two reads of one session racing inside a request), a session cookie may only
//! be attached if it is signed or encrypted, and encrypted if its client-side state is non-empty;
//! a failing `finalize_session` leaves no session cookie behind; the id never shows in `Debug`.
//! The oracle reads the client-side state out of the *emitted cookie itself* (plain value, before
//! the processor touched it), so no session model is involved.
use std::collections::BTreeSet;
use std::num::NonZeroUsize;
use std::sync::Mutex;
use std::sync::atomic::{AtomicU64, Ordering};

use pavex_session::store::errors::*;
use pavex_session::store::{SessionRecord, SessionRecordRef, SessionStorageBackend};
use pavex_session::{SessionId, SessionStore};
use pavex_session_memory_store::InMemorySessionStore;
use proptest::prelude::*;
use serde::{Deserialize, Serialize};
use vcommon::{CaseInfo, CaseResult, Fail};

use crate::c12::Case;
use crate::sess::*;

#[derive(Clone, Debug, Serialize, Deserialize)]
pub enum ChaosOp {
    Plain(Op),
    /// two server-side reads of one session, polled concurrently
    JoinGet(u8, u8),
    /// a read racing with `is_empty`
    JoinGetIsEmpty(u8),
}

#[derive(Clone, Debug, Serialize, Deserialize)]
pub struct ChaosCase {
    pub base: Case,
    /// per request: the operations
    pub script: Vec<Vec<ChaosOp>>,
    /// store calls (numbered from 0 over the whole case) that fail with an `Other` error
    pub fail_calls: Vec<u8>,
    /// store calls *before* which every record is wiped (as another request / an operator would)
    pub wipe_calls: Vec<u8>,
    /// the first request is served by the previous deployment (see `c12::old_processor`): key / algorithm rotation
    #[serde(default)]
    pub rotated: bool,
}

pub struct FaultyStore {
    inner: InMemorySessionStore,
    calls: AtomicU64,
    fail: BTreeSet<u64>,
    wipe: BTreeSet<u64>,
    ids: Mutex<Vec<SessionId>>,
    stats: Mutex<(u64, u64)>,
}

impl std::fmt::Debug for FaultyStore {
    fn fmt(&self, f: &mut std::fmt::Formatter<'_>) -> std::fmt::Result {
        write!(f, "FaultyStore")
    }
}

impl FaultyStore {
    /// A wrapper around the in-memory store that fails the store calls whose number is in `fail` and wipes
    /// every record before the calls whose number is in `wipe`.
    pub fn new(fail: &[u8], wipe: &[u8]) -> FaultyStore {
        FaultyStore {
            inner: InMemorySessionStore::new(),
            calls: AtomicU64::new(0),
            fail: fail.iter().map(|x| *x as u64).collect(),
            wipe: wipe.iter().map(|x| *x as u64).collect(),
            ids: Mutex::new(vec![]),
            stats: Mutex::new((0, 0)),
        }
    }

    /// Returns `true` when this call has to fail.
    async fn tick(&self, id: Option<&SessionId>) -> bool {
        if FAULTS_PAUSED.with(|p| p.get()) {
            // the harness itself is looking at the store
            return false;
        }
        let n = self.calls.fetch_add(1, Ordering::SeqCst);
        if let Some(id) = id {
            let mut ids = self.ids.lock().unwrap();
            if !ids.contains(id) {
                ids.push(*id);
            }
        }
        if self.wipe.contains(&n) {
            let ids: Vec<SessionId> = self.ids.lock().unwrap().clone();
            for i in ids {
                let _ = self.inner.delete(&i).await;
            }
            self.stats.lock().unwrap().1 += 1;
        }
        // yield points let a concurrently polled sibling call interleave: before the real call for every third
        // call number, after the real call always (so that "first load sees the record, the record vanishes,
        // second load does not see it, the first one completes first" is among the schedules)
        if n % 3 == 0 {
            tokio::task::yield_now().await;
        }
        if self.fail.contains(&n) {
            self.stats.lock().unwrap().0 += 1;
            return true;
        }
        false
    }
}

fn injected() -> anyhow::Error {
    anyhow::anyhow!("injected store failure")
}

#[async_trait::async_trait]
impl SessionStorageBackend for FaultyStore {
    async fn create(&self, id: &SessionId, record: SessionRecordRef<'_>) -> Result<(), CreateError> {
        if self.tick(Some(id)).await {
            return Err(CreateError::Other(injected()));
        }
        self.inner.create(id, record).await
    }
    async fn update(&self, id: &SessionId, record: SessionRecordRef<'_>) -> Result<(), UpdateError> {
        if self.tick(Some(id)).await {
            return Err(UpdateError::Other(injected()));
        }
        self.inner.update(id, record).await
    }
    async fn update_ttl(&self, id: &SessionId, ttl: std::time::Duration) -> Result<(), UpdateTtlError> {
        if self.tick(Some(id)).await {
            return Err(UpdateTtlError::Other(injected()));
        }
        self.inner.update_ttl(id, ttl).await
    }
    async fn load(&self, session_id: &SessionId) -> Result<Option<SessionRecord>, LoadError> {
        if self.tick(Some(session_id)).await {
            return Err(LoadError::Other(injected()));
        }
        let r = self.inner.load(session_id).await;
        tokio::task::yield_now().await;
        r
    }
    async fn delete(&self, session_id: &SessionId) -> Result<(), DeleteError> {
        if self.tick(Some(session_id)).await {
            return Err(DeleteError::Other(injected()));
        }
        self.inner.delete(session_id).await
    }
    async fn change_id(&self, old_id: &SessionId, new_id: &SessionId) -> Result<(), ChangeIdError> {
        if self.tick(Some(old_id)).await {
            return Err(ChangeIdError::Other(injected()));
        }
        {
            let mut ids = self.ids.lock().unwrap();
            if !ids.contains(new_id) {
                ids.push(*new_id);
            }
        }
        self.inner.change_id(old_id, new_id).await
    }
    async fn delete_expired(&self, batch_size: Option<NonZeroUsize>) -> Result<usize, DeleteExpiredError> {
        self.inner.delete_expired(batch_size).await
    }
}

thread_local! {
    /// set by a harness around its own inspections of the store (they are not part of the history)
    pub static FAULTS_PAUSED: std::cell::Cell<bool> = const { std::cell::Cell::new(false) };
}

thread_local! {
    static RT: tokio::runtime::Runtime = tokio::runtime::Builder::new_current_thread().enable_all().build().unwrap();
}

pub fn oracle(c: &ChaosCase) -> CaseResult {
    let r = crate::util::catch(|| RT.with(|rt| rt.block_on(run(c))));
    match r {
        Ok(r) => r,
        Err(p) => Err(Fail::new(format!("panic:{}", crate::util::panic_sig(&p)), format!("panicked: {p}"))),
    }
}

async fn run(c: &ChaosCase) -> CaseResult {
    let faulty = FaultyStore {
        inner: InMemorySessionStore::new(),
        calls: AtomicU64::new(0),
        fail: c.fail_calls.iter().map(|x| *x as u64).collect(),
        wipe: c.wipe_calls.iter().map(|x| *x as u64).collect(),
        ids: Mutex::new(vec![]),
        stats: Mutex::new((0, 0)),
    };
    let store = SessionStore::new(faulty);
    // (a TTL beyond any clock is for the first campaign only: the stores cannot create such a record)
    let mut base = c.base.clone();
    if base.ttl % 4 == 3 {
        base.ttl = 2;
    }
    let c = &ChaosCase { base, ..c.clone() };
    let (config, processor, name) = crate::c12::session_setup(&c.base);
    let old_processor = crate::c12::old_processor(&c.base);
    let mut info = CaseInfo::default();
    let mut cookie_header: Option<String> = None;
    let mut known_ids: Vec<String> = vec![];
    let mut saw_join = false;
    for (ri, ops) in c.script.iter().enumerate() {
        let old = c.rotated && ri == 0;
        let processor = if old { &old_processor } else { &processor };
        let (signs, encrypts) = if old { crate::c12::old_protection(&c.base) } else { crate::c12::protection(&c.base) };
        if old {
            info.lab("first-request-served-by-the-previous-deployment");
        }
        let (mut session, had) = new_session(&store, &config, processor, cookie_header.as_deref());
        if cookie_header.is_some() && !had {
            return Err(Fail::new("cookie-not-recognised", format!("request #{ri}: the cookie issued by the previous response is not accepted back")));
        }
        let mut debugs: Vec<String> = vec![format!("{session:?}")];
        for op in ops {
            match op {
                ChaosOp::Plain(Op::Sync) => {
                    let _ = session.sync().await;
                }
                ChaosOp::Plain(op) => {
                    let _ = real_op(&mut session, op).await;
                }
                ChaosOp::JoinGet(a, b) => {
                    saw_join = true;
                    let s = &session;
                    let (x, y) = tokio::join!(s.get_raw(key_name(*a)), s.get_raw(key_name(*b)));
                    let _ = (x.map(|v| v.cloned()), y.map(|v| v.cloned()));
                }
                ChaosOp::JoinGetIsEmpty(a) => {
                    saw_join = true;
                    let s = &session;
                    let (x, y) = tokio::join!(s.get_raw(key_name(*a)), s.is_empty());
                    let _ = (x.map(|v| v.cloned()), y);
                }
            }
            debugs.push(format!("{session:?}"));
        }
        match real_finalize(session, processor, name).await? {
            Finalized::Err(kind, _) => {
                info.lab(format!("finalize:error:{}", if kind.contains("Required") { kind.as_str() } else { "other" }));
            }
            Finalized::NoCookie => {
                info.lab("finalize:no-cookie");
                cookie_header = None;
            }
            Finalized::Cookie(em) if em.is_removal => {
                info.lab("finalize:removal-cookie");
                cookie_header = None;
            }
            Finalized::Cookie(em) => {
                let (id, client) = parse_plain(&em.plain_value).map_err(|e| Fail::new("cookie-format", e))?;
                if !(signs || encrypts) || (!client.is_empty() && !encrypts) {
                    return Err(Fail::new(
                        "unprotected-cookie",
                        format!(
                            "request #{ri}: a session cookie was attached although the processor rules (sign={signs}, encrypt={encrypts}) do not protect it adequately (client-side state in the cookie: {} entries): {}",
                            client.len(),
                            em.set_cookie
                        ),
                    ));
                }
                let wire_value = em.set_cookie.split(';').next().unwrap_or("").split_once('=').map(|x| x.1.to_string()).unwrap_or_default();
                if encrypts && wire_value.contains(&id) {
                    return Err(Fail::new("wire-plaintext", format!("request #{ri}: the cookie is configured to be encrypted but the id is readable in `{}`", em.set_cookie)));
                }
                if !encrypts && wire_value == em.plain_value {
                    return Err(Fail::new("wire-unsigned", format!("request #{ri}: the cookie is configured to be signed but the wire value carries no signature: `{}`", em.set_cookie)));
                }
                if !client.is_empty() {
                    info.lab("cookie:with-client-state");
                }
                if signs != encrypts {
                    info.set_nontrivial(true);
                }
                known_ids.push(id);
                cookie_header = Some(cookie_header_from_set_cookie(&em.set_cookie));
                info.lab("finalize:cookie");
            }
        }
        for id in &known_ids {
            for d in &debugs {
                if let Some(form) = crate::c12::leaks(d, id) {
                    return Err(Fail::new("debug-leaks-id", format!("request #{ri}: the Debug representation of the session contains the session id ({form}): {d}")));
                }
            }
        }
    }
    // what the schedule actually did
    if saw_join {
        info.lab("concurrent-reads");
    }
    info.lab("faulty-store");
    Ok(info)
}

fn chaos_op() -> impl Strategy<Value = ChaosOp> {
    prop_oneof![
        8 => crate::c11::op_strategy(true).prop_map(ChaosOp::Plain),
        2 => (0u8..4, 0u8..4).prop_map(|(a, b)| ChaosOp::JoinGet(a, b)),
        1 => (0u8..4).prop_map(ChaosOp::JoinGetIsEmpty),
    ]
}

pub fn case_strategy() -> impl Strategy<Value = ChaosCase> {
    (
        crate::c12::case_strategy(),
        prop::collection::vec(prop::collection::vec(chaos_op(), 0..=7), 1..=4),
        prop::collection::vec(0u8..24, 0..=3),
        prop::collection::vec(0u8..24, 0..=3),
        any::<bool>(),
    )
        .prop_map(|(base, script, fail_calls, wipe_calls, rotated)| ChaosCase { base, script, fail_calls, wipe_calls, rotated })
}
