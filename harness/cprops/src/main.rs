//! In-process property checks that need the compiler library (`pavexc`).
use cprops::c20;
use vcommon::{Check, Settings};

fn main() {
    let args: Vec<String> = std::env::args().collect();
    let Some(prop) = args.get(1).cloned() else {
        eprintln!("usage: cprops <Cxx> [--tier quick|thorough] [--replay file]");
        std::process::exit(2);
    };
    let settings = Settings::from_env_and_args(&prop, &args[2..]);
    let chk = Check::new(settings, "");
    match prop.as_str() {
        "C20" => c20::main(chk),
        _ => {
            eprintln!("cprops: unknown property {prop}");
            std::process::exit(2);
        }
    }
}
