//! In-process property checks that need the compiler library (`pavexc`): generators and oracles.
//! Used by the `cprops` binary (proptest campaigns) and by the libFuzzer target `../fuzz` (fz_c20).
pub mod c20;
pub use vcommon::util::catch;
