//! C20 (a) — domain guards accept exactly the hosts the documentation says (validator, pattern,
//! matching and pairwise conflicts, in-process through hook H2).
use proptest::prelude::*;
use serde::{Deserialize, Serialize};
use vcommon::{CaseInfo, CaseResult, Check, Fail, idx};

const KEYWORDS: &[&str] = &[
    "abstract", "as", "async", "await", "become", "box", "break", "const", "continue", "crate", "do", "dyn", "else",
    "enum", "extern", "false", "final", "fn", "for", "if", "impl", "in", "let", "loop", "macro", "match", "mod", "move",
    "mut", "override", "priv", "pub", "ref", "return", "Self", "self", "static", "struct", "super", "trait", "true",
    "try", "type", "typeof", "unsafe", "unsized", "use", "virtual", "where", "while", "yield",
];

#[derive(Clone, Debug, PartialEq)]
struct PLabel {
    /// (is_catch_all, name)
    param: Option<(bool, String)>,
    lit: String,
}

#[derive(Debug, PartialEq)]
enum Verdict {
    Valid(Vec<PLabel>),
    Invalid(&'static str),
    /// outside what the harness-side reading of the rules can decide
    Unknown(&'static str),
}

/// Independent validator written from docs/guide/routing/domain_guards.md + the DNS limits
/// (labels of 1-63 characters over [A-Za-z0-9-] not starting/ending with '-', 253 in total).
fn validate(s: &str) -> Verdict {
    if s.is_empty() {
        return Verdict::Invalid("empty");
    }
    let body = s.strip_suffix('.').unwrap_or(s);
    if body.is_empty() {
        return Verdict::Invalid("empty label");
    }
    let mut labels = vec![];
    let mut total = 0usize;
    for (i, raw) in body.split('.').enumerate() {
        if raw.is_empty() {
            return Verdict::Invalid("empty label");
        }
        let (param, lit) = if let Some(rest) = raw.strip_prefix('{') {
            let Some(close) = rest.find('}') else {
                return Verdict::Invalid("unclosed parameter");
            };
            let inner = &rest[..close];
            let lit = &rest[close + 1..];
            let (catch_all, name) = match inner.strip_prefix('*') {
                Some(n) => (true, n),
                None => (false, inner),
            };
            if name.is_empty() {
                return Verdict::Invalid("empty parameter name");
            }
            if !name.is_ascii() {
                return Verdict::Unknown("non-ASCII parameter name");
            }
            let mut cs = name.chars();
            let first = cs.next().unwrap();
            let ident = (first.is_ascii_alphabetic() || first == '_')
                && cs.all(|c| c.is_ascii_alphanumeric() || c == '_')
                && name != "_"
                && !KEYWORDS.contains(&name);
            if !ident {
                if name == "gen" || name.starts_with("r#") {
                    return Verdict::Unknown("edition-dependent identifier");
                }
                return Verdict::Invalid("parameter name is not an identifier");
            }
            if name == "gen" {
                return Verdict::Unknown("edition-dependent identifier");
            }
            if catch_all && i != 0 {
                return Verdict::Invalid("catch-all not in the first label");
            }
            (Some((catch_all, name.to_string())), lit)
        } else {
            (None, raw)
        };
        if lit.contains('{') || lit.contains('}') {
            return Verdict::Invalid("parameter not at the start of the label / second parameter / stray brace");
        }
        if !lit.chars().all(|c| c.is_ascii_alphanumeric() || c == '-') {
            return Verdict::Invalid("character outside the DNS alphabet");
        }
        if param.is_none() && !lit.chars().next().unwrap().is_ascii_alphanumeric() {
            return Verdict::Invalid("label starts with '-'");
        }
        if let Some(last) = lit.chars().last() {
            if !last.is_ascii_alphanumeric() {
                return Verdict::Invalid("label ends with '-'");
            }
        }
        let len = lit.chars().count() + usize::from(param.is_some());
        if len > 63 {
            return Verdict::Invalid("label longer than 63");
        }
        total += len;
        labels.push(PLabel { param, lit: lit.to_string() });
    }
    total += labels.len() - 1;
    if total > 253 {
        return Verdict::Invalid("name longer than 253");
    }
    // The documentation sets no limit on the number of parameters, but the router library cannot
    // register a pattern with more than 25: whether such a guard is refused or not is not judged,
    // only that an *accepted* guard can be registered (see `oracle`).
    if labels.iter().filter(|l| l.param.is_some()).count() > 25 {
        return Verdict::Unknown("more than 25 parameters (router limit, undocumented)");
    }
    Verdict::Valid(labels)
}

/// Independent matcher: does `host` fit the guard?
fn matches(guard: &[PLabel], host: &str) -> bool {
    let host = host.strip_suffix('.').unwrap_or(host);
    if host.is_empty() {
        return false;
    }
    let hl: Vec<&str> = host.split('.').collect();
    let fits = |l: &PLabel, text: &str| -> bool {
        match &l.param {
            None => text == l.lit,
            Some(_) => text.len() > l.lit.len() && text.ends_with(l.lit.as_str()),
        }
    };
    let first = &guard[0];
    if matches!(first.param, Some((true, _))) {
        // the catch-all swallows one or more leading labels
        if hl.len() < guard.len() {
            return false;
        }
        let k = hl.len() - guard.len() + 1;
        let head = hl[..k].join(".");
        if hl[..k].iter().any(|l| l.is_empty()) && k > 1 {
            // an empty label inside the swallowed part: `a..b` - the path router sees `a//b`
            // (an empty segment inside a catch-all is still text), keep the textual reading
        }
        if !fits(first, &head) {
            return false;
        }
        guard[1..].iter().zip(&hl[k..]).all(|(g, h)| fits(g, h))
    } else {
        hl.len() == guard.len() && guard.iter().zip(&hl).all(|(g, h)| fits(g, h))
    }
}

/// The host normalisation promised by the documentation ("a single trailing dot is stripped")
/// followed by the representation change the router needs.
fn normalise_documented(host: &str) -> String {
    let h = host.strip_suffix('.').unwrap_or(host);
    h.replace('.', "/").chars().rev().collect()
}

fn render(labels: &[PLabel]) -> String {
    labels
        .iter()
        .map(|l| match &l.param {
            Some((true, n)) => format!("{{*{n}}}{}", l.lit),
            Some((false, n)) => format!("{{{n}}}{}", l.lit),
            None => l.lit.clone(),
        })
        .collect::<Vec<_>>()
        .join(".")
}

#[derive(Clone, Debug, Serialize, Deserialize)]
pub struct Case {
    pub guard: String,
    pub hosts: Vec<String>,
}

#[derive(Clone, Debug, Serialize, Deserialize)]
pub struct PairCase {
    pub a: String,
    pub b: String,
}

fn hook(g: &str) -> Result<Result<(String, String), String>, Fail> {
    crate::catch(|| pavexc::verif_hooks::domain_guard_new(g))
        .map_err(|p| Fail::new("panic:validator", format!("the validator panicked on `{g}`: {p}")))
}

pub fn oracle(c: &Case) -> CaseResult {
    let mut info = CaseInfo::default();
    let mine = validate(&c.guard);
    let real = hook(&c.guard)?;
    let labels = match (&mine, &real) {
        (Verdict::Unknown(why), _) => {
            info.lab(format!("validator:undecided({why})"));
            // whatever the compiler accepts must at least be registrable in the router
            if let Ok((_, pattern)) = &real {
                let p = pattern.clone();
                let registered = crate::catch(move || matchit::Router::new().insert(p, ()).map_err(|e| e.to_string()));
                match registered {
                    Ok(Ok(())) => {}
                    Ok(Err(e)) => return Err(Fail::new("unroutable-pattern", format!("`{}` is accepted but its router pattern `{pattern}` cannot be registered: {e}", c.guard))),
                    Err(panic) => return Err(Fail::new("unroutable-pattern:router-panics", format!("`{}` is accepted but registering its router pattern `{pattern}` makes the router panic: {panic}", c.guard))),
                }
                info.set_nontrivial(true);
            }
            return Ok(info);
        }
        (Verdict::Valid(_), Err(e)) => {
            return Err(Fail::new(
                "valid-guard-rejected",
                format!("`{}` is a valid (templated) DNS name under the documented rules but the compiler rejects it: {e}", c.guard),
            ));
        }
        (Verdict::Invalid(why), Ok((norm, _))) => {
            return Err(Fail::new(
                "invalid-guard-accepted",
                format!("`{}` is not a valid domain guard ({why}) but the compiler accepts it (normalised to `{norm}`)", c.guard),
            ));
        }
        (Verdict::Invalid(why), Err(_)) => {
            info.lab(format!("rejected:{why}"));
            info.set_nontrivial(true);
            return Ok(info);
        }
        (Verdict::Valid(l), Ok(_)) => l.clone(),
    };
    let (norm, pattern) = real.unwrap();
    let want_norm = c.guard.strip_suffix('.').unwrap_or(&c.guard);
    if norm != want_norm {
        return Err(Fail::new("normalisation", format!("`{}` is normalised to `{norm}`, expected `{want_norm}`", c.guard)));
    }
    let mut router = matchit::Router::new();
    let inserted = {
        let p = pattern.clone();
        let r = &mut router;
        crate::catch(std::panic::AssertUnwindSafe(move || r.insert(p, ()).map_err(|e| e.to_string())))
    };
    match inserted {
        Ok(Ok(())) => {}
        Ok(Err(e)) => {
            return Err(Fail::new(
                "unroutable-pattern",
                format!("`{}` is accepted but its router pattern `{pattern}` cannot be registered: {e}", c.guard),
            ));
        }
        Err(panic) => {
            return Err(Fail::new(
                "unroutable-pattern:router-panics",
                format!("`{}` is accepted but registering its router pattern `{pattern}` makes the router panic: {panic}", c.guard),
            ));
        }
    }
    let has_param = labels.iter().any(|l| l.param.is_some());
    let mut near_miss = false;
    for h in &c.hosts {
        if h.is_empty() {
            continue;
        }
        let real_match = router.at(&normalise_documented(h)).is_ok();
        let model = matches(&labels, h);
        let mixed_case = h.chars().any(|c| c.is_ascii_uppercase()) != c.guard.chars().any(|c| c.is_ascii_uppercase())
            && h.to_ascii_lowercase() == c.guard.to_ascii_lowercase();
        if real_match != model {
            if mixed_case {
                info.lab("host:case-differs(classified)");
                continue;
            }
            return Err(Fail::new(
                if model { "host-not-matched" } else { "host-wrongly-matched" },
                format!(
                    "guard `{}` (pattern `{pattern}`) and host `{h}`: the router says {real_match}, the documented semantics say {model}",
                    c.guard
                ),
            ));
        }
        info.lab(if model { "host:match" } else { "host:no-match" });
        near_miss |= !model;
    }
    if has_param || c.guard.ends_with('.') || near_miss {
        info.set_nontrivial(true);
    }
    if labels.iter().any(|l| matches!(l.param, Some((true, _)))) {
        info.lab("guard:catch-all");
    } else if has_param {
        info.lab("guard:param");
    } else {
        info.lab("guard:static");
    }
    if labels.iter().any(|l| l.param.is_some() && !l.lit.is_empty()) {
        info.lab("guard:param-with-suffix");
    }
    Ok(info)
}

fn witness(labels: &[PLabel]) -> String {
    labels
        .iter()
        .map(|l| match &l.param {
            Some((true, _)) => format!("w1.w2{}", l.lit),
            Some((false, _)) => format!("w{}", l.lit),
            None => l.lit.clone(),
        })
        .collect::<Vec<_>>()
        .join(".")
}

fn same_shape(a: &[PLabel], b: &[PLabel]) -> bool {
    a.len() == b.len()
        && a.iter().zip(b).all(|(x, y)| {
            x.lit == y.lit
                && match (&x.param, &y.param) {
                    (None, None) => true,
                    (Some((ca, _)), Some((cb, _))) => ca == cb,
                    _ => false,
                }
        })
}

pub fn pair_oracle(c: &PairCase) -> CaseResult {
    let mut info = CaseInfo::default();
    let (Verdict::Valid(la), Verdict::Valid(lb)) = (validate(&c.a), validate(&c.b)) else {
        info.lab("pair:not-both-valid");
        return Ok(info);
    };
    let (ra, rb) = (hook(&c.a)?, hook(&c.b)?);
    let (Ok((na, pa)), Ok((nb, pb))) = (ra, rb) else {
        info.lab("pair:not-both-accepted");
        return Ok(info);
    };
    if na == nb {
        // the same guard after normalisation: the compiler sees a single guard
        info.lab("pair:identical-after-normalisation");
        return Ok(info);
    }
    let mut router = matchit::Router::new();
    router.insert(pa.clone(), 0).map_err(|e| Fail::new("unroutable-pattern", format!("{pa}: {e}")))?;
    let conflict = match router.insert(pb.clone(), 1) {
        Ok(()) => false,
        Err(matchit::InsertError::Conflict { .. }) => true,
        Err(e) => return Err(Fail::new("unroutable-pattern", format!("`{}` -> `{pb}`: {e}", c.b))),
    };
    let (wa, wb) = (witness(&la), witness(&lb));
    let common = [wa.clone(), wb.clone()].into_iter().find(|h| matches(&la, h) && matches(&lb, h));
    if conflict {
        if common.is_none() {
            return Err(Fail::new(
                "spurious-conflict",
                format!("`{}` and `{}` are rejected as conflicting but no host matches both (tried `{wa}`, `{wb}`)", c.a, c.b),
            ));
        }
        info.lab("pair:conflict-detected");
        info.set_nontrivial(true);
    } else {
        if same_shape(&la, &lb) {
            return Err(Fail::new(
                "ambiguous-pair-accepted",
                format!("`{}` and `{}` match exactly the same hosts (e.g. `{wa}`) but are not rejected as conflicting", c.a, c.b),
            ));
        }
        if let Some(h) = common {
            // a host with two candidates, one of which is more specific: the router has a priority
            // rule for this; recorded, not judged
            info.lab("pair:overlap-resolved-by-specificity(classified)");
            let nh = normalise_documented(&h);
            if router.at(&nh).is_err() {
                return Err(Fail::new("host-not-matched", format!("`{h}` fits both `{}` and `{}` but the combined router matches neither", c.a, c.b)));
            }
        } else {
            info.lab("pair:disjoint");
        }
    }
    Ok(info)
}

// ------------------------------------------------------------------------------------------
// Generators
// ------------------------------------------------------------------------------------------

fn lit(max: usize) -> impl Strategy<Value = String> {
    prop_oneof![
        6 => "[a-z0-9]{1,8}",
        2 => "[a-z0-9][a-z0-9-]{0,6}[a-z0-9]",
        1 => "[A-Za-z0-9]{1,5}",
        1 => (1usize..=max.max(1)).prop_map(|n| "a".repeat(n)),
    ]
}

fn name() -> impl Strategy<Value = String> {
    prop_oneof![
        5 => "[a-z][a-z0-9_]{0,5}",
        1 => prop::sample::select(vec!["sub", "_a", "A9", "tenant_id", "x"]).prop_map(|s| s.to_string()),
    ]
    .prop_filter("not a keyword", |n| !KEYWORDS.contains(&n.as_str()) && n != "gen" && n != "_")
}

fn label(first: bool) -> BoxedStrategy<PLabel> {
    prop_oneof![
        5 => lit(63).prop_map(|l| PLabel { param: None, lit: l }),
        2 => name().prop_map(|n| PLabel { param: Some((false, n)), lit: String::new() }),
        1 => (name(), lit(62)).prop_map(|(n, l)| PLabel { param: Some((false, n)), lit: l }),
        if first { 2 } else { 0 } => name().prop_map(|n| PLabel { param: Some((true, n)), lit: String::new() }),
        if first { 1 } else { 0 } => (name(), lit(20)).prop_map(|(n, l)| PLabel { param: Some((true, n)), lit: l }),
    ]
    .boxed()
}

fn guard_labels() -> impl Strategy<Value = Vec<PLabel>> {
    // mostly 1-5 labels; one case in forty has 20-40 labels (around the router's limit of 25 parameters)
    let short = prop_oneof![
        3 => "[a-z]{1,2}".prop_map(|n| PLabel { param: Some((false, format!("p{n}"))), lit: String::new() }),
        1 => lit(3).prop_map(|l| PLabel { param: None, lit: l }),
    ];
    let rest = prop_oneof![39 => prop::collection::vec(label(false), 0..4), 1 => prop::collection::vec(short, 19..40)];
    (label(true), rest).prop_map(|(f, mut rest)| {
        let mut v = vec![f];
        v.append(&mut rest);
        // parameter names must be unique within a guard
        let mut seen = std::collections::BTreeSet::new();
        for l in v.iter_mut() {
            if let Some((_, n)) = &mut l.param {
                while !seen.insert(n.clone()) {
                    n.push('x');
                }
            }
        }
        v
    })
}

const MUT_CHARS: &[char] = &['.', '{', '}', '*', '-', '_', 'A', 'é', ' ', '%', 'z'];

fn mutate(s: &str, kind: u8, pos: u16, ch: u8) -> String {
    let chars: Vec<char> = s.chars().collect();
    let c = MUT_CHARS[ch as usize % MUT_CHARS.len()];
    let p = idx(pos, chars.len() + 1);
    let mut out: Vec<char> = chars.clone();
    match kind % 8 {
        0 => out.insert(p, c),
        1 => {
            if !out.is_empty() {
                out.remove(p.min(out.len() - 1));
            }
        }
        2 => {
            if !out.is_empty() {
                let q = p.min(out.len() - 1);
                out[q] = c;
            }
        }
        3 => {
            // duplicate a dot / append dots
            out.push('.');
            if ch % 2 == 0 {
                out.push('.');
            }
        }
        4 => {
            // stretch the first literal run to 64 characters
            return format!("{}{}", "b".repeat(64), s);
        }
        5 => {
            // push the total over 253
            let mut t = s.to_string();
            while t.len() <= 254 {
                t = format!("abcdefgh.{t}");
            }
            return t;
        }
        6 => {
            // a keyword / empty / odd parameter name in front
            let n = ["fn", "", "*", "self", "a-b", "1a", "type"][ch as usize % 7];
            return format!("{{{n}}}.{s}");
        }
        _ => {
            // move a parameter away from the start of its label / catch-all to the end
            return if ch % 2 == 0 { format!("x{{p}}.{s}") } else { format!("{s}.{{*rest}}") };
        }
    }
    out.into_iter().collect()
}

fn hosts_for(labels: Vec<PLabel>, fills: Vec<String>, extra: Vec<String>, salt: u16) -> Vec<String> {
    let fill = |i: usize| fills[i % fills.len().max(1)].clone();
    let mut w = vec![];
    for (i, l) in labels.iter().enumerate() {
        w.push(match &l.param {
            Some((true, _)) => {
                let n = 1 + (salt as usize + i) % 3;
                let mut parts: Vec<String> = (0..n).map(|k| fill(i + k)).collect();
                let last = parts.pop().unwrap();
                parts.push(format!("{last}{}", l.lit));
                parts.join(".")
            }
            Some((false, _)) => format!("{}{}", fill(i), l.lit),
            None => l.lit.clone(),
        });
    }
    let exact = w.join(".");
    let mut hosts = vec![exact.clone(), format!("{exact}."), format!("{exact}.."), format!("extra.{exact}"), exact.to_ascii_uppercase()];
    if w.len() > 1 {
        hosts.push(w[1..].join("."));
        hosts.push(w[..w.len() - 1].join("."));
        let mut v = w.clone();
        v[salt as usize % w.len()] = "zz9".into();
        hosts.push(v.join("."));
        let mut v = w.clone();
        v.insert(1, String::new());
        hosts.push(v.join("."));
    }
    // the bare suffix of a parameter label (parameter would be empty)
    for (i, l) in labels.iter().enumerate() {
        if l.param.is_some() {
            let mut v = w.clone();
            v[i] = l.lit.clone();
            hosts.push(v.iter().filter(|s| !s.is_empty() || !l.lit.is_empty()).cloned().collect::<Vec<_>>().join("."));
        }
    }
    hosts.extend(extra);
    hosts
}

pub fn case_strategy() -> impl Strategy<Value = Case> {
    (
        guard_labels(),
        any::<bool>(),
        prop::option::weighted(0.45, (any::<u8>(), any::<u16>(), any::<u8>())),
        prop::collection::vec("[a-z0-9]{1,6}", 1..4),
        prop::collection::vec("[a-z0-9.-]{1,12}", 0..3),
        any::<u16>(),
    )
        .prop_map(|(labels, dot, mutation, fills, extra, salt)| {
            let mut g = render(&labels);
            if dot {
                g.push('.');
            }
            let hosts = hosts_for(labels, fills, extra, salt);
            if let Some((k, p, c)) = mutation {
                g = mutate(&g, k, p, c);
            }
            Case { guard: g, hosts }
        })
}

/// Byte decoder for the libFuzzer target `fz_c20`: the guard is the text up to the first NUL byte
/// (any bytes, read as lossy UTF-8: the validator must cope with every string), the hosts are the
/// remaining NUL-separated chunks plus, when the harness-side validator accepts the guard, the hosts
/// derived from it exactly as the proptest campaign derives them.
pub fn case_from_bytes(data: &[u8]) -> Case {
    let mut parts = data.split(|b| *b == 0);
    let guard = String::from_utf8_lossy(parts.next().unwrap_or(&[])).chars().take(300).collect::<String>();
    // hosts are what an HTTP client can put into a Host header / authority: letters, digits, '-' and '.'
    // (the same alphabet as the proptest campaign; anything else is not a host the router is ever asked about)
    let mut hosts: Vec<String> = parts
        .take(4)
        .map(|p| p.iter().take(80).map(|b| match b { b'a'..=b'z' | b'A'..=b'Z' | b'0'..=b'9' | b'-' | b'.' => *b as char, x => (b'a' + x % 26) as char }).collect())
        .filter(|h: &String| !h.is_empty())
        .collect();
    if let Verdict::Valid(labels) = validate(&guard) {
        let salt = data.iter().fold(0u16, |a, b| a.wrapping_mul(31).wrapping_add(*b as u16));
        hosts.extend(hosts_for(labels, vec!["x1".into(), "api".into(), "z".into()], vec![], salt));
    }
    Case { guard, hosts }
}

pub fn pair_strategy() -> impl Strategy<Value = PairCase> {
    (guard_labels(), any::<u8>(), any::<u16>(), any::<bool>(), any::<bool>()).prop_map(|(labels, kind, pos, dot_a, dot_b)| {
        let mut other = labels.clone();
        let i = idx(pos, other.len());
        match kind % 6 {
            0 => {
                // rename every parameter
                for l in other.iter_mut() {
                    if let Some((_, n)) = &mut l.param {
                        n.push_str("_2");
                    }
                }
            }
            1 => {
                // parameter <-> literal at one label
                other[i] = match &other[i].param {
                    Some(_) => PLabel { param: None, lit: format!("w{}", other[i].lit) },
                    None => PLabel { param: Some((false, format!("p{i}"))), lit: String::new() },
                };
            }
            2 => {
                other[i].lit.push('q');
            }
            3 => {
                other.push(PLabel { param: None, lit: "tail".into() });
            }
            4 => {
                // catch-all <-> plain parameter in front
                other[0] = match &other[0].param {
                    Some((true, n)) => PLabel { param: Some((false, n.clone())), lit: other[0].lit.clone() },
                    _ => PLabel { param: Some((true, "many".into())), lit: String::new() },
                };
            }
            _ => {}
        }
        let mut a = render(&labels);
        let mut b = render(&other);
        if dot_a {
            a.push('.');
        }
        if dot_b {
            b.push('.');
        }
        PairCase { a, b }
    })
}

pub fn main(mut chk: Check) -> ! {
    chk.ev.rule = "guards from a grammar (1-5 labels over [A-Za-z0-9-], {name} at label start with optional literal suffix, leading {*name}, optional trailing dot, boundary lengths 63/253) and single mutations of them (insert/delete/replace one of . { } * - _ A é space % z, duplicated dots, 64-character label, >253 total, keyword/empty/odd parameter names, misplaced parameter or catch-all) x hosts derived from the guard (exact witness, one/two trailing dots, one label more/fewer, one label changed, empty label, empty parameter, upper case) and random hosts. Oracle: an independent validator decides accept/reject; for accepted guards an independent matcher is compared with a real matchit router loaded with the compiler's pattern and queried with the documented host normalisation; pairs: a reported conflict needs a common host, identically-shaped guards must conflict. non-trivial = guard has a parameter or trailing dot, or a near-miss host, or a rejected guard, or a detected conflict; distinct = distinct serialised case".into();
    chk.ev.assume("host case sensitivity is not documented: hosts differing from the guard only in case are classified; non-ASCII / edition-dependent parameter names are classified; overlaps that the router resolves by specificity (static label vs parameter) are classified, not judged");
    chk.ev.assume("the host normalisation of the *generated* server is checked end to end (C20 b / C07), this part uses the documented normalisation");
    if let Some(p) = chk.settings.replay.clone() {
        let ok = chk.replay_one::<Case, _>("guards-x-hosts", &p, oracle) || chk.replay_one::<PairCase, _>("pairs", &p, pair_oracle);
        if !ok {
            eprintln!("replay file {} does not belong to C20", p.display());
            std::process::exit(2);
        }
        chk.finish();
    }
    for p in chk.committed_replays() {
        let _ = chk.replay_one::<Case, _>("guards-x-hosts", &p, oracle) || chk.replay_one::<PairCase, _>("pairs", &p, pair_oracle);
    }
    let t = chk.tier();
    chk.run("guards-x-hosts", t.pick(200_000, 1_500_000), case_strategy(), oracle);
    chk.run("pairs", t.pick(60_000, 500_000), pair_strategy(), pair_oracle);
    chk.finish()
}
