//! Instrumentation runtime of the generated application (user-crate code, no framework hooks).
use std::sync::Mutex;
use std::sync::atomic::{AtomicU64, Ordering};

static NEXT: AtomicU64 = AtomicU64::new(1);
static LOG: Mutex<Vec<String>> = Mutex::new(Vec::new());
static PLAN: Mutex<Vec<(String, u8)>> = Mutex::new(Vec::new());

fn push(s: String) {
    LOG.lock().unwrap_or_else(|e| e.into_inner()).push(s);
}

pub fn drain() -> Vec<String> {
    std::mem::take(&mut *LOG.lock().unwrap_or_else(|e| e.into_inner()))
}

pub fn set_plan(p: Vec<(String, u8)>) {
    *PLAN.lock().unwrap_or_else(|e| e.into_inner()) = p;
}

/// 0 = behave normally, 1 = fail (fallible components), 2 = early return / do not call next
pub fn plan(comp: &str) -> u8 {
    PLAN.lock().unwrap_or_else(|e| e.into_inner()).iter().find(|(c, _)| c == comp).map(|(_, a)| *a).unwrap_or(0)
}

#[derive(Debug)]
pub struct Tag {
    pub id: u64,
    pub root: u64,
    pub ty: &'static str,
    pub by: &'static str,
}

impl Tag {
    pub fn fresh(ty: &'static str, by: &'static str) -> Tag {
        let id = NEXT.fetch_add(1, Ordering::SeqCst);
        push(format!(r#"{{"e":"built","by":"{by}","ty":"{ty}","id":{id}}}"#));
        Tag { id, root: id, ty, by }
    }
    pub fn cloned(&self) -> Tag {
        let id = NEXT.fetch_add(1, Ordering::SeqCst);
        push(format!(r#"{{"e":"clone","ty":"{}","from":{},"new":{},"root":{}}}"#, self.ty, self.id, id, self.root));
        Tag { id, root: self.root, ty: self.ty, by: self.by }
    }
}

#[derive(Debug, Clone, Copy)]
pub struct CTag {
    pub id: u64,
    pub ty: &'static str,
    pub by: &'static str,
}

impl CTag {
    pub fn fresh(ty: &'static str, by: &'static str) -> CTag {
        let id = NEXT.fetch_add(1, Ordering::SeqCst);
        push(format!(r#"{{"e":"built","by":"{by}","ty":"{ty}","id":{id}}}"#));
        CTag { id, ty, by }
    }
}

pub fn fresh_id() -> u64 {
    NEXT.fetch_add(1, Ordering::SeqCst)
}

pub fn enter(comp: &'static str) {
    push(format!(r#"{{"e":"enter","c":"{comp}"}}"#));
}

pub fn exit(comp: &'static str, outcome: &str) {
    push(format!(r#"{{"e":"exit","c":"{comp}","o":"{outcome}"}}"#));
}

pub fn recv(comp: &'static str, t: &Tag, mode: &'static str) {
    push(format!(
        r#"{{"e":"recv","c":"{comp}","ty":"{}","id":{},"root":{},"by":"{}","m":"{mode}"}}"#,
        t.ty, t.id, t.root, t.by
    ));
}

pub fn recv_c(comp: &'static str, t: &CTag, mode: &'static str) {
    push(format!(
        r#"{{"e":"recv","c":"{comp}","ty":"{}","id":{},"root":{},"by":"{}","m":"{mode}","copy":true}}"#,
        t.ty, t.id, t.id, t.by
    ));
}

pub fn note(comp: &'static str, key: &'static str, value: &str) {
    let v: String = value.chars().map(|c| if c == '"' || c == '\\' || (c as u32) < 0x20 { '_' } else { c }).collect();
    push(format!(r#"{{"e":"note","c":"{comp}","k":"{key}","v":"{v}"}}"#));
}
