//! Driver: builds the application state, starts the generated server on a loopback port and
//! executes a request script read from stdin (one JSON object per line).
use std::io::{BufRead, Read, Write};

fn main() {
    let rt = tokio::runtime::Builder::new_multi_thread().worker_threads(1).enable_all().build().unwrap();
    let (addr, _handle) = rt.block_on(async {
        let state = match sdk::ApplicationState::new(sdk::ApplicationConfig {}SDK_PREBUILT_ARGS).await {
            Ok(s) => s,
            Err(e) => {
                println!("{}", serde_json::json!({"fatal": format!("ApplicationState::new failed: {e:?}")}));
                std::process::exit(3);
            }
        };
        let incoming = pavex::server::IncomingStream::bind("127.0.0.1:0".parse().unwrap()).await.unwrap();
        let addr = incoming.local_addr().unwrap();
        let server = pavex::server::Server::new()
            .set_config(pavex::server::ServerConfiguration::new().set_n_workers(1))
            .listen(incoming);
        let handle = sdk::run(server, state);
        (addr, handle)
    });
    let build_events = app::rt::drain();
    println!("{}", serde_json::json!({"listening": addr.to_string(), "events": build_events.iter().map(|e| serde_json::from_str::<serde_json::Value>(e).unwrap_or(serde_json::Value::Null)).collect::<Vec<_>>()}));
    std::io::stdout().flush().unwrap();
    let stdin = std::io::stdin();
    for line in stdin.lock().lines() {
        let Ok(line) = line else { break };
        if line.trim().is_empty() { continue; }
        let req: serde_json::Value = match serde_json::from_str(&line) { Ok(v) => v, Err(_) => continue };
        let plan: Vec<(String, u8)> = req["plan"].as_array().map(|a| a.iter().map(|p| (p[0].as_str().unwrap_or("").to_string(), p[1].as_u64().unwrap_or(0) as u8)).collect()).unwrap_or_default();
        app::rt::set_plan(plan);
        let _ = app::rt::drain();
        let raw = req["raw"].as_str().unwrap_or("");
        let mut out = serde_json::json!({"id": req["id"]});
        match std::net::TcpStream::connect(addr) {
            Ok(mut s) => {
                let _ = s.set_read_timeout(Some(std::time::Duration::from_secs(10)));
                let _ = s.write_all(raw.as_bytes());
                let mut buf = Vec::new();
                let _ = s.read_to_end(&mut buf);
                let text = String::from_utf8_lossy(&buf).to_string();
                let (head, body) = text.split_once("\r\n\r\n").unwrap_or((&text, ""));
                let mut lines = head.lines();
                let status: u16 = lines.next().and_then(|l| l.split(' ').nth(1)).and_then(|s| s.parse().ok()).unwrap_or(0);
                let headers: Vec<(String, String)> = lines.filter_map(|l| l.split_once(':')).map(|(k, v)| (k.trim().to_ascii_lowercase(), v.trim().to_string())).collect();
                // de-chunk if needed
                let body = if headers.iter().any(|(k, v)| k == "transfer-encoding" && v.contains("chunked")) {
                    let mut rest = body; let mut acc = String::new();
                    loop {
                        let Some((len, tail)) = rest.split_once("\r\n") else { break };
                        let n = usize::from_str_radix(len.trim(), 16).unwrap_or(0);
                        if n == 0 || tail.len() < n { break }
                        acc.push_str(&tail[..n]);
                        rest = tail[n..].trim_start_matches("\r\n");
                    }
                    acc
                } else { body.to_string() };
                out["status"] = status.into();
                out["headers"] = serde_json::json!(headers);
                out["body"] = body.into();
            }
            Err(e) => { out["io_error"] = e.to_string().into(); }
        }
        let events = app::rt::drain();
        out["events"] = events.iter().map(|e| serde_json::from_str::<serde_json::Value>(e).unwrap_or(serde_json::Value::Null)).collect::<Vec<_>>().into();
        println!("{out}");
        std::io::stdout().flush().unwrap();
    }
    std::process::exit(0);
}
