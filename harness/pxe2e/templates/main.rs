//! persists the requested blueprint through the real `Blueprint::persist`
fn main() {
    let a: Vec<String> = std::env::args().collect();
    let out = std::path::PathBuf::from(&a[3]);
    let bp = match a[1].as_str() {
        "one" => app::blueprint_one(a[2].parse().unwrap()),
        _ => app::blueprint_mask(a[2].parse().unwrap()),
    };
    bp.persist(&out).expect("persist");
}
