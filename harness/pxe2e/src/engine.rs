//! Lanes: a cargo workspace with the generated application, the generated SDK and a driver;
//! runs of `pavexc`, cargo and the driver binary.
use std::io::{BufRead, BufReader, Write};
use std::path::{Path, PathBuf};
use std::process::{Command, Stdio};
use std::time::{Duration, Instant};

use serde_json::Value;

use crate::emit;
use crate::spec::AppSpec;

pub const WORK: &str = "/verif/.work";
pub const PAVEXC: &str = "/verif/.work/target-pavexc/debug/pavexc";
pub const SHIM_DIR: &str = "/verif/toolchain/shim";

#[derive(Debug, Clone)]
pub struct RunResult {
    pub code: Option<i32>,
    pub signal: bool,
    pub stdout: String,
    pub stderr: String,
    pub wall: Duration,
    pub timed_out: bool,
    /// the process itself (children excluded) burnt more CPU time than `cpu_limit_secs()` and was killed
    pub cpu_bound: bool,
}

impl RunResult {
    pub fn ok(&self) -> bool {
        self.code == Some(0)
    }
    pub fn n_errors(&self) -> usize {
        strip_ansi(&self.stderr).lines().filter(|l| l.trim_start().starts_with("ERROR:")).count()
    }
    pub fn panicked(&self) -> bool {
        let s = strip_ansi(&self.stderr);
        s.contains("The application panicked") || s.contains("panicked at") || s.contains("verif: fixpoint bound exceeded")
    }
}

pub fn strip_ansi(s: &str) -> String {
    let mut out = String::with_capacity(s.len());
    let mut chars = s.chars().peekable();
    while let Some(c) = chars.next() {
        if c == '\u{1b}' {
            if chars.peek() == Some(&'[') {
                chars.next();
                for d in chars.by_ref() {
                    if d.is_ascii_alphabetic() {
                        break;
                    }
                }
            }
        } else {
            out.push(c);
        }
    }
    out
}

pub fn run_cmd(mut cmd: Command, timeout: Duration) -> RunResult {
    let start = Instant::now();
    cmd.stdin(Stdio::null()).stdout(Stdio::piped()).stderr(Stdio::piped());
    let mut child = match cmd.spawn() {
        Ok(c) => c,
        Err(e) => {
            return RunResult { code: None, signal: false, stdout: String::new(), stderr: format!("spawn failed: {e}"), wall: start.elapsed(), timed_out: false, cpu_bound: false };
        }
    };
    let mut so = child.stdout.take().unwrap();
    let mut se = child.stderr.take().unwrap();
    let t1 = std::thread::spawn(move || {
        let mut s = String::new();
        let _ = std::io::Read::read_to_string(&mut so, &mut s);
        s
    });
    let t2 = std::thread::spawn(move || {
        let mut s = String::new();
        let _ = std::io::Read::read_to_string(&mut se, &mut s);
        s
    });
    let mut timed_out = false;
    let mut cpu_bound = false;
    let mut last_cpu_probe = Instant::now();
    let own_cpu = |pid: u32| -> f64 {
        // utime + stime of the process itself, in seconds (fields 14 and 15 of /proc/<pid>/stat, 100 ticks per second)
        let Ok(text) = std::fs::read_to_string(format!("/proc/{pid}/stat")) else { return 0.0 };
        let Some(rest) = text.rsplit(')').next() else { return 0.0 };
        let f: Vec<&str> = rest.split_whitespace().collect();
        let t = |i: usize| f.get(i).and_then(|x| x.parse::<f64>().ok()).unwrap_or(0.0);
        (t(11) + t(12)) / 100.0
    };
    let status = loop {
        match child.try_wait() {
            Ok(Some(st)) => break Some(st),
            Ok(None) => {
                if last_cpu_probe.elapsed() > Duration::from_secs(2) {
                    last_cpu_probe = Instant::now();
                    if own_cpu(child.id()) > cpu_limit_secs() as f64 {
                        cpu_bound = true;
                    }
                }
                if start.elapsed() > timeout || cpu_bound {
                    if !cpu_bound && own_cpu(child.id()) > cpu_limit_secs() as f64 {
                        cpu_bound = true;
                    }
                    let _ = child.kill();
                    timed_out = true;
                    break child.wait().ok();
                }
                std::thread::sleep(Duration::from_millis(10));
            }
            Err(_) => break None,
        }
    };
    let stdout = t1.join().unwrap_or_default();
    let stderr = t2.join().unwrap_or_default();
    let code = status.and_then(|s| s.code());
    RunResult { code, signal: status.map(|s| s.code().is_none()).unwrap_or(true) && !timed_out, stdout, stderr, wall: start.elapsed(), timed_out, cpu_bound }
}

/// Where the lanes live (a side run has its own: see `vcommon::side_dir`).
pub fn lanes_dir() -> PathBuf {
    vcommon::side_dir().unwrap_or_else(|| PathBuf::from(WORK)).join("lanes")
}

/// Root of the repository whose runtime crates the generated applications depend on (`PX_REPO_ROOT` is a
/// debugging aid for side runs against a scratch worktree; the registered commands use /repo).
pub fn repo_root() -> String {
    std::env::var("PX_REPO_ROOT").ok().filter(|s| !s.is_empty()).unwrap_or_else(|| "/repo".to_string())
}

/// The compiler binary under test (`PX_PAVEXC_BIN` is a debugging aid for side runs).
pub fn pavexc_bin() -> String {
    std::env::var("PX_PAVEXC_BIN").ok().filter(|s| !s.is_empty()).unwrap_or_else(|| PAVEXC.to_string())
}

pub struct Lane {
    pub name: String,
    pub dir: PathBuf,
}

impl Lane {
    pub fn new(name: &str) -> Lane {
        let dir = lanes_dir().join(name);
        std::fs::create_dir_all(dir.join("ws")).expect("lane dir");
        std::fs::create_dir_all(dir.join("home")).expect("lane home");
        let lane = Lane { name: name.to_string(), dir };
        lane.seed_home();
        lane
    }

    pub fn ws(&self) -> PathBuf {
        self.dir.join("ws")
    }
    pub fn home(&self) -> PathBuf {
        self.dir.join("home")
    }
    pub fn target(&self) -> PathBuf {
        self.dir.join("target")
    }

    /// Copy the warmed documentation cache (built once by setup) into this lane's private HOME.
    fn seed_home(&self) {
        let master = Path::new(WORK).join("home-master").join(".pavex");
        let mine = self.home().join(".pavex");
        if master.exists() && !mine.exists() {
            let _ = Command::new("cp").arg("-a").arg(&master).arg(&mine).status();
        }
    }

    fn base_env(&self, cmd: &mut Command) {
        let path = std::env::var("PATH").unwrap_or_default();
        cmd.env("PATH", format!("{SHIM_DIR}:{path}"))
            .env("HOME", self.home())
            .env("RUSTUP_HOME", "/root/.rustup")
            .env("CARGO_HOME", "/root/.cargo")
            .env("CARGO_NET_OFFLINE", "true")
            .env("PAVEXC_DOCS_TOOLCHAIN", "nightly")
            .env("CARGO_TERM_COLOR", "never")
            .env_remove("RUSTFLAGS")
            .env_remove("CARGO_TARGET_DIR");
    }

    /// (Re)write the whole workspace for the given sub-applications.
    pub fn write_workspace(&self, specs: &[AppSpec]) {
        let ws = self.ws();
        let w = |p: PathBuf, c: &str| {
            if let Some(d) = p.parent() {
                let _ = std::fs::create_dir_all(d);
            }
            // keep mtimes stable when nothing changed (cargo fingerprints)
            if std::fs::read_to_string(&p).ok().as_deref() != Some(c) {
                std::fs::write(&p, c).expect("write");
            }
        };
        // every output crate is a workspace member up front, so that pavexc never has to touch
        // the workspace manifest (individual verdict runs execute in parallel)
        let members: String = (0..specs.len()).map(|k| format!(", \"ind/sdk_{k}\"")).collect();
        w(
            ws.join("Cargo.toml"),
            &format!("[workspace]\nmembers = [\"app\", \"sdk\", \"driver\"{members}]\nresolver = \"3\"\n\n[workspace.package]\nedition = \"2024\"\n\n[profile.dev]\ndebug = \"none\"\nopt-level = 0\nincremental = true\n"),
        );
        let _ = std::fs::remove_dir_all(ws.join("out"));
        let _ = std::fs::remove_dir_all(ws.join("ind"));
        for k in 0..specs.len() {
            self.reset_crate(&format!("ind/sdk_{k}"), &format!("sdk_{k}"));
        }
        if !ws.join("Cargo.lock").exists() {
            let _ = std::fs::copy("/repo/compiler/ui_tests/Cargo.lock", ws.join("Cargo.lock"));
        }
        w(
            ws.join("app/Cargo.toml"),
            &"[package]\nname = \"app\"\nversion = \"0.1.0\"\nedition = \"2024\"\n\n[lints.rust.unexpected_cfgs]\nlevel = \"allow\"\ncheck-cfg = [\"cfg(pavex_ide_hint)\"]\n\n[dependencies]\npavex = { path = \"/repo/runtime/pavex\" }\nserde = { version = \"1\", features = [\"derive\"] }\n".replace("/repo", &repo_root()),
        );
        w(ws.join("app/src/rt.rs"), emit::RT_RS);
        w(ws.join("app/src/main.rs"), emit::MAIN_RS);
        w(ws.join("app/src/lib.rs"), &emit::emit_lib(specs.len()));
        for (k, s) in specs.iter().enumerate() {
            w(ws.join(format!("app/src/m{k}.rs")), &emit::emit_module(k, s));
        }
        // stale modules from an earlier, larger round
        for k in specs.len()..64 {
            let p = ws.join(format!("app/src/m{k}.rs"));
            if p.exists() {
                let _ = std::fs::remove_file(p);
            } else {
                break;
            }
        }
        if !ws.join("sdk/Cargo.toml").exists() {
            self.reset_sdk();
        }
        w(
            ws.join("driver/Cargo.toml"),
            &"[package]\nname = \"driver\"\nversion = \"0.1.0\"\nedition = \"2024\"\n\n[dependencies]\napp = { path = \"../app\" }\nsdk = { path = \"../sdk\" }\npavex = { path = \"/repo/runtime/pavex\" }\ntokio = { version = \"1\", features = [\"rt-multi-thread\", \"net\"] }\nserde_json = \"1\"\n".replace("/repo", &repo_root()),
        );
        w(ws.join("driver/src/main.rs"), &emit::DRIVER_MAIN_RS.replace("SDK_PREBUILT_ARGS", ""));
    }

    /// An empty placeholder SDK crate (the compiler overwrites it).
    pub fn reset_sdk(&self) {
        self.reset_crate("sdk", "sdk");
    }

    pub fn reset_crate(&self, rel: &str, name: &str) {
        // The crate is a workspace member: other compiler processes of this lane may be reading
        // the workspace right now (`cargo metadata`), so the manifest must never be missing or
        // half-written. Files are replaced atomically (write to a temporary name, then rename).
        let d = self.ws().join(rel);
        let _ = std::fs::create_dir_all(d.join("src"));
        let atomic = |p: PathBuf, content: &str| {
            let tmp = p.with_extension("tmp-reset");
            std::fs::write(&tmp, content).unwrap();
            std::fs::rename(&tmp, &p).unwrap();
        };
        atomic(d.join("Cargo.toml"), &format!("[package]\nname = \"{name}\"\nversion = \"0.1.0\"\nedition = \"2024\"\n\n[dependencies]\n"));
        atomic(d.join("src/lib.rs"), "");
        // anything else the generator may have left behind
        if let Ok(rd) = std::fs::read_dir(&d) {
            for e in rd.flatten() {
                let n = e.file_name().to_string_lossy().to_string();
                if n != "Cargo.toml" && n != "src" {
                    let _ = if e.path().is_dir() { std::fs::remove_dir_all(e.path()) } else { std::fs::remove_file(e.path()) };
                }
            }
        }
        if let Ok(rd) = std::fs::read_dir(d.join("src")) {
            for e in rd.flatten() {
                if e.file_name() != "lib.rs" {
                    let _ = if e.path().is_dir() { std::fs::remove_dir_all(e.path()) } else { std::fs::remove_file(e.path()) };
                }
            }
        }
    }

    pub fn cargo(&self, args: &[&str], timeout: Duration) -> RunResult {
        let mut cmd = Command::new("cargo");
        cmd.args(args).arg("--offline").current_dir(self.ws());
        self.base_env(&mut cmd);
        cmd.env("CARGO_TARGET_DIR", self.target());
        run_cmd(cmd, timeout)
    }

    pub fn build_app(&self) -> RunResult {
        self.cargo(&["build", "-q", "-p", "app"], Duration::from_secs(600))
    }

    pub fn persist(&self, kind: &str, arg: u64, out: &Path) -> RunResult {
        let mut cmd = Command::new(self.target().join("debug/app"));
        cmd.arg(kind).arg(arg.to_string()).arg(out).current_dir(self.ws());
        self.base_env(&mut cmd);
        run_cmd(cmd, Duration::from_secs(60))
    }

    /// Run `pavexc generate`. `out` is relative to the workspace root.
    pub fn pavexc(&self, bp: &Path, out: &str, diagnostics: Option<&Path>, check: bool, env: &[(&str, &str)]) -> RunResult {
        let mut cmd = Command::new(pavexc_bin());
        cmd.arg("--color").arg("never").arg("generate").arg("-b").arg(bp).arg("-o").arg(out);
        if let Some(d) = diagnostics {
            cmd.arg("--diagnostics").arg(d);
        }
        if check {
            cmd.arg("--check");
        }
        cmd.current_dir(self.ws());
        self.base_env(&mut cmd);
        // the docs for the workspace crate are produced with `cargo rustdoc`; give it its own target dir
        cmd.env("CARGO_TARGET_DIR", self.dir.join("target-doc"));
        for (k, v) in env {
            cmd.env(k, v);
        }
        run_cmd(cmd, Duration::from_secs(watchdog_secs()))
    }

    pub fn build_driver(&self) -> RunResult {
        self.cargo(&["build", "-q", "-p", "driver"], Duration::from_secs(900))
    }

    /// Start the driver and run a script (one JSON request per line). Returns the banner line and
    /// one JSON value per request.
    pub fn run_driver(&self, script: &[Value], timeout: Duration) -> Result<(Value, Vec<Value>), String> {
        let mut cmd = Command::new(self.target().join("debug/driver"));
        cmd.current_dir(self.ws()).stdin(Stdio::piped()).stdout(Stdio::piped()).stderr(Stdio::piped());
        self.base_env(&mut cmd);
        let start = Instant::now();
        let mut child = cmd.spawn().map_err(|e| format!("cannot start driver: {e}"))?;
        let mut stdin = child.stdin.take().unwrap();
        let stdout = child.stdout.take().unwrap();
        let mut stderr = child.stderr.take().unwrap();
        let errt = std::thread::spawn(move || {
            let mut s = String::new();
            let _ = std::io::Read::read_to_string(&mut stderr, &mut s);
            s
        });
        let mut reader = BufReader::new(stdout);
        let mut banner = String::new();
        reader.read_line(&mut banner).map_err(|e| e.to_string())?;
        let banner: Value = match serde_json::from_str(banner.trim()) {
            Ok(b) => b,
            Err(_) => {
                // the server did not come up: report what it printed
                let _ = child.kill();
                let _ = child.wait();
                let err = errt.join().unwrap_or_default();
                return Ok((serde_json::json!({"fatal": format!("the driver exited before listening: {}", strip_ansi(&err).chars().take(3000).collect::<String>())}), vec![]));
            }
        };
        if banner.get("fatal").is_some() {
            let _ = child.wait();
            return Ok((banner, vec![]));
        }
        let mut out = vec![];
        for req in script {
            if start.elapsed() > timeout {
                let _ = child.kill();
                return Err("driver script timed out".into());
            }
            writeln!(stdin, "{req}").map_err(|e| e.to_string())?;
            stdin.flush().map_err(|e| e.to_string())?;
            let mut line = String::new();
            let n = reader.read_line(&mut line).map_err(|e| e.to_string())?;
            if n == 0 {
                let _ = child.kill();
                let err = errt.join().unwrap_or_default();
                return Err(format!("driver died while serving request {req}: {}", strip_ansi(&err).chars().take(2000).collect::<String>()));
            }
            out.push(serde_json::from_str(line.trim()).unwrap_or(Value::Null));
        }
        drop(stdin);
        let _ = child.wait();
        Ok((banner, out))
    }
}

/// Wall-clock limit for one compiler run (seconds): 400 by default, `PX_WATCHDOG` overrides it.
pub fn watchdog_secs() -> u64 {
    std::env::var("PX_WATCHDOG").ok().and_then(|v| v.parse().ok()).unwrap_or(400)
}

/// CPU-time budget of one process (its own user+system time, children excluded), seconds: 90 by
/// default (`PX_CPU_LIMIT` overrides). A warm compiler run burns 1-5 s itself; this limit does not
/// depend on how loaded the machine is.
pub fn cpu_limit_secs() -> u64 {
    std::env::var("PX_CPU_LIMIT").ok().and_then(|v| v.parse().ok()).unwrap_or(90)
}
