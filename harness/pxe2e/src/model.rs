//! Reference models written from the documentation (never by calling compiler code).
use crate::emit::{comp_name, ctor_name};
use crate::spec::*;

#[derive(Clone, Debug)]
pub struct RouteInfo {
    pub handler: usize,
    /// indices (positions in the parent's registration list) of the Nest registrations leading to
    /// the blueprint that registers the route; empty = root blueprint
    pub scope: Vec<usize>,
    pub full_path: String,
    pub methods: Vec<String>,
    pub domain: Option<String>,
    /// middlewares (component indices) that apply, in registration order
    pub chain: Vec<usize>,
    /// error observers that apply, in registration order
    pub observers: Vec<usize>,
    pub nest_depth: usize,
}

pub fn routes(spec: &AppSpec) -> Vec<RouteInfo> {
    fn rec(
        spec: &AppSpec,
        regs: &[Reg],
        scope: &mut Vec<usize>,
        prefix: &str,
        domain: &Option<String>,
        chain: &[usize],
        observers: &[usize],
        out: &mut Vec<RouteInfo>,
    ) {
        let mut chain = chain.to_vec();
        let mut observers = observers.to_vec();
        for (pos, r) in regs.iter().enumerate() {
            match r {
                Reg::Comp { idx } => match &spec.comps[*idx].kind {
                    CompKind::Pre | CompKind::Post | CompKind::Wrap => chain.push(*idx),
                    CompKind::Observer => observers.push(*idx),
                    CompKind::Handler => {
                        let route = spec.comps[*idx].route.clone().unwrap();
                        out.push(RouteInfo {
                            handler: *idx,
                            scope: scope.clone(),
                            full_path: format!("{prefix}{}", route.path),
                            methods: route.methods.clone(),
                            domain: domain.clone(),
                            chain: chain.clone(),
                            observers: observers.clone(),
                            nest_depth: scope.len(),
                        });
                    }
                    _ => {}
                },
                Reg::Nest { prefix: p, domain: d, bp } => {
                    scope.push(pos);
                    let np = format!("{prefix}{}", p.clone().unwrap_or_default());
                    let nd = d.clone().or_else(|| domain.clone());
                    rec(spec, bp, scope, &np, &nd, &chain, &observers, out);
                    scope.pop();
                }
                Reg::Ctor { .. } | Reg::Gen { .. } => {}
            }
        }
    }
    let mut out = vec![];
    rec(spec, &spec.bp, &mut vec![], "", &None, &[], &[], &mut out);
    out
}

/// The registration lists of the blueprints on the way to `scope`, innermost last.
fn scopes<'a>(spec: &'a AppSpec, scope: &[usize]) -> Vec<&'a [Reg]> {
    let mut v: Vec<&[Reg]> = vec![&spec.bp];
    let mut cur: &[Reg] = &spec.bp;
    for pos in scope {
        if let Reg::Nest { bp, .. } = &cur[*pos] {
            cur = bp;
            v.push(cur);
        }
    }
    v
}

/// Which constructor variant of `ty` is visible from `scope`: nearest enclosing blueprint wins,
/// within one blueprint the latest registration.
pub fn resolve_ctor(spec: &AppSpec, scope: &[usize], ty: usize) -> Option<u8> {
    for regs in scopes(spec, scope).iter().rev() {
        let last = regs.iter().rev().find_map(|r| match r {
            Reg::Ctor { ty: t, variant } if *t == ty => Some(*variant),
            _ => None,
        });
        if last.is_some() {
            return last;
        }
    }
    None
}

/// Which error handler handles error type `err` raised in `scope`: the handler registered for that type (nearest
/// enclosing blueprint, latest registration), else the user's fallback handler for `pavex::Error` (same lookup).
pub fn resolve_err_handler(spec: &AppSpec, scope: &[usize], err: usize) -> Option<usize> {
    for wanted in [err, crate::spec::FALLBACK_ERR] {
        for regs in scopes(spec, scope).iter().rev() {
            let last = regs.iter().rev().find_map(|r| match r {
                Reg::Comp { idx } => match &spec.comps[*idx].kind {
                    CompKind::ErrHandler { err: e, .. } if *e == wanted => Some(*idx),
                    _ => None,
                },
                _ => None,
            });
            if last.is_some() {
                return last;
            }
        }
    }
    None
}

/// Stage structure of a middleware chain: (pres, posts, wrap that opens the next stage).
pub struct Stage {
    pub pres: Vec<usize>,
    pub posts: Vec<usize>,
    pub wrap: Option<usize>,
}

pub fn stages(spec: &AppSpec, chain: &[usize]) -> Vec<Stage> {
    let mut out = vec![Stage { pres: vec![], posts: vec![], wrap: None }];
    for idx in chain {
        match spec.comps[*idx].kind {
            CompKind::Pre => out.last_mut().unwrap().pres.push(*idx),
            CompKind::Post => out.last_mut().unwrap().posts.push(*idx),
            CompKind::Wrap => {
                out.last_mut().unwrap().wrap = Some(*idx);
                out.push(Stage { pres: vec![], posts: vec![], wrap: None });
            }
            _ => {}
        }
    }
    out
}

/// Expected enter/exit sequence of middlewares and handler for an infallible run.
/// `plan`: (component name, action) with action 2 = early return (pre) / do not call next (wrap).
pub fn expected_trace(spec: &AppSpec, k: usize, route: &RouteInfo, plan: &[(String, u8)]) -> Vec<(String, &'static str)> {
    let st = stages(spec, &route.chain);
    let act = |idx: usize| plan.iter().find(|(c, _)| *c == comp_name(k, idx)).map(|(_, a)| *a).unwrap_or(0);
    fn exec(
        i: usize,
        st: &[Stage],
        handler: usize,
        k: usize,
        act: &dyn Fn(usize) -> u8,
        out: &mut Vec<(String, &'static str)>,
    ) {
        let s = &st[i];
        let mut interrupted = false;
        for p in &s.pres {
            out.push((comp_name(k, *p), "enter"));
            out.push((comp_name(k, *p), "exit"));
            if act(*p) == 2 {
                interrupted = true;
                break;
            }
        }
        if !interrupted {
            match s.wrap {
                Some(w) => {
                    out.push((comp_name(k, w), "enter"));
                    if act(w) != 2 {
                        exec(i + 1, st, handler, k, act, out);
                    }
                    out.push((comp_name(k, w), "exit"));
                }
                None => {
                    out.push((comp_name(k, handler), "enter"));
                    out.push((comp_name(k, handler), "exit"));
                }
            }
        }
        for p in &s.posts {
            out.push((comp_name(k, *p), "enter"));
            out.push((comp_name(k, *p), "exit"));
        }
    }
    let mut out = vec![];
    exec(0, &st, route.handler, k, &act, &mut out);
    out
}

/// Expected response status/body marker for an infallible run.
pub fn expected_response(spec: &AppSpec, k: usize, route: &RouteInfo, plan: &[(String, u8)]) -> (u16, String) {
    let st = stages(spec, &route.chain);
    let act = |idx: usize| plan.iter().find(|(c, _)| *c == comp_name(k, idx)).map(|(_, a)| *a).unwrap_or(0);
    for s in &st {
        for p in &s.pres {
            if act(*p) == 2 {
                return (418, format!("early:{}", comp_name(k, *p)));
            }
        }
        if let Some(w) = s.wrap {
            if act(w) == 2 {
                return (202, format!("skipped:{}", comp_name(k, w)));
            }
        }
    }
    (200, format!("h:{}", comp_name(k, route.handler)))
}

/// Transitive closure of the types a component needs (through constructor inputs).
pub fn closure(spec: &AppSpec, inputs: &[(usize, Mode)]) -> Vec<usize> {
    let mut seen = vec![];
    let mut stack: Vec<usize> = inputs.iter().map(|(t, _)| *t).collect();
    while let Some(t) = stack.pop() {
        if seen.contains(&t) {
            continue;
        }
        seen.push(t);
        for (j, _) in &spec.types[t].inputs {
            stack.push(*j);
        }
    }
    seen.sort();
    seen
}

/// Upper bound on how many times the constructor of transient `t` may run while one request to
/// `route` is served: the number of its injection sites in everything that can run for that route
/// (middleware chain, handler, observers, any error handler, and the constructors those need; a site
/// inside the constructor of another transient counts once per site of that transient). The compiler
/// builds the inputs of error handlers / observers that do not depend on the error *before* the
/// fallible call, so a site need not be reached for its value to be built; but a value is never
/// built more often than there are sites.
pub fn transient_site_bound(spec: &AppSpec, route: &RouteInfo, t: usize) -> usize {
    // components that run on the happy path, with multiplicity (a middleware may be registered twice)
    let mut happy: Vec<usize> = route.chain.clone();
    happy.push(route.handler);
    // every fallible call site gets its own copy of the error branch (error handler + observers)
    let mut fallible_sites = happy.iter().filter(|c| spec.comps[**c].fallible.is_some()).count();
    let mut all_inputs: Vec<(usize, Mode)> = happy.iter().flat_map(|c| spec.comps[*c].inputs.clone()).collect();
    for (i, c) in spec.comps.iter().enumerate() {
        if matches!(c.kind, CompKind::ErrHandler { .. }) || route.observers.contains(&i) {
            all_inputs.extend(c.inputs.clone());
        }
    }
    for u in closure(spec, &all_inputs) {
        if spec.types[u].any_variant_fallible() && spec.types[u].life != Life::Singleton {
            // (a fallible transient may be built at several sites; 4 is a generous cap per type)
            fallible_sites += if spec.types[u].life == Life::Transient { 4 } else { 1 };
        }
    }
    let branches = fallible_sites.max(1);
    let mut error_path: Vec<usize> = route.observers.clone();
    for (i, c) in spec.comps.iter().enumerate() {
        if matches!(c.kind, CompKind::ErrHandler { .. }) {
            error_path.push(i);
        }
    }
    // (component, how many times it may run / have its inputs prepared)
    let mut runs: Vec<(usize, usize)> = happy.iter().map(|c| (*c, 1)).collect();
    runs.extend(error_path.iter().map(|c| (*c, branches)));
    fn sites(spec: &AppSpec, runs: &[(usize, usize)], t: usize, depth: usize) -> usize {
        if depth > 8 {
            return 1 << 12;
        }
        let mut n: usize = runs.iter().filter(|(c, _)| spec.comps[*c].inputs.iter().any(|(x, _)| *x == t)).map(|(_, m)| *m).sum();
        // generic wrappers instantiated with `t` take `&t`
        n += runs.iter().map(|(c, m)| spec.comps[*c].gens.iter().filter(|(_, inner)| *inner == t).count() * m).sum::<usize>();
        for (u, us) in spec.types.iter().enumerate() {
            if u == t || !us.inputs.iter().any(|(x, _)| *x == t) {
                continue;
            }
            let needed = runs.iter().any(|(c, _)| closure(spec, &spec.comps[*c].inputs).contains(&u) || spec.comps[*c].gens.iter().any(|(_, inner)| *inner == u));
            if !needed {
                continue;
            }
            let per_variant = us.variants.max(1) as usize;
            n += per_variant * if us.life == Life::Transient { sites(spec, runs, u, depth + 1).max(1) } else { 1 };
        }
        n
    }
    sites(spec, &runs, t, 0)
}

/// Known-finding shape (C04): in the blueprint that designates the constructor of `ty`, the
/// designated *fallible* variant is registered, then another *infallible* variant, then the fallible
/// one again ("A, B, A"): the latest registration is A, but the compiler keeps B (the `Ok`-matcher of
/// A is interned once, at A's first registration, i.e. before B).
pub fn fallible_reregistered_after_infallible(spec: &AppSpec, scope: &[usize], ty: usize) -> bool {
    for regs in scopes(spec, scope).iter().rev() {
        let seq: Vec<u8> = regs.iter().filter_map(|r| match r { Reg::Ctor { ty: t, variant } if *t == ty => Some(*variant), _ => None }).collect();
        if seq.is_empty() {
            continue;
        }
        let last = *seq.last().unwrap();
        let t = &spec.types[ty];
        if t.fallible_of(last).is_none() {
            return false;
        }
        // an earlier registration of `last`, followed by an infallible other variant
        if let Some(first) = seq.iter().position(|v| *v == last) {
            return seq[first + 1..seq.len() - 1].iter().any(|v| *v != last && t.fallible_of(*v).is_none());
        }
        return false;
    }
    false
}

/// Which constructor builds the generic wrapper `kind` instantiated with `inner` for a route in
/// `scope`: the nearest enclosing blueprint that registers an applicable constructor wins (the generic
/// one applies to every instantiation, a concrete one to its own). `None`: not decidable from the
/// documentation (a blueprint registers both an applicable concrete and the generic constructor).
pub fn expected_gen_by(spec: &AppSpec, k: usize, scope: &[usize], kind: u8, inner: usize) -> Option<String> {
    let letter = crate::emit::GEN_KINDS[kind as usize % 4].0.to_lowercase();
    let mut any = false;
    spec.walk_regs(&mut |r, _| {
        if matches!(r, Reg::Gen { kind: kk, .. } if *kk % 4 == kind % 4) {
            any = true;
        }
    });
    if !any {
        return Some(format!("m{k}::g_{letter}"));
    }
    for regs in scopes(spec, scope).iter().rev() {
        let generic = regs.iter().any(|r| matches!(r, Reg::Gen { kind: kk, concrete_for: None } if *kk % 4 == kind % 4));
        let concrete = regs.iter().any(|r| matches!(r, Reg::Gen { kind: kk, concrete_for: Some(t) } if *kk % 4 == kind % 4 && *t == inner));
        match (generic, concrete) {
            (true, true) => return None,
            (true, false) => return Some(format!("m{k}::g_{letter}")),
            (false, true) => return Some(format!("m{k}::gc_{letter}_{inner}")),
            (false, false) => {}
        }
    }
    None
}

/// The blueprints (as scope paths) in which component `idx` is registered and that are proper
/// ancestors of `scope`.
pub fn ancestor_registration_scopes(spec: &AppSpec, idx: usize, scope: &[usize]) -> Vec<Vec<usize>> {
    let mut out = vec![];
    for n in 0..scope.len() {
        let anc = &scope[..n];
        let regs = scopes(spec, anc);
        if regs.last().is_some_and(|r| r.iter().any(|x| matches!(x, Reg::Comp { idx: c } if *c == idx))) {
            out.push(anc.to_vec());
        }
    }
    out
}

pub fn expected_by(spec: &AppSpec, k: usize, scope: &[usize], ty: usize) -> Option<String> {
    resolve_ctor(spec, scope, ty).map(|v| ctor_name(k, ty, v))
}

// ------------------------------------------------------------------------------------------
// Reference router (C07) and domain matcher (C20 b), written from docs/guide/routing
// ------------------------------------------------------------------------------------------

#[derive(Clone, Debug)]
pub struct ScopeInfo {
    pub scope: Vec<usize>,
    pub full_prefix: String,
    pub own_prefix: bool,
    /// nested with a domain guard of its own
    pub own_domain: bool,
    pub fallback: Option<usize>,
    pub domain: Option<String>,
}

pub fn scope_infos(spec: &AppSpec) -> Vec<ScopeInfo> {
    fn rec(spec: &AppSpec, regs: &[Reg], scope: &mut Vec<usize>, prefix: &str, own_prefix: bool, own_domain: bool, domain: &Option<String>, out: &mut Vec<ScopeInfo>) {
        let fallback = regs.iter().rev().find_map(|r| match r {
            Reg::Comp { idx } if spec.comps[*idx].kind == CompKind::Fallback => Some(*idx),
            _ => None,
        });
        out.push(ScopeInfo { scope: scope.clone(), full_prefix: prefix.to_string(), own_prefix, own_domain, fallback, domain: domain.clone() });
        for (pos, r) in regs.iter().enumerate() {
            if let Reg::Nest { prefix: p, domain: d, bp } = r {
                scope.push(pos);
                rec(spec, bp, scope, &format!("{prefix}{}", p.clone().unwrap_or_default()), p.is_some(), d.is_some(), &d.clone().or_else(|| domain.clone()), out);
                scope.pop();
            }
        }
    }
    let mut out = vec![];
    rec(spec, &spec.bp, &mut vec![], "", false, false, &None, &mut out);
    out
}

#[derive(Clone, Debug, PartialEq)]
pub enum Routed {
    Handler(usize),
    /// `comp` = None: the framework's default fallback (404 / 405 + Allow)
    Fallback { comp: Option<usize>, allowed: Option<Vec<String>> },
}

#[derive(Clone, Debug, Default)]
pub struct RouteNotes {
    /// several patterns matched and static-over-parameter priority decided
    pub priority_used: bool,
    /// the path is exactly a nesting prefix (the documentation's `POST /room` example)
    pub exact_prefix: bool,
    pub method_miss: bool,
    pub nested_fallback: bool,
    pub used_param: bool,
    pub custom_method: bool,
    pub host_case_differs: bool,
    pub domain_matched: Option<String>,
    /// no route matched and the fallback was chosen through a nesting prefix that contains a parameter
    pub via_parametric_prefix: bool,
    /// method miss on a route of a blueprint nested *without* a prefix that has its own fallback
    pub unprefixed_nested_fallback: bool,
}

/// 0 = static, 1 = parameter (possibly with literal prefix), 2 = catch-all
fn seg_kind(s: &str) -> u8 {
    if s.contains("{*") {
        2
    } else if s.contains('{') {
        1
    } else {
        0
    }
}

/// Does `pattern` match `path`? `prefix_only`: the pattern only has to match a leading part.
pub fn path_matches(pattern: &str, path: &str, prefix_only: bool) -> bool {
    let ps: Vec<&str> = pattern.split('/').collect();
    let rs: Vec<&str> = path.split('/').collect();
    for (i, p) in ps.iter().enumerate() {
        match seg_kind(p) {
            2 => {
                let lit = &p[..p.find('{').unwrap()];
                let rest = rs.get(i..).map(|r| r.join("/")).unwrap_or_default();
                return rest.len() > lit.len() && rest.starts_with(lit);
            }
            1 => {
                let lit = &p[..p.find('{').unwrap()];
                let Some(r) = rs.get(i) else { return false };
                if !(r.len() > lit.len() && r.starts_with(lit)) {
                    return false;
                }
            }
            _ => {
                if prefix_only && i == ps.len() - 1 {
                    // string-prefix semantics on the last segment of a nesting prefix
                    let Some(r) = rs.get(i) else { return false };
                    if !r.starts_with(p) {
                        return false;
                    }
                    continue;
                }
                if rs.get(i) != Some(p) {
                    return false;
                }
            }
        }
    }
    prefix_only || ps.len() == rs.len()
}

fn more_specific(a: &str, b: &str) -> bool {
    // static beats parameter beats catch-all at the first position where they differ
    for (x, y) in a.split('/').zip(b.split('/')) {
        let (kx, ky) = (seg_kind(x), seg_kind(y));
        if kx != ky {
            return kx < ky;
        }
        if kx == 1 {
            // a parameter with a literal prefix is more specific than a bare one
            let (lx, ly) = (x.find('{').unwrap_or(0), y.find('{').unwrap_or(0));
            if lx != ly {
                return lx > ly;
            }
        }
    }
    false
}

pub fn domain_labels(guard: &str) -> Vec<(Option<bool>, String)> {
    // (None = static | Some(catch_all), literal part)
    guard
        .strip_suffix('.')
        .unwrap_or(guard)
        .split('.')
        .map(|l| {
            if let Some(rest) = l.strip_prefix("{*") {
                (Some(true), rest.split_once('}').map(|x| x.1).unwrap_or("").to_string())
            } else if let Some(rest) = l.strip_prefix('{') {
                (Some(false), rest.split_once('}').map(|x| x.1).unwrap_or("").to_string())
            } else {
                (None, l.to_string())
            }
        })
        .collect()
}

/// Documented semantics: literal labels compare equal, `{p}` is (the leading part of) one
/// label, a leading `{*p}` is one or more labels, one trailing dot is ignored on either side.
pub fn domain_matches(guard: &str, host: &str) -> bool {
    let host = host.strip_suffix('.').unwrap_or(host);
    if host.is_empty() {
        return false;
    }
    let g = domain_labels(guard);
    let hl: Vec<&str> = host.split('.').collect();
    let fits = |l: &(Option<bool>, String), text: &str| match l.0 {
        None => text == l.1,
        Some(_) => text.len() > l.1.len() && text.ends_with(l.1.as_str()),
    };
    if g[0].0 == Some(true) {
        if hl.len() < g.len() {
            return false;
        }
        let k = hl.len() - g.len() + 1;
        fits(&g[0], &hl[..k].join(".")) && g[1..].iter().zip(&hl[k..]).all(|(a, b)| fits(a, b))
    } else {
        hl.len() == g.len() && g.iter().zip(&hl).all(|(a, b)| fits(a, b))
    }
}

/// Strip an optional port from a Host header value.
pub fn host_without_port(h: &str) -> &str {
    match h.rsplit_once(':') {
        Some((host, port)) if !port.is_empty() && port.chars().all(|c| c.is_ascii_digit()) => host,
        _ => h,
    }
}

pub fn route_request(spec: &AppSpec, method: &str, path: &str, host: Option<&str>) -> (Routed, RouteNotes) {
    let mut notes = RouteNotes::default();
    let routes = routes(spec);
    let scopes = scope_infos(spec);
    let std = ["GET", "POST", "PUT", "DELETE", "PATCH", "HEAD", "OPTIONS", "CONNECT", "TRACE"];
    notes.custom_method = !std.contains(&method);
    let find_scope = |sc: &[usize]| scopes.iter().find(|s| s.scope == sc).unwrap();
    let fallback_from = |sc: &[usize]| -> Option<usize> {
        let mut cur = sc.to_vec();
        loop {
            if let Some(f) = find_scope(&cur).fallback {
                return Some(f);
            }
            if cur.is_empty() {
                return None;
            }
            cur.pop();
        }
    };
    // ---- domain
    let guarded = routes.iter().any(|r| r.domain.is_some());
    let mut domain: Option<String> = None;
    if guarded {
        let guards: std::collections::BTreeSet<String> = routes.iter().filter_map(|r| r.domain.clone()).collect();
        if let Some(h) = host {
            let h = host_without_port(h);
            domain = guards.iter().find(|g| domain_matches(g, h)).cloned();
            if domain.is_none() && guards.iter().any(|g| domain_matches(&g.to_ascii_lowercase(), &h.to_ascii_lowercase())) {
                notes.host_case_differs = true;
            }
        }
        notes.domain_matched = domain.clone();
        if domain.is_none() {
            return (Routed::Fallback { comp: fallback_from(&[]), allowed: Some(vec![]) }, notes);
        }
    }
    let in_domain = |d: &Option<String>| !guarded || *d == domain;
    // ---- path
    let mut matching: Vec<&RouteInfo> = routes.iter().filter(|r| in_domain(&r.domain) && path_matches(&r.full_path, path, false)).collect();
    if matching.is_empty() {
        // nearest prefixed scope covering the path
        let mut best: Option<&ScopeInfo> = None;
        for s in scopes.iter().filter(|s| s.own_prefix && in_domain(&s.domain)) {
            if path_matches(&s.full_prefix, path, true) && best.is_none_or(|b| s.full_prefix.len() > b.full_prefix.len()) {
                best = Some(s);
            }
        }
        if let Some(b) = best {
            if path_matches(&b.full_prefix, path, false) {
                notes.exact_prefix = true;
            }
            notes.via_parametric_prefix = b.full_prefix.contains('{');
        }
        let start: Vec<usize> = match best {
            Some(b) => b.scope.clone(),
            None => {
                // inside a domain the search starts at the domain's own blueprint
                scopes.iter().find(|s| guarded && s.domain == domain && s.scope.len() == 1).map(|s| s.scope.clone()).unwrap_or_default()
            }
        };
        // A fallback registered in a blueprint nested *without* a prefix only serves the method
        // misses of that blueprint's routes ("Nesting without prefix" in Blueprint::fallback):
        // for an unmatched path only the root and the blueprints nested with a prefix count.
        let comp = {
            let mut cur = start.clone();
            loop {
                let s = find_scope(&cur);
                if (s.own_prefix || s.own_domain || cur.is_empty()) && s.fallback.is_some() {
                    break s.fallback;
                }
                if cur.is_empty() {
                    break None;
                }
                cur.pop();
            }
        };
        notes.nested_fallback = comp.is_some() && !start.is_empty() && find_scope(&start).fallback.is_some();
        return (Routed::Fallback { comp, allowed: Some(vec![]) }, notes);
    }
    // most specific pattern wins
    let mut best_pattern = matching[0].full_path.clone();
    for r in &matching {
        if r.full_path != best_pattern {
            notes.priority_used = true;
            if more_specific(&r.full_path, &best_pattern) {
                best_pattern = r.full_path.clone();
            }
        }
    }
    matching.retain(|r| r.full_path == best_pattern);
    notes.used_param = best_pattern.contains('{');
    let accepts = |r: &RouteInfo| {
        if r.methods.is_empty() {
            std.contains(&method) // `allow(any_method)`: every standard method
        } else if r.methods.len() == 1 && r.methods[0] == "*" {
            true
        } else {
            r.methods.iter().any(|m| m == method)
        }
    };
    if let Some(r) = matching.iter().find(|r| accepts(r)) {
        return (Routed::Handler(r.handler), notes);
    }
    notes.method_miss = true;
    let mut allowed: Vec<String> = matching
        .iter()
        .flat_map(|r| if r.methods.is_empty() { std.iter().map(|m| m.to_string()).collect() } else { r.methods.clone() })
        .collect();
    allowed.sort();
    allowed.dedup();
    let sc = matching[0].scope.clone();
    let comp = fallback_from(&sc);
    notes.nested_fallback = comp.is_some() && !sc.is_empty();
    {
        let s = find_scope(&sc);
        notes.unprefixed_nested_fallback = !sc.is_empty() && !s.own_prefix && s.fallback.is_some();
    }
    (Routed::Fallback { comp, allowed: Some(allowed) }, notes)
}
