//! Rust source emitter: spec -> instrumented application crate.
use std::fmt::Write;

use crate::spec::*;

pub const RT_RS: &str = include_str!("../templates/rt.rs");

pub fn comp_name(k: usize, idx: usize) -> String {
    format!("m{k}::x{idx}")
}

pub fn ctor_name(k: usize, ty: usize, v: u8) -> String {
    format!("m{k}::c{ty}_{v}")
}

pub fn type_name(k: usize, ty: usize) -> String {
    format!("m{k}::T{ty}")
}

/// Fallible singleton constructors are emitted as `cs<i>_<v>::build`.
fn in_own_module(t: &TypeSpec, v: u8) -> bool {
    t.life == Life::Singleton && t.fallible_of(v).is_some() && !t.prebuilt
}

/// Generic wrappers: (letter, lifecycle). `GV<'a, T>` (kind 3) also carries a lifetime.
pub const GEN_KINDS: [(&str, &str); 4] = [("S", "singleton"), ("R", "request_scoped"), ("T", "transient"), ("V", "request_scoped")];

/// How error handler `idx` is written: 0 = free function, 1 = method of the error type (`&self` is the
/// error), 2 = method of another, injected type (`&self` is a singleton, the error is the second input).
pub fn err_handler_style(idx: usize) -> u8 {
    [0, 1, 0, 2, 0, 1][idx % 6]
}

/// Is constructor variant `v` of type `i` written as a static method of the type it builds?
fn ctor_is_method(spec: &AppSpec, i: usize, v: u8) -> bool {
    let t = &spec.types[i];
    (i + t.inputs.len()) % 3 == 1 && !in_own_module(t, v) && t.view_of.is_none() && !t.prebuilt && !(t.imported && v == 0)
}

fn lifecycle_attr(l: Life) -> &'static str {
    match l {
        Life::Singleton => "singleton",
        Life::Request => "request_scoped",
        Life::Transient => "transient",
    }
}

/// How the type is written in a signature (types that hold a reference carry a lifetime).
fn ty_in_sig(spec: &AppSpec, ty: usize) -> String {
    if spec.types[ty].view_of.is_some() { format!("T{ty}<'_>") } else { format!("T{ty}") }
}

/// `src`: the input (type index) that the constructed value keeps a reference to: it is taken as `&'a T`.
fn params(k: usize, spec: &AppSpec, inputs: &[(usize, Mode)], comp: &str, out: &mut String, body: &mut String) {
    params_src(k, spec, inputs, None, comp, out, body)
}

fn params_src(k: usize, spec: &AppSpec, inputs: &[(usize, Mode)], src: Option<usize>, comp: &str, out: &mut String, body: &mut String) {
    for (n, (ty, mode)) in inputs.iter().enumerate() {
        let t = &spec.types[*ty];
        let tn = ty_in_sig(spec, *ty);
        let lt = if src == Some(*ty) { "'a " } else { "" };
        let (sig, m) = match mode {
            // (a reference to a value that is itself holding a reference: both lifetimes are the output's)
            Mode::Ref if src == Some(*ty) && t.view_of.is_some() => (format!("a{n}: &'a T{ty}<'a>"), "ref"),
            Mode::Ref => (format!("a{n}: &{lt}{tn}"), "ref"),
            // (a value that is itself holding a reference, taken by value and kept: its lifetime is the output's)
            Mode::Move if src == Some(*ty) && t.view_of.is_some() => (format!("a{n}: T{ty}<'a>"), "move"),
            Mode::Move => (format!("a{n}: {tn}"), "move"),
            Mode::Mut => (format!("a{n}: &{lt}mut {tn}"), "mut"),
        };
        let _ = write!(out, "{sig}, ");
        let f = if t.is_copy { "recv_c" } else { "recv" };
        let _ = writeln!(body, "    crate::rt::{f}(\"{comp}\", &a{n}.tag, \"{m}\");");
    }
    let _ = k;
}

/// Emit the module for sub-application `k`.
pub fn emit_module(k: usize, spec: &AppSpec) -> String {
    let mut s = String::new();
    let _ = writeln!(s, "//! generated sub-application {k}: {}", spec.note.replace('\n', " "));
    s.push_str("#![allow(unused_variables, unused_mut, dead_code, clippy::all)]\n");
    s.push_str("use pavex::Blueprint;\nuse pavex::Response;\nuse pavex::middleware::{Next, Processing};\nuse std::future::IntoFuture;\n\n");
    // ---- error types
    for j in 0..spec.n_errs {
        let _ = writeln!(
            s,
            "#[derive(Debug)]\npub struct E{j} {{ pub id: u64 }}\nimpl std::fmt::Display for E{j} {{ fn fmt(&self, f: &mut std::fmt::Formatter<'_>) -> std::fmt::Result {{ write!(f, \"m{k}::E{j}#{{}}\", self.id) }} }}\nimpl std::error::Error for E{j} {{}}\n"
        );
    }
    // ---- types and their constructors
    for (i, t) in spec.types.iter().enumerate() {
        let tn = type_name(k, i);
        if t.is_copy {
            let _ = writeln!(s, "#[derive(Debug, Clone, Copy)]\npub struct T{i} {{ pub tag: crate::rt::CTag }}");
        } else {
            let extra = if t.send_sync { "" } else { ", pub _ns: std::marker::PhantomData<std::rc::Rc<()>>" };
            if let Some(j) = t.view_of {
                // holds a reference to the value its constructor borrowed (or the reference-holding value it took)
                let by_value = t.inputs.iter().any(|(x, m)| *x == j && *m == Mode::Move) && spec.types[j].view_of.is_some();
                let field = if by_value { format!("T{j}<'a>") } else if spec.types[j].view_of.is_some() { format!("&'a T{j}<'a>") } else { format!("&'a T{j}") };
                let _ = writeln!(s, "#[derive(Debug)]\npub struct T{i}<'a> {{ pub tag: crate::rt::Tag, pub src: {field}{extra} }}");
                if t.is_clone && !by_value {
                    let init = if t.send_sync { "" } else { ", _ns: std::marker::PhantomData" };
                    let _ = writeln!(s, "impl<'a> Clone for T{i}<'a> {{ fn clone(&self) -> Self {{ T{i} {{ tag: self.tag.cloned(), src: self.src{init} }} }} }}");
                }
            } else {
                let _ = writeln!(s, "#[derive(Debug)]\npub struct T{i} {{ pub tag: crate::rt::Tag{extra} }}");
                if t.is_clone {
                    let init = if t.send_sync { "" } else { ", _ns: std::marker::PhantomData" };
                    let _ = writeln!(s, "impl Clone for T{i} {{ fn clone(&self) -> Self {{ T{i} {{ tag: self.tag.cloned(){init} }} }} }}");
                }
            }
        }
        if t.prebuilt {
            let flag = match t.clone_if_necessary {
                Some(true) => ", clone_if_necessary",
                Some(false) => ", never_clone",
                None => "",
            };
            let _ = writeln!(s, "#[pavex::prebuilt(id = \"M{k}_P{i}\"{flag})]\npub use self::T{i} as PB{i};");
            let _ = tn;
            continue;
        }
        for v in 0..t.variants.max(1) {
            let cn = ctor_name(k, i, v);
            let flag = match (&t.attr_clone, t.clone_if_necessary) {
                (Some(written), _) if written.is_empty() => String::new(),
                (Some(written), _) => format!(", {written}"),
                (None, Some(true)) => ", clone_if_necessary".to_string(),
                (None, Some(false)) => ", never_clone".to_string(),
                (None, None) => String::new(),
            };
            let flag = if t.allow_unused { format!("{flag}, allow(unused)") } else { flag };
            let mut sig = String::new();
            let mut body = String::new();
            params_src(k, spec, &t.inputs, t.view_of, &cn, &mut sig, &mut body);
            let asy = if t.is_async { "async " } else { "" };
            let (lt_decl, lt_use) = if t.view_of.is_some() { ("<'a>", "<'a>") } else { ("", "") };
            let ret = match t.fallible_of(v) {
                Some(e) => format!("Result<T{i}{lt_use}, E{e}>"),
                None => format!("T{i}{lt_use}"),
            };
            let make = if let Some(j) = t.view_of {
                let pos = t.inputs.iter().position(|(x, _)| *x == j).unwrap_or(0);
                let ns = if t.send_sync { "" } else { ", _ns: std::marker::PhantomData" };
                format!("T{i} {{ tag: crate::rt::Tag::fresh(\"{tn}\", \"{cn}\"), src: a{pos}{ns} }}")
            } else if t.is_copy {
                format!("T{i} {{ tag: crate::rt::CTag::fresh(\"{tn}\", \"{cn}\") }}")
            } else if t.send_sync {
                format!("T{i} {{ tag: crate::rt::Tag::fresh(\"{tn}\", \"{cn}\") }}")
            } else {
                format!("T{i} {{ tag: crate::rt::Tag::fresh(\"{tn}\", \"{cn}\"), _ns: std::marker::PhantomData }}")
            };
            // fallible singleton constructors all have the same function name, each in a module of
            // its own (identical callable names across modules: naming of generated items must cope)
            let in_module = in_own_module(t, v);
            if in_module {
                let _ = writeln!(s, "pub mod cs{i}_{v} {{\nuse super::*;");
            }
            let import_module = t.imported && v == 0 && !in_module;
            if import_module {
                let _ = writeln!(s, "pub mod ci{i} {{\nuse super::*;");
            }
            let fn_name = if in_module { "build".to_string() } else { format!("c{i}_{v}") };
            // a third of the plain constructors are static methods of the type they build (`#[pavex::methods]` impl block)
            let as_method = ctor_is_method(spec, i, v);
            if as_method {
                let _ = writeln!(s, "#[pavex::methods]\nimpl T{i} {{");
            }
            let _ = writeln!(s, "#[pavex::{}(id = \"M{k}_C{i}_{v}\"{flag})]", lifecycle_attr(t.attr_life.unwrap_or(t.life)));
            let _ = writeln!(s, "pub {asy}fn {fn_name}{lt_decl}({sig}) -> {ret} {{");
            let _ = writeln!(s, "    crate::rt::enter(\"{cn}\");");
            s.push_str(&body);
            if let Some(e) = t.fallible_of(v) {
                let _ = writeln!(
                    s,
                    "    if crate::rt::plan(\"{cn}\") == 1 {{ crate::rt::exit(\"{cn}\", \"err\"); return Err(E{e} {{ id: crate::rt::fresh_id() }}); }}"
                );
                let _ = writeln!(s, "    let out = {make};\n    crate::rt::exit(\"{cn}\", \"ok\");\n    Ok(out)\n}}\n");
            } else {
                let _ = writeln!(s, "    let out = {make};\n    crate::rt::exit(\"{cn}\", \"ok\");\n    out\n}}\n");
            }
            if in_module || as_method {
                s.push_str("}\n\n");
            }
            if import_module {
                s.push_str("}\n\n");
            }
        }
    }
    // ---- generic wrappers: one generic constructor per lifecycle, instantiated by the consumers' signatures
    let used_kinds: std::collections::BTreeSet<u8> = spec.comps.iter().flat_map(|c| c.gens.iter().map(|(k, _)| *k % 4)).collect();
    let mut concrete: std::collections::BTreeSet<(u8, usize)> = Default::default();
    spec.walk_regs(&mut |r, _| {
        if let Reg::Gen { kind, concrete_for: Some(t) } = r {
            concrete.insert((*kind % 4, *t));
        }
    });
    for kind in &used_kinds {
        let (letter, life) = GEN_KINDS[*kind as usize];
        let l = letter.to_lowercase();
        if *kind == 3 {
            // generic *and* holding on to its input: `GV<'a, T>`
            let _ = writeln!(s, "pub struct GV<'a, T> {{ pub tag: crate::rt::Tag, pub inner: &'a T }}");
            let _ = writeln!(s, "#[pavex::{life}(id = \"M{k}_GV\")]\npub fn g_v<'a, T>(inner: &'a T) -> GV<'a, T> {{\n    GV {{ tag: crate::rt::Tag::fresh(\"m{k}::GV\", \"m{k}::g_v\"), inner }}\n}}\n");
        } else {
            let _ = writeln!(s, "pub struct G{letter}<T> {{ pub tag: crate::rt::Tag, pub _p: std::marker::PhantomData<fn() -> T> }}");
            let _ = writeln!(s, "#[pavex::{life}(id = \"M{k}_G{letter}\")]\npub fn g_{l}<T>(inner: &T) -> G{letter}<T> {{\n    let _ = inner;\n    G{letter} {{ tag: crate::rt::Tag::fresh(\"m{k}::G{letter}\", \"m{k}::g_{l}\"), _p: std::marker::PhantomData }}\n}}\n");
        }
        // concrete constructors for single instantiations
        for (_, t) in concrete.iter().filter(|(kk, _)| kk == kind) {
            let tn = ty_in_sig(spec, *t);
            if *kind == 3 {
                let _ = writeln!(s, "#[pavex::{life}(id = \"M{k}_GCV_{t}\")]\npub fn gc_v_{t}<'a>(inner: &'a {}) -> GV<'a, {}> {{\n    GV {{ tag: crate::rt::Tag::fresh(\"m{k}::GV\", \"m{k}::gc_v_{t}\"), inner }}\n}}\n", tn.replace("'_", "'a"), tn.replace("'_", "'a"));
            } else {
                let _ = writeln!(s, "#[pavex::{life}(id = \"M{k}_GC{letter}_{t}\")]\npub fn gc_{l}_{t}(inner: &{tn}) -> G{letter}<{tn}> {{\n    let _ = inner;\n    G{letter} {{ tag: crate::rt::Tag::fresh(\"m{k}::G{letter}\", \"m{k}::gc_{l}_{t}\"), _p: std::marker::PhantomData }}\n}}\n");
            }
        }
    }
    let peel_handler: Option<usize> = if spec.peel && !spec.types.is_empty() {
        let mut first = None;
        spec.walk_regs(&mut |r, _| {
            if let Reg::Comp { idx } = r {
                if first.is_none() && spec.comps[*idx].kind == CompKind::Handler {
                    first = Some(*idx);
                }
            }
        });
        first
    } else {
        None
    };
    if peel_handler.is_some() {
        let _ = writeln!(s, "pub struct GP<T>(pub std::marker::PhantomData<fn() -> T>);\n#[pavex::request_scoped(id = \"M{k}_GP\")]\npub fn g_peel<T>(inner: &GP<GP<T>>) -> GP<T> {{\n    let _ = inner;\n    GP(std::marker::PhantomData)\n}}\n");
    }
    // ---- components
    let bulk = spec.bulk_groups();
    // typed path parameters: components that ask for the same fields share one struct (declared at the top of the module)
    let mut pp_structs: std::collections::BTreeSet<String> = Default::default();
    for c in &spec.comps {
        if let Some(fields) = c.route.as_ref().map(|r| &r.path_param_fields).filter(|f| !f.is_empty()) {
            let pn = format!("PP_{}", fields.join("_"));
            if pp_structs.insert(pn.clone()) {
                let fields: String = fields.iter().map(|f| format!("    pub {f}: String,\n")).collect();
                let _ = writeln!(s, "#[pavex::request::path::PathParams]\npub struct {pn} {{\n{fields}}}");
            }
        }
    }
    for (idx, c) in spec.comps.iter().enumerate() {
        let name = comp_name(k, idx);
        let mut sig = String::new();
        let mut body = String::new();
        params(k, spec, &c.inputs, &name, &mut sig, &mut body);
        for (n, f) in c.fw.iter().enumerate() {
            let _ = write!(sig, "fw{n}: {}, ", FRAMEWORK_INPUTS[*f as usize % FRAMEWORK_INPUTS.len()]);
        }
        if peel_handler == Some(idx) {
            sig.push_str("gp: &GP<T0>, ");
        }
        for (n, (kind, inner)) in c.gens.iter().enumerate() {
            let lt = if *kind % 4 == 3 { "'_, " } else { "" };
            let _ = write!(sig, "g{n}: &G{}<{lt}{}>, ", GEN_KINDS[*kind as usize % 4].0, ty_in_sig(spec, *inner));
            let _ = writeln!(body, "    crate::rt::recv(\"{name}\", &g{n}.tag, \"ref\");");
        }
        let asy = if c.is_async { "async " } else { "" };
        // middlewares may ask for typed path parameters too (the carrier is `route.path_param_fields`)
        if matches!(c.kind, CompKind::Pre | CompKind::Post | CompKind::Wrap) {
            if let Some(fields) = c.route.as_ref().map(|r| &r.path_param_fields).filter(|f| !f.is_empty()) {
                // (components that ask for the same fields share one struct)
                let pn = format!("PP_{}", fields.join("_"));
                if pp_structs.insert(pn.clone()) {
                    let fields: String = fields.iter().map(|f| format!("    pub {f}: String,\n")).collect();
                    let _ = writeln!(s, "#[pavex::request::path::PathParams]\npub struct {pn} {{\n{fields}}}");
                }
                let _ = write!(sig, "pp: &pavex::request::path::PathParams<{pn}>, ");
            }
        }
        match &c.kind {
            CompKind::Pre => {
                let ret = match c.fallible {
                    Some(e) => format!("Result<Processing, E{e}>"),
                    None => "Processing".to_string(),
                };
                let _ = writeln!(s, "#[pavex::pre_process(id = \"M{k}_X{idx}\")]\npub {asy}fn x{idx}({sig}) -> {ret} {{");
                let _ = writeln!(s, "    crate::rt::enter(\"{name}\");\n{body}    let act = crate::rt::plan(\"{name}\");");
                if let Some(e) = c.fallible {
                    let _ = writeln!(s, "    if act == 1 {{ crate::rt::exit(\"{name}\", \"err\"); return Err(E{e} {{ id: crate::rt::fresh_id() }}); }}");
                }
                let wrap = |x: &str| if c.fallible.is_some() { format!("Ok({x})") } else { x.to_string() };
                let _ = writeln!(
                    s,
                    "    if act == 2 {{ crate::rt::exit(\"{name}\", \"early\"); return {}; }}",
                    wrap(&format!("Processing::EarlyReturn(Response::new(pavex::http::StatusCode::IM_A_TEAPOT).set_typed_body(\"early:{name}\".to_string()))"))
                );
                let _ = writeln!(s, "    crate::rt::exit(\"{name}\", \"continue\");\n    {}\n}}\n", wrap("Processing::Continue"));
            }
            CompKind::Post => {
                let ret = match c.fallible {
                    Some(e) => format!("Result<Response, E{e}>"),
                    None => "Response".to_string(),
                };
                let _ = writeln!(s, "#[pavex::post_process(id = \"M{k}_X{idx}\")]\npub {asy}fn x{idx}(response: Response, {sig}) -> {ret} {{");
                let _ = writeln!(s, "    crate::rt::enter(\"{name}\");\n{body}");
                if let Some(e) = c.fallible {
                    let _ = writeln!(s, "    if crate::rt::plan(\"{name}\") == 1 {{ crate::rt::exit(\"{name}\", \"err\"); return Err(E{e} {{ id: crate::rt::fresh_id() }}); }}");
                }
                let hv = name.replace("::", "-");
                let r = format!("response.append_header(pavex::http::HeaderName::from_static(\"x-post\"), pavex::http::HeaderValue::from_static(\"{hv}\"))");
                let r = if c.fallible.is_some() { format!("Ok({r})") } else { r };
                let _ = writeln!(s, "    crate::rt::exit(\"{name}\", \"ok\");\n    {r}\n}}\n");
            }
            CompKind::Wrap => {
                let ret = match c.fallible {
                    Some(e) => format!("Result<Response, E{e}>"),
                    None => "Response".to_string(),
                };
                let _ = writeln!(
                    s,
                    "#[pavex::wrap(id = \"M{k}_X{idx}\")]\npub async fn x{idx}<C>(next: Next<C>, {sig}) -> {ret}\nwhere\n    C: IntoFuture<Output = Response>,\n{{"
                );
                let _ = writeln!(s, "    crate::rt::enter(\"{name}\");\n{body}    let act = crate::rt::plan(\"{name}\");");
                if let Some(e) = c.fallible {
                    let _ = writeln!(s, "    if act == 1 {{ crate::rt::exit(\"{name}\", \"err\"); return Err(E{e} {{ id: crate::rt::fresh_id() }}); }}");
                }
                let _ = writeln!(
                    s,
                    "    let r = if act == 2 {{ Response::new(pavex::http::StatusCode::ACCEPTED).set_typed_body(\"skipped:{name}\".to_string()) }} else {{ next.await }};"
                );
                let r = if c.fallible.is_some() { "Ok(r)" } else { "r" };
                let _ = writeln!(s, "    crate::rt::exit(\"{name}\", \"ok\");\n    {r}\n}}\n");
            }
            CompKind::Handler => {
                let group = bulk.get(&idx).copied();
                if let Some(g) = group {
                    // bulk-imported routes live in their own module: `bp.routes(from![crate::m<k>::rg<g>])`
                    let _ = writeln!(s, "pub mod rg{g}_{idx} {{\nuse super::*;");
                }
                let route = c.route.clone().unwrap_or(RouteSpec { methods: vec!["GET".into()], path: "/".into(), path_param_fields: vec![], bulk: false });
                let ret = match c.fallible {
                    Some(e) => format!("Result<Response, E{e}>"),
                    None => "Response".to_string(),
                };
                let mut extra_sig = String::new();
                if !route.path_param_fields.is_empty() {
                    let pn = format!("PP_{}", route.path_param_fields.join("_"));
                    if pp_structs.insert(pn.clone()) {
                        let fields: String = route.path_param_fields.iter().map(|f| format!("    pub {f}: String,\n")).collect();
                        let _ = writeln!(s, "#[pavex::request::path::PathParams]\npub struct {pn} {{\n{fields}}}");
                    }
                    extra_sig = format!("pp: &pavex::request::path::PathParams<{pn}>, ");
                }
                let attr = route_attr(&route, k, idx);
                let _ = writeln!(s, "{attr}\npub {asy}fn x{idx}({extra_sig}{sig}) -> {ret} {{");
                let _ = writeln!(s, "    crate::rt::enter(\"{name}\");\n{body}");
                if let Some(e) = c.fallible {
                    let _ = writeln!(s, "    if crate::rt::plan(\"{name}\") == 1 {{ crate::rt::exit(\"{name}\", \"err\"); return Err(E{e} {{ id: crate::rt::fresh_id() }}); }}");
                }
                let r = format!("Response::ok().set_typed_body(\"h:{name}\".to_string())");
                let r = if c.fallible.is_some() { format!("Ok({r})") } else { r };
                let _ = writeln!(s, "    crate::rt::exit(\"{name}\", \"ok\");\n    {r}\n}}\n");
                if group.is_some() {
                    s.push_str("}\n\n");
                }
            }
            CompKind::ErrHandler { err, default } => {
                let d = if *default { ", default = true" } else { "" };
                let style = if *err == crate::spec::FALLBACK_ERR { 3 } else { err_handler_style(idx) };
                match style {
                    // the fallback handler: any error, as `pavex::Error`
                    3 => {
                        let _ = writeln!(s, "#[pavex::error_handler(id = \"M{k}_X{idx}\"{d})]\npub {asy}fn x{idx}(#[px(error_ref)] e: &pavex::Error, {sig}) -> Response {{");
                    }
                    // a method of the error type: `&self` is the error
                    1 => {
                        let _ = writeln!(s, "#[pavex::methods]\nimpl E{err} {{\n#[pavex::error_handler(id = \"M{k}_X{idx}\"{d})]\npub {asy}fn x{idx}({}&self, {sig}) -> Response {{\n    let e = self;", if sig.is_empty() { "" } else { "#[px(error_ref)] " });
                    }
                    // a method of another (injected) type: the error is the second input
                    2 => {
                        let _ = writeln!(s, "pub struct H{idx};\n#[pavex::methods]\nimpl H{idx} {{\n#[pavex::singleton(id = \"M{k}_H{idx}\")]\npub fn new() -> Self {{ H{idx} }}\n#[pavex::error_handler(id = \"M{k}_X{idx}\"{d})]\npub {asy}fn x{idx}(&self, #[px(error_ref)] e: &E{err}, {sig}) -> Response {{");
                    }
                    _ => {
                        let _ = writeln!(s, "#[pavex::error_handler(id = \"M{k}_X{idx}\"{d})]\npub {asy}fn x{idx}(#[px(error_ref)] e: &E{err}, {sig}) -> Response {{");
                    }
                }
                let _ = writeln!(s, "    crate::rt::enter(\"{name}\");\n    crate::rt::note(\"{name}\", \"error\", &e.to_string());\n{body}    crate::rt::exit(\"{name}\", \"ok\");");
                let _ = writeln!(
                    s,
                    "    Response::new(pavex::http::StatusCode::from_u16({}).unwrap()).set_typed_body(\"eh:{name}\".to_string())\n}}\n",
                    430 + (*err as u16 % 20)
                );
                if style == 1 || style == 2 {
                    s.push_str("}\n\n");
                }
            }
            CompKind::Observer => {
                let _ = writeln!(s, "#[pavex::error_observer(id = \"M{k}_X{idx}\")]\npub {asy}fn x{idx}(e: &pavex::Error, {sig}) {{");
                let _ = writeln!(s, "    crate::rt::enter(\"{name}\");\n    crate::rt::note(\"{name}\", \"error\", &e.to_string());\n{body}    crate::rt::exit(\"{name}\", \"ok\");\n}}\n");
            }
            CompKind::Fallback => {
                let _ = writeln!(s, "#[pavex::fallback(id = \"M{k}_X{idx}\")]\npub {asy}fn x{idx}(allowed: &pavex::router::AllowedMethods, {sig}) -> Response {{");
                let _ = writeln!(
                    s,
                    "    crate::rt::enter(\"{name}\");\n    crate::rt::note(\"{name}\", \"allowed\", &match allowed {{ pavex::router::AllowedMethods::All => \"*\".to_string(), pavex::router::AllowedMethods::Some(l) => {{ let mut v: Vec<String> = l.iter().map(|m| m.to_string()).collect(); v.sort(); v.join(\",\") }} }});\n{body}    crate::rt::exit(\"{name}\", \"ok\");"
                );
                let _ = writeln!(s, "    Response::new(pavex::http::StatusCode::from_u16(460).unwrap()).set_typed_body(\"fb:{name}\".to_string())\n}}\n");
            }
        }
    }
    // ---- blueprint
    s.push_str("pub fn blueprint() -> Blueprint {\n    let mut bp0 = Blueprint::new();\n");
    {
        let used_kinds: std::collections::BTreeSet<u8> = spec.comps.iter().flat_map(|c| c.gens.iter().map(|(k, _)| *k % 4)).collect();
        for kind in used_kinds {
            let mut explicit = false;
            spec.walk_regs(&mut |r, _| {
                if matches!(r, Reg::Gen { kind: kk, .. } if *kk % 4 == kind) {
                    explicit = true;
                }
            });
            if !explicit {
                let _ = writeln!(s, "    bp0.constructor(M{k}_G{});", GEN_KINDS[kind as usize].0);
            }
        }
    }
    for (idx, c) in spec.comps.iter().enumerate() {
        if matches!(c.kind, CompKind::ErrHandler { err, .. } if err != crate::spec::FALLBACK_ERR) && err_handler_style(idx) == 2 {
            let _ = writeln!(s, "    bp0.constructor(M{k}_H{idx});");
        }
    }
    if spec.peel && !spec.types.is_empty() && spec.comps.iter().any(|c| c.kind == CompKind::Handler) {
        let _ = writeln!(s, "    bp0.constructor(M{k}_GP);");
    }
    if spec.comps.iter().any(|c| c.route.as_ref().is_some_and(|r| !r.path_param_fields.is_empty())) {
        // the constructor (and error handler) of PathParams<T> come from the framework crate
        s.push_str("    bp0.import(pavex::blueprint::from![pavex]);\n");
    }
    emit_regs(k, spec, &spec.bp, 0, &mut s);
    s.push_str("    bp0\n}\n");
    s
}

fn route_attr(r: &RouteSpec, k: usize, idx: usize) -> String {
    let std_methods = ["GET", "POST", "PUT", "DELETE", "PATCH", "HEAD", "OPTIONS"];
    if r.methods.len() == 1 && std_methods.contains(&r.methods[0].as_str()) {
        return format!("#[pavex::{}(path = \"{}\", id = \"M{k}_X{idx}\")]", r.methods[0].to_lowercase(), r.path);
    }
    if r.methods.is_empty() {
        // every *standard* method
        return format!("#[pavex::route(path = \"{}\", id = \"M{k}_X{idx}\", allow(any_method))]", r.path);
    }
    if r.methods.len() == 1 && r.methods[0] == "*" {
        // every method, custom ones included
        return format!("#[pavex::route(path = \"{}\", id = \"M{k}_X{idx}\", allow(any_method, non_standard_methods))]", r.path);
    }
    let custom = r.methods.iter().any(|m| !std_methods.contains(&m.as_str()) && !["CONNECT", "TRACE"].contains(&m.as_str()));
    let list = r.methods.iter().map(|m| format!("\"{m}\"")).collect::<Vec<_>>().join(", ");
    let m = if r.methods.len() == 1 { list } else { format!("[{list}]") };
    let allow = if custom { ", allow(non_standard_methods)" } else { "" };
    format!("#[pavex::route(method = {m}, path = \"{}\", id = \"M{k}_X{idx}\"{allow})]", r.path)
}

fn emit_regs(k: usize, spec: &AppSpec, regs: &[Reg], depth: usize, s: &mut String) {
    let bp = format!("bp{depth}");
    let ind = "    ".repeat(depth + 1);
    let bulk = spec.bulk_groups();
    let mut emitted_groups: Vec<usize> = vec![];
    for r in regs {
        if let Reg::Comp { idx } = r {
            if let Some(g) = bulk.get(idx) {
                // one `routes` call per group, at the position of its first member
                if !emitted_groups.contains(g) {
                    emitted_groups.push(*g);
                    let mods: Vec<String> = bulk.iter().filter(|(_, gg)| *gg == g).map(|(i, _)| format!("crate::m{k}::rg{g}_{i}")).collect();
                    let _ = writeln!(s, "{ind}{bp}.routes(pavex::blueprint::from![{}]);", mods.join(", "));
                }
                continue;
            }
        }
        match r {
            Reg::Ctor { ty, variant } => {
                if spec.types[*ty].prebuilt {
                    let _ = writeln!(s, "{ind}{bp}.prebuilt(M{k}_P{ty});");
                } else {
                    // C19(b): what the attribute says may be overridden at registration time
                    let t = &spec.types[*ty];
                    let mut over = String::new();
                    if t.attr_life.is_some() {
                        let _ = write!(over, ".lifecycle(pavex::blueprint::Lifecycle::{})", match t.life { Life::Singleton => "Singleton", Life::Request => "RequestScoped", Life::Transient => "Transient" });
                    }
                    if t.attr_clone.is_some() {
                        over.push_str(match t.clone_if_necessary { Some(true) => ".clone_if_necessary()", _ => ".never_clone()" });
                    }
                    if let (Some(h), 0) = (t.specific_eh, *variant) {
                        if t.fallible_of(0).is_some() {
                            let _ = write!(over, ".error_handler(M{k}_X{h})");
                        }
                    }
                    let module = if in_own_module(t, *variant) { format!("cs{ty}_{variant}::") } else if t.imported && *variant == 0 { format!("ci{ty}::") } else { String::new() };
                    if t.imported && *variant == 0 && !in_own_module(t, *variant) {
                        let _ = writeln!(s, "{ind}{bp}.import(pavex::blueprint::from![crate::m{k}::ci{ty}]);");
                        if over.is_empty() {
                            continue;
                        }
                    }
                    let _ = writeln!(s, "{ind}{bp}.constructor({module}M{k}_C{ty}_{variant}){over};");
                }
            }
            Reg::Gen { kind, concrete_for } => {
                let letter = GEN_KINDS[*kind as usize % 4].0;
                match concrete_for {
                    Some(t) => {
                        let _ = writeln!(s, "{ind}{bp}.constructor(M{k}_GC{letter}_{t});");
                    }
                    None => {
                        let _ = writeln!(s, "{ind}{bp}.constructor(M{k}_G{letter});");
                    }
                }
            }
            Reg::Comp { idx } => {
                let m = match spec.comps[*idx].kind {
                    CompKind::Pre => "pre_process",
                    CompKind::Post => "post_process",
                    CompKind::Wrap => "wrap",
                    CompKind::Handler => "route",
                    CompKind::ErrHandler { .. } => "error_handler",
                    CompKind::Observer => "error_observer",
                    CompKind::Fallback => "fallback",
                };
                let _ = writeln!(s, "{ind}{bp}.{m}(M{k}_X{idx});");
            }
            Reg::Nest { prefix, domain, bp: inner } => {
                let child = format!("bp{}", depth + 1);
                let _ = writeln!(s, "{ind}{{\n{ind}    let mut {child} = Blueprint::new();");
                emit_regs(k, spec, inner, depth + 1, s);
                let mut chain = String::new();
                if let Some(p) = prefix {
                    let _ = write!(chain, ".prefix(\"{p}\")");
                }
                if let Some(d) = domain {
                    let _ = write!(chain, ".domain(\"{d}\")");
                }
                let _ = writeln!(s, "{ind}    {bp}{chain}.nest({child});\n{ind}}}");
            }
        }
    }
}

pub fn emit_lib(n: usize) -> String {
    let mut s = String::from("#![allow(clippy::all)]\npub mod rt;\n");
    for k in 0..n {
        let _ = writeln!(s, "pub mod m{k};");
    }
    s.push_str("use pavex::Blueprint;\n\npub fn blueprint_one(k: usize) -> Blueprint {\n    match k {\n");
    for k in 0..n {
        let _ = writeln!(s, "        {k} => m{k}::blueprint(),");
    }
    s.push_str("        _ => Blueprint::new(),\n    }\n}\n\n");
    s.push_str("/// Nest the selected sub-applications, each under its own prefix `/s<k>`.\npub fn blueprint_mask(mask: u64) -> Blueprint {\n    let mut bp = Blueprint::new();\n");
    for k in 0..n {
        let _ = writeln!(s, "    if mask & (1 << {k}) != 0 {{ bp.prefix(\"/s{k}\").nest(m{k}::blueprint()); }}");
    }
    s.push_str("    bp\n}\n");
    s
}

pub const MAIN_RS: &str = include_str!("../templates/main.rs");

pub const DRIVER_MAIN_RS: &str = include_str!("../templates/driver_main.rs");
