//! Greedy reduction of a failing application spec (each step costs a compiler run, so the
//! budget is small). Every candidate is a structurally smaller spec; it is kept when the
//! predicate (same failure signature) still holds.
use crate::spec::*;

fn reg_count(regs: &[Reg]) -> usize {
    regs.iter().map(|r| 1 + if let Reg::Nest { bp, .. } = r { reg_count(bp) } else { 0 }).sum()
}

/// Remove / flatten the `n`-th registration (pre-order). `flatten` replaces a Nest by its content.
fn edit_reg(regs: &mut Vec<Reg>, n: &mut isize, flatten: bool) -> bool {
    let mut i = 0;
    while i < regs.len() {
        if *n == 0 {
            *n -= 1;
            if flatten {
                if let Reg::Nest { bp, .. } = regs[i].clone() {
                    regs.splice(i..=i, bp);
                    return true;
                }
                return false;
            }
            regs.remove(i);
            return true;
        }
        *n -= 1;
        if let Reg::Nest { bp, .. } = &mut regs[i] {
            if edit_reg(bp, n, flatten) {
                return true;
            }
            if *n < 0 {
                return false;
            }
        }
        i += 1;
    }
    false
}

pub fn candidates(spec: &AppSpec) -> Vec<AppSpec> {
    let mut out = vec![];
    let n = reg_count(&spec.bp);
    // drop registrations, last first (routes and middlewares at the end are the cheapest to lose)
    for i in (0..n).rev() {
        let mut s = spec.clone();
        let mut k = i as isize;
        if edit_reg(&mut s.bp, &mut k, false) {
            out.push(s);
        }
    }
    for i in 0..n {
        let mut s = spec.clone();
        let mut k = i as isize;
        if edit_reg(&mut s.bp, &mut k, true) {
            out.push(s);
        }
    }
    for (ci, c) in spec.comps.iter().enumerate() {
        for ii in 0..c.inputs.len() {
            let mut s = spec.clone();
            s.comps[ci].inputs.remove(ii);
            out.push(s);
        }
        if c.fallible.is_some() {
            let mut s = spec.clone();
            s.comps[ci].fallible = None;
            out.push(s);
        }
        if c.is_async && c.kind != CompKind::Wrap {
            let mut s = spec.clone();
            s.comps[ci].is_async = false;
            out.push(s);
        }
    }
    for (ti, t) in spec.types.iter().enumerate() {
        for ii in 0..t.inputs.len() {
            let mut s = spec.clone();
            s.types[ti].inputs.remove(ii);
            out.push(s);
        }
        if t.fallible.is_some() {
            let mut s = spec.clone();
            s.types[ti].fallible = None;
            out.push(s);
        }
        if t.is_async {
            let mut s = spec.clone();
            s.types[ti].is_async = false;
            out.push(s);
        }
    }
    out
}

pub fn shrink(spec: &AppSpec, budget: usize, still_fails: &mut dyn FnMut(&AppSpec) -> bool) -> (AppSpec, usize) {
    // (debugging aid for seed-matrix runs, where only the verdict matters)
    if std::env::var("PX_NO_SHRINK").is_ok() {
        return (spec.clone(), 0);
    }
    let mut cur = spec.clone();
    let mut used = 0;
    'outer: loop {
        for cand in candidates(&cur) {
            if used >= budget {
                break 'outer;
            }
            used += 1;
            if still_fails(&cand) {
                cur = cand;
                continue 'outer;
            }
        }
        break;
    }
    (cur, used)
}
