//! Generators: a structured genome (drawn by proptest) is turned into an `AppSpec` by construction.
use proptest::prelude::*;
use serde::{Deserialize, Serialize};

use crate::spec::*;

#[derive(Clone, Debug, Serialize, Deserialize)]
pub struct TypeGene {
    pub life: u8,
    pub disc: u8,
    pub inputs: Vec<(u16, u8)>,
    pub fallible: bool,
    pub is_async: bool,
}

#[derive(Clone, Debug, Serialize, Deserialize)]
pub struct CompGene {
    pub kind: u8,
    pub inputs: Vec<(u16, u8)>,
    pub fallible: bool,
    pub is_async: bool,
}

#[derive(Clone, Debug, Serialize, Deserialize)]
pub enum LayoutGene {
    Mw(u16),
    Obs(u16),
    Route(u16),
    Nest { inner: Vec<LayoutGene>, override_ctor: Option<u16>, with_prefix: bool },
}

#[derive(Clone, Debug, Serialize, Deserialize)]
pub struct Genome {
    pub types: Vec<TypeGene>,
    pub mws: Vec<CompGene>,
    pub handlers: Vec<CompGene>,
    pub observers: Vec<CompGene>,
    pub layout: Vec<LayoutGene>,
    pub n_errs: u8,
    pub root_double: Option<u16>,
    pub fallback_handler_err: bool,
}

/// Usage discipline of a type inside the documented-rules class.
#[derive(Clone, Copy, Debug, PartialEq)]
pub enum Disc {
    BorrowOnly,
    MoveOnce,
    Copy,
    CloneIfNecessary,
    /// transient: every injection is a fresh value
    Fresh,
    /// request-scoped, never cloned: pre-/post-processing middlewares and handlers take it by `&mut`
    /// or `&`, constructors by `&`; wrapping middlewares never touch it (documented: "No mutations",
    /// dependency_injection/constructors.md and middleware/wrapping.md). Outside the class of C02.
    MutShared,
}

/// Optional widenings of the rule-abiding class.
#[derive(Clone, Copy, Debug, Default)]
pub struct Ext {
    /// allow `Disc::MutShared` values (legal `&mut` injection)
    pub mut_refs: bool,
    /// singletons may be built from transients (C02 speaks of singletons built from singletons only)
    pub startup_transients: bool,
}

fn pick(raw: u16, len: usize) -> usize {
    vcommon::idx(raw, len)
}

pub struct Built {
    pub spec: AppSpec,
    pub discs: Vec<Disc>,
}

/// Build an application inside the class "follows every documented rule, ownership trivially
/// satisfiable" (C02). Everything is by construction; nothing is rejected.
pub fn build_abiding(g: &Genome) -> Built {
    build_abiding_ext(g, Ext::default())
}

pub fn build_abiding_ext(g: &Genome, ext: Ext) -> Built {
    let n_errs = (g.n_errs % 3) as usize + 1;
    let mut types: Vec<TypeSpec> = vec![];
    let mut discs: Vec<Disc> = vec![];
    // a MoveOnce value may have exactly one user in the whole sub-application
    let mut claimed: Vec<bool> = vec![];
    // types that nobody but handlers may consume (candidates for constructor overriding)
    let mut used_by_non_handler: Vec<bool> = vec![];

    #[derive(PartialEq, Clone, Copy)]
    enum Consumer {
        Ctor(Life),
        Middleware,
        /// a wrapping middleware: whatever it borrows stays borrowed while everything downstream runs
        Wrap,
        Handler,
        ErrOrObs,
    }

    // decide the mode for consuming type j, or None if this consumer must not use j
    fn mode_for(
        j: usize,
        want_move: bool,
        consumer: Consumer,
        types: &[TypeSpec],
        discs: &[Disc],
        claimed: &mut [bool],
        ext: Ext,
    ) -> Option<Mode> {
        let t = &types[j];
        if let Consumer::Ctor(Life::Singleton) = consumer {
            // a singleton is built from singletons, and from transients that are themselves built
            // from nothing but singletons / such transients (no request-scoped value anywhere below)
            fn startup_ok(j: usize, types: &[TypeSpec]) -> bool {
                match types[j].life {
                    Life::Singleton => true,
                    Life::Request => false,
                    Life::Transient => types[j].inputs.iter().all(|(i, _)| startup_ok(*i, types)),
                }
            }
            if !(t.life == Life::Singleton || (ext.startup_transients && startup_ok(j, types))) {
                return None;
            }
        }
        if consumer == Consumer::ErrOrObs {
            // error handlers and observers only borrow; they may not (transitively) need a
            // constructor that can fail at request time (singletons are built before serving,
            // a fallible singleton constructor is fine)
            fn can_fail_at_request_time(j: usize, types: &[TypeSpec]) -> bool {
                let t = &types[j];
                if t.life == Life::Singleton {
                    return false;
                }
                t.fallible.is_some() || t.inputs.iter().any(|(i, _)| can_fail_at_request_time(*i, types))
            }
            if t.life == Life::Singleton {
                return Some(Mode::Ref);
            }
            let borrowable = matches!(discs[j], Disc::BorrowOnly | Disc::Copy | Disc::CloneIfNecessary | Disc::Fresh | Disc::MutShared);
            return if borrowable && !can_fail_at_request_time(j, types) { Some(Mode::Ref) } else { None };
        }
        match discs[j] {
            Disc::BorrowOnly => Some(Mode::Ref),
            Disc::Copy | Disc::CloneIfNecessary | Disc::Fresh => Some(if want_move { Mode::Move } else { Mode::Ref }),
            Disc::MutShared => match consumer {
                Consumer::Middleware | Consumer::Handler => Some(if want_move { Mode::Mut } else { Mode::Ref }),
                Consumer::Ctor(Life::Request) | Consumer::Ctor(Life::Transient) => Some(Mode::Ref),
                _ => None,
            },
            Disc::MoveOnce => {
                let eligible = matches!(consumer, Consumer::Handler | Consumer::Ctor(Life::Request));
                if eligible && !claimed[j] {
                    claimed[j] = true;
                    Some(Mode::Move)
                } else {
                    None
                }
            }
        }
    }

    for (i, tg) in g.types.iter().enumerate().take(7) {
        let mut life = [Life::Singleton, Life::Request, Life::Request, Life::Transient][tg.life as usize % 4];
        if i == 0 && g.types.len() > 2 {
            life = Life::Singleton; // make sure observers / error handlers have something to borrow
        }
        let disc = match life {
            Life::Singleton => [Disc::BorrowOnly, Disc::Copy, Disc::CloneIfNecessary][tg.disc as usize % 3],
            Life::Request if ext.mut_refs && tg.disc % 5 == 4 => Disc::MutShared,
            Life::Request => [Disc::BorrowOnly, Disc::MoveOnce, Disc::Copy, Disc::CloneIfNecessary, Disc::BorrowOnly][tg.disc as usize % 5],
            Life::Transient => Disc::Fresh,
        };
        let mut inputs = vec![];
        for (raw, m) in tg.inputs.iter().take(3) {
            if i == 0 {
                break;
            }
            let j = pick(*raw, i);
            if inputs.iter().any(|(t, _)| *t == j) {
                continue;
            }
            if let Some(mode) = mode_for(j, m % 2 == 1, Consumer::Ctor(life), &types, &discs, &mut claimed, ext) {
                inputs.push((j, mode));
                used_by_non_handler[j] = true;
            }
        }
        // a singleton whose constructor returns a Result fails (if ever) in ApplicationState::new; a third of the fallible genes keep it
        let fallible = if tg.fallible && (life != Life::Singleton || tg.disc % 3 == 1) { Some(i % n_errs) } else { None };
        // two thirds of the eligible types carry a lifetime: they hold a reference to one of the values
        // their constructor borrows (a value that is only ever borrowed, or Copy, or clone-if-necessary:
        // keeping it borrowed can always be satisfied)
        let view_of = if life != Life::Singleton && matches!(disc, Disc::BorrowOnly | Disc::MoveOnce | Disc::Fresh) && (tg.life / 4) % 3 != 2 {
            // (first choice: a reference-holding value taken by value and kept: the new value then
            // holds, transitively, whatever that one holds)
            inputs
                .iter()
                .find(|(j, m)| *m == Mode::Move && types[*j].view_of.is_some() && !types[*j].is_copy && types[*j].clone_if_necessary != Some(true))
                .or_else(|| inputs.iter().find(|(j, m)| *m == Mode::Ref && types[*j].view_of.is_none() && (types[*j].life == Life::Singleton || matches!(discs[*j], Disc::BorrowOnly | Disc::Copy | Disc::CloneIfNecessary))))
                .map(|(j, _)| *j)
        } else {
            None
        };
        // (such a holder cannot be cloned by the emitted code)
        let holder_by_value = view_of.is_some_and(|j| types[j].view_of.is_some());
        types.push(TypeSpec {
            life,
            is_clone: (matches!(disc, Disc::CloneIfNecessary) || (disc == Disc::Fresh && tg.disc % 2 == 0)) && !holder_by_value,
            is_copy: disc == Disc::Copy,
            clone_if_necessary: match disc {
                Disc::CloneIfNecessary => Some(true),
                Disc::Copy => None,
                _ => {
                    if tg.disc % 3 == 0 { Some(false) } else { None }
                }
            },
            inputs,
            fallible,
            is_async: tg.is_async,
            variants: 1,
            send_sync: true,
            prebuilt: false,
            attr_life: None,
            attr_clone: None,
            allow_unused: false,
            v1_flip: false,
            view_of,
            specific_eh: None,
            imported: false,
        });
        discs.push(disc);
        claimed.push(false);
        used_by_non_handler.push(false);
    }
    if types.is_empty() {
        types.push(TypeSpec {
            life: Life::Singleton,
            is_clone: false,
            is_copy: false,
            clone_if_necessary: None,
            inputs: vec![],
            fallible: None,
            is_async: false,
            variants: 1,
            send_sync: true,
            prebuilt: false,
            attr_life: None,
            attr_clone: None,
            allow_unused: false,
            v1_flip: false,
            view_of: None,
            specific_eh: None,
            imported: false,
        });
        discs.push(Disc::BorrowOnly);
        claimed.push(false);
        used_by_non_handler.push(false);
    }
    let n = types.len();

    let mut comps: Vec<CompSpec> = vec![];
    let comp_inputs = |cg: &CompGene, consumer: Consumer, types: &[TypeSpec], discs: &[Disc], claimed: &mut Vec<bool>, ubnh: &mut Vec<bool>| {
        let mut inputs = vec![];
        for (raw, m) in cg.inputs.iter().take(3) {
            let j = pick(*raw, n);
            if inputs.iter().any(|(t, _)| *t == j) {
                continue;
            }
            if let Some(mode) = mode_for(j, m % 2 == 1, consumer, types, discs, claimed, ext) {
                inputs.push((j, mode));
                if consumer != Consumer::Handler {
                    ubnh[j] = true;
                }
            }
        }
        inputs
    };
    // framework-provided values (request head, raw path parameters, matched pattern, connection info, raw body) by reference
    let fw_of = |cg: &CompGene| -> Vec<u8> {
        let mut v: Vec<u8> = cg.inputs.iter().filter(|(_, m)| m % 5 == 0).map(|(raw, _)| (*raw % 5) as u8).collect();
        v.sort();
        v.dedup();
        v
    };
    // ---- middlewares
    let mut mw_idx = vec![];
    for cg in g.mws.iter().take(6) {
        let kind = [CompKind::Pre, CompKind::Post, CompKind::Wrap][cg.kind as usize % 3].clone();
        let inputs = comp_inputs(cg, if kind == CompKind::Wrap { Consumer::Wrap } else { Consumer::Middleware }, &types, &discs, &mut claimed, &mut used_by_non_handler);
        let fallible = if cg.fallible { Some(cg.kind as usize % n_errs) } else { None };
        let is_async = cg.is_async || kind == CompKind::Wrap;
        mw_idx.push(comps.len());
        comps.push(CompSpec { kind, inputs, fallible, is_async, route: None, fw: fw_of(cg), gens: vec![] });
    }
    // ---- handlers
    let mut h_idx = vec![];
    for (hi, cg) in g.handlers.iter().take(4).enumerate() {
        let inputs = comp_inputs(cg, Consumer::Handler, &types, &discs, &mut claimed, &mut used_by_non_handler);
        let fallible = if cg.fallible { Some(cg.kind as usize % n_errs) } else { None };
        let methods = match cg.kind % 5 {
            0 | 1 => vec!["GET".to_string()],
            2 => vec!["POST".to_string()],
            3 => vec!["GET".to_string(), "PUT".to_string()],
            _ => vec!["DELETE".to_string()],
        };
        h_idx.push(comps.len());
        comps.push(CompSpec {
            kind: CompKind::Handler,
            inputs,
            fallible,
            is_async: cg.is_async,
            route: Some(RouteSpec { methods, path: format!("/h{hi}"), path_param_fields: vec![], bulk: (cg.kind / 5) % 2 == 0 }),
            fw: fw_of(cg),
            gens: vec![],
        });
    }
    if h_idx.is_empty() {
        h_idx.push(comps.len());
        comps.push(CompSpec {
            kind: CompKind::Handler,
            inputs: vec![],
            fallible: None,
            is_async: false,
            route: Some(RouteSpec { methods: vec!["GET".into()], path: "/h0".into(), path_param_fields: vec![], bulk: false }),
            fw: vec![],
            gens: vec![],
        });
    }
    // ---- "hot" clone-if-necessary value: in a third of the applications every middleware and
    // handler takes the same clone-if-necessary request-scoped value, by value or by reference as
    // their genes say (long move/borrow alternations inside one stage and across stages)
    if g.fallback_handler_err {
        let mut hot = (0..n).find(|t| discs[*t] == Disc::CloneIfNecessary && types[*t].life == Life::Request);
        if hot.is_none() {
            // promote a borrow-only request-scoped type (its existing users only borrow it)
            if let Some(t) = (0..n).find(|t| discs[*t] == Disc::BorrowOnly && types[*t].life == Life::Request && types[*t].view_of.is_none()) {
                discs[t] = Disc::CloneIfNecessary;
                types[t].is_clone = true;
                types[t].clone_if_necessary = Some(true);
                hot = Some(t);
            }
        }
        if let Some(hot) = hot {
            for (n_c, c) in comps.iter_mut().enumerate() {
                if matches!(c.kind, CompKind::Pre | CompKind::Post | CompKind::Wrap | CompKind::Handler) && !c.inputs.iter().any(|(t, _)| *t == hot) {
                    // half of the time strictly alternating, otherwise as the gene bits say
                    let by_value = if g.n_errs % 2 == 0 { (n_c + (g.n_errs as usize >> 1)) % 2 == 0 } else { (g.n_errs as usize >> (n_c % 7)) & 1 == 1 };
                    c.inputs.push((hot, if by_value { Mode::Move } else { Mode::Ref }));
                    if c.kind != CompKind::Handler {
                        used_by_non_handler[hot] = true;
                    }
                }
            }
        }
    }
    // ---- generic constructors: `fn g<T>(&T) -> G<T>` instantiated with a borrowable type of a
    // compatible lifecycle (a singleton wrapper only around singletons)
    for (n_c, c) in comps.iter_mut().enumerate() {
        if !matches!(c.kind, CompKind::Pre | CompKind::Post | CompKind::Wrap | CompKind::Handler) {
            continue;
        }
        let pickers: Vec<u16> = g.mws.iter().chain(g.handlers.iter()).nth(n_c).map(|cg| cg.inputs.iter().map(|(r, _)| *r).collect()).unwrap_or_default();
        for raw in pickers.iter().take(2) {
            if raw % 3 != 0 {
                continue;
            }
            let kind = ((raw / 3) % 4) as u8;
            let inner = pick(raw / 12, n);
            let borrowable = matches!(discs[inner], Disc::BorrowOnly | Disc::Copy | Disc::CloneIfNecessary) || types[inner].life == Life::Singleton;
            let life_ok = (kind != 0 || types[inner].life == Life::Singleton) && types[inner].view_of.is_none();
            if borrowable && life_ok && !c.gens.contains(&(kind, inner)) {
                c.gens.push((kind, inner));
                if c.kind != CompKind::Handler {
                    used_by_non_handler[inner] = true;
                }
            }
        }
    }
    // ---- observers
    let mut o_idx = vec![];
    for cg in g.observers.iter().take(3) {
        let inputs = comp_inputs(cg, Consumer::ErrOrObs, &types, &discs, &mut claimed, &mut used_by_non_handler);
        o_idx.push(comps.len());
        comps.push(CompSpec { kind: CompKind::Observer, inputs, fallible: None, is_async: cg.is_async, route: None, fw: vec![], gens: vec![] });
    }
    // ---- one error handler per error type (registered at the root)
    let mut eh_idx = vec![];
    for e in 0..n_errs {
        // error handlers borrow like observers do (never something that can fail at request time)
        let inputs = match g.observers.get(e) {
            Some(cg) if e % 2 == 1 => comp_inputs(cg, Consumer::ErrOrObs, &types, &discs, &mut claimed, &mut used_by_non_handler),
            _ => {
                if types[0].life == Life::Singleton && e % 2 == 0 {
                    used_by_non_handler[0] = true;
                    vec![(0usize, Mode::Ref)]
                } else {
                    vec![]
                }
            }
        };
        eh_idx.push(comps.len());
        comps.push(CompSpec { kind: CompKind::ErrHandler { err: e, default: false }, inputs, fallible: None, is_async: e % 2 == 1, route: None, fw: vec![], gens: vec![] });
    }
    // ---- component-specific error handlers: a third of the fallible request-time constructors are registered with
    // `.error_handler(..)`; that handler (not the one registered for the error type) handles their failures
    for t in 0..n {
        if let (Some(e), true) = (types[t].fallible, types[t].life != Life::Singleton) {
            if (g.types[t].disc / 16) % 3 == 0 && !types[t].imported {
                types[t].specific_eh = Some(comps.len());
                comps.push(CompSpec { kind: CompKind::ErrHandler { err: e, default: false }, inputs: vec![], fallible: None, is_async: t % 2 == 0, route: None, fw: vec![], gens: vec![] });
            }
        }
    }
    // ---- an error handler for an error type that nothing returns: registered in some *nested*
    // blueprints only, so that those blueprints have error handlers of their own while every real
    // error is still handled by the handlers of the root blueprint
    let extra_eh = comps.len();
    comps.push(CompSpec { kind: CompKind::ErrHandler { err: n_errs, default: false }, inputs: vec![], fallible: None, is_async: false, route: None, fw: vec![], gens: vec![] });
    let n_errs = n_errs + 1;
    // ---- overridable types: request-scoped/transient, consumed by handlers only, with no dependants
    let overridable: Vec<usize> = (0..n)
        .filter(|t| {
            types[*t].life != Life::Singleton
                && !used_by_non_handler[*t]
                && comps.iter().any(|c| c.kind == CompKind::Handler && c.inputs.iter().any(|(x, _)| x == t))
        })
        .collect();
    for t in &overridable {
        types[*t].variants = 2;
        // the two constructors of a type need not agree on fallibility
        types[*t].v1_flip = (*t + g.n_errs as usize) % 2 == 0;
    }
    // ---- a quarter of the constructors without registration-time overrides are registered through an import of
    // the module they live in (`bp.import(from![..])`), which the documentation calls equivalent to `bp.constructor`
    for t in 0..n {
        let ty = &types[t];
        if (g.types[t].disc / 8) % 4 == 1 && !(ty.life == Life::Singleton && ty.fallible.is_some()) && ty.view_of.is_none() && !ty.prebuilt && ty.variants == 1 && ty.specific_eh.is_none() {
            types[t].imported = true;
        }
    }

    // ---- blueprint
    let mut bp: Vec<Reg> = vec![];
    for t in 0..n {
        bp.push(Reg::Ctor { ty: t, variant: 0 });
    }
    if let (Some(raw), false) = (g.root_double, overridable.is_empty()) {
        // registered twice in the same blueprint: the latest registration wins
        let t = overridable[pick(raw, overridable.len())];
        bp.push(Reg::Ctor { ty: t, variant: 1 });
        if raw % 2 == 0 {
            bp.push(Reg::Ctor { ty: t, variant: 0 });
        }
    }
    // In a quarter of the applications the user's fallback handler (`fn(&pavex::Error)`) is registered in the root
    // blueprint and one error type has no handler of its own: its errors go to the fallback, from whatever blueprint
    // (nested blueprints that register handlers for *other* error types included).
    let user_fallback = (g.n_errs as usize + n + g.observers.len()) % 4 == 0 && !eh_idx.is_empty();
    let orphan = if user_fallback { Some(eh_idx[(n + mw_idx.len()) % eh_idx.len()]) } else { None };
    if user_fallback {
        bp.push(Reg::Comp { idx: comps.len() });
        comps.push(CompSpec { kind: CompKind::ErrHandler { err: crate::spec::FALLBACK_ERR, default: false }, inputs: vec![], fallible: None, is_async: n % 2 == 0, route: None, fw: vec![], gens: vec![] });
    }
    for e in &eh_idx {
        if Some(*e) != orphan {
            bp.push(Reg::Comp { idx: *e });
        }
    }
    let mut placed: Vec<bool> = vec![false; h_idx.len()];
    let mut nest_counter = 0usize;
    fn layout(
        genes: &[LayoutGene],
        depth: usize,
        out: &mut Vec<Reg>,
        mw_idx: &[usize],
        o_idx: &[usize],
        h_idx: &[usize],
        placed: &mut [bool],
        overridable: &[usize],
        nest_counter: &mut usize,
        extra_eh: usize,
    ) {
        for gme in genes.iter().take(8) {
            match gme {
                LayoutGene::Mw(r) => {
                    if !mw_idx.is_empty() {
                        out.push(Reg::Comp { idx: mw_idx[pick(*r, mw_idx.len())] });
                    }
                }
                LayoutGene::Obs(r) => {
                    // observers may sit at any nesting level (a compiler crash that used to be
                    // reached this way, call_graph/codegen.rs:242, is repaired: see known_findings.json)
                    if !o_idx.is_empty() {
                        out.push(Reg::Comp { idx: o_idx[pick(*r, o_idx.len())] });
                    }
                }
                LayoutGene::Route(r) => {
                    let h = pick(*r, h_idx.len());
                    if !placed[h] {
                        placed[h] = true;
                        out.push(Reg::Comp { idx: h_idx[h] });
                    }
                }
                LayoutGene::Nest { inner, override_ctor, with_prefix } => {
                    if depth >= 3 {
                        continue;
                    }
                    let mut regs = vec![];
                    if let (Some(raw), false) = (override_ctor, overridable.is_empty()) {
                        regs.push(Reg::Ctor { ty: overridable[pick(*raw, overridable.len())], variant: 1 });
                    }
                    if override_ctor.map(|r| r % 2 == 0).unwrap_or(inner.len() % 2 == 0) {
                        regs.push(Reg::Comp { idx: extra_eh });
                    }
                    layout(inner, depth + 1, &mut regs, mw_idx, o_idx, h_idx, placed, overridable, nest_counter, extra_eh);
                    *nest_counter += 1;
                    let prefix = if *with_prefix { Some(format!("/n{}", *nest_counter)) } else { None };
                    out.push(Reg::Nest { prefix, domain: None, bp: regs });
                }
            }
        }
    }
    layout(&g.layout, 0, &mut bp, &mw_idx, &o_idx, &h_idx, &mut placed, &overridable, &mut nest_counter, extra_eh);
    for (h, p) in placed.iter().enumerate() {
        if !p {
            bp.push(Reg::Comp { idx: h_idx[h] });
        }
    }
    // ---- generic constructors across scopes: for a wrapper kind in use, (1) the generic constructor in the
    // root blueprint and a concrete constructor for one instantiation in a nested blueprint, or (2) the
    // other way round (possible when the kind is used with one instantiation only): the nearest
    // enclosing registration that applies wins
    {
        fn handlers_in(regs: &[Reg], comps: &[CompSpec], out: &mut Vec<usize>) {
            for r in regs {
                match r {
                    Reg::Comp { idx } if comps[*idx].kind == CompKind::Handler => out.push(*idx),
                    Reg::Nest { bp, .. } => handlers_in(bp, comps, out),
                    _ => {}
                }
            }
        }
        // (only kinds that no middleware asks for: a middleware registered in an ancestor blueprint is given what
        // *its* blueprint designates, not what the route's blueprint designates: recorded finding of C04, kept out
        // of the generated class)
        let kinds: std::collections::BTreeSet<u8> = comps
            .iter()
            .flat_map(|c| c.gens.iter().map(|(k, _)| *k % 4))
            .filter(|k| *k != 0 && !comps.iter().any(|c| c.kind != CompKind::Handler && c.gens.iter().any(|(kk, _)| kk % 4 == *k)))
            .collect();
        for kind in kinds {
            let sel = (g.n_errs as usize / 3 + kind as usize) % 3;
            if sel == 0 {
                continue;
            }
            let all_inners: std::collections::BTreeSet<usize> = comps.iter().flat_map(|c| c.gens.iter().filter(|(k, _)| *k % 4 == kind).map(|(_, i)| *i)).collect();
            let mut target: Option<(usize, usize)> = None;
            for (pos, r) in bp.iter().enumerate() {
                if let Reg::Nest { bp: inner_bp, .. } = r {
                    let mut hs = vec![];
                    handlers_in(inner_bp, &comps, &mut hs);
                    if let Some(i) = hs.iter().flat_map(|h| comps[*h].gens.iter()).find(|(k, _)| *k % 4 == kind).map(|(_, i)| *i) {
                        target = Some((pos, i));
                        break;
                    }
                }
            }
            let Some((pos, inner)) = target else { continue };
            let (root_reg, nest_reg) = if sel == 2 && all_inners.len() == 1 {
                (Reg::Gen { kind, concrete_for: Some(inner) }, Reg::Gen { kind, concrete_for: None })
            } else {
                (Reg::Gen { kind, concrete_for: None }, Reg::Gen { kind, concrete_for: Some(inner) })
            };
            if let Reg::Nest { bp: inner_bp, .. } = &mut bp[pos] {
                inner_bp.insert(0, nest_reg);
            }
            bp.insert(0, root_reg);
        }
    }
    Built { spec: AppSpec { peel: false, types, n_errs, comps, bp, note: "abiding".into() }, discs }
}

fn input_genes() -> impl Strategy<Value = Vec<(u16, u8)>> {
    prop::collection::vec((any::<u16>(), any::<u8>()), 0..=3)
}

fn type_gene() -> impl Strategy<Value = TypeGene> {
    (any::<u8>(), any::<u8>(), input_genes(), prop::bool::weighted(0.3), prop::bool::weighted(0.3))
        .prop_map(|(life, disc, inputs, fallible, is_async)| TypeGene { life, disc, inputs, fallible, is_async })
}

fn comp_gene() -> impl Strategy<Value = CompGene> {
    (any::<u8>(), input_genes(), prop::bool::weighted(0.25), prop::bool::weighted(0.4))
        .prop_map(|(kind, inputs, fallible, is_async)| CompGene { kind, inputs, fallible, is_async })
}

fn layout_gene() -> BoxedStrategy<LayoutGene> {
    let leaf = prop_oneof![
        4 => any::<u16>().prop_map(LayoutGene::Mw),
        2 => any::<u16>().prop_map(LayoutGene::Obs),
        3 => any::<u16>().prop_map(LayoutGene::Route),
    ];
    leaf.prop_recursive(3, 24, 6, |inner| {
        prop_oneof![
            3 => inner.clone(),
            1 => (prop::collection::vec(inner, 1..6), prop::option::weighted(0.4, any::<u16>()), prop::bool::weighted(0.8))
                .prop_map(|(inner, override_ctor, with_prefix)| LayoutGene::Nest { inner, override_ctor, with_prefix }),
        ]
    })
    .boxed()
}

pub fn genome() -> impl Strategy<Value = Genome> {
    (
        prop::collection::vec(type_gene(), 1..=7),
        prop::collection::vec(comp_gene(), 0..=6),
        prop::collection::vec(comp_gene(), 1..=4),
        prop::collection::vec(comp_gene(), 0..=3),
        prop::collection::vec(layout_gene(), 1..=10),
        any::<u8>(),
        prop::option::weighted(0.3, any::<u16>()),
        any::<bool>(),
    )
        .prop_map(|(types, mws, handlers, observers, layout, n_errs, root_double, fallback_handler_err)| Genome {
            types,
            mws,
            handlers,
            observers,
            layout,
            n_errs,
            root_double,
            fallback_handler_err,
        })
}

// ------------------------------------------------------------------------------------------
// Routing applications (C07, C20 b): rich route tables, fallbacks, nested prefixes, domain guards
// ------------------------------------------------------------------------------------------

#[derive(Clone, Debug, Serialize, Deserialize)]
pub struct RouteGene {
    /// path through the segment trie: each step picks a child kind
    pub steps: Vec<u8>,
    pub methods: u8,
    pub trailing_slash: bool,
}

#[derive(Clone, Debug, Serialize, Deserialize)]
pub struct ScopeGene {
    pub routes: Vec<RouteGene>,
    pub fallback: bool,
    /// 0 = no prefix, 1 = static prefix, 2 = prefix with a parameter
    pub prefix_kind: u8,
    pub children: Vec<ScopeGene>,
}

#[derive(Clone, Debug, Serialize, Deserialize)]
pub struct RoutingGenome {
    pub root: ScopeGene,
    /// 0 = no domain guards; otherwise the top-level scopes are guarded
    pub domains: u8,
    pub root_fallback: bool,
}

const METHOD_SETS: &[&[&str]] = &[
    &["GET"],
    &["POST"],
    &["GET", "POST"],
    &["PUT", "DELETE", "PATCH"],
    &["HEAD"],
    &["OPTIONS", "GET"],
    &["FOO"],
    &["GET", "BAR"],
    &["GeT"],
    &["purge", "POST"],
    &[],    // any standard method
    &["*"], // any method, custom ones included
];

/// Domain guards used by the k-th sub-application (pairwise non-overlapping, also across sub-apps).
pub fn domain_pool(k: usize) -> Vec<String> {
    vec![
        format!("app.s{k}.test"),
        format!("{{sub}}.api.s{k}.test"),
        format!("{{*any}}.wild.s{k}.test"),
        format!("{{t}}-x.s{k}.test."),
        format!("static.s{k}.test"),
    ]
}

thread_local! {
    /// whether the application being built nests any blueprint under a path prefix: then every
    /// route starts with a static segment (a/b/c) so that it cannot overlap with a prefix region
    static ANY_PREFIXED: std::cell::Cell<bool> = const { std::cell::Cell::new(false) };
    /// the scope tree being built hangs below a domain guard (its root, depth 1, is the guarded blueprint)
    static DOMAIN_MODE: std::cell::Cell<bool> = const { std::cell::Cell::new(false) };
}

fn any_prefixed(sg: &ScopeGene, depth: usize) -> bool {
    depth < 3 && sg.children.iter().take(3).any(|c| c.prefix_kind % 4 != 0 || any_prefixed(c, depth + 1))
}

pub fn build_routing(g: &RoutingGenome, k: usize) -> AppSpec {
    ANY_PREFIXED.with(|a| a.set(any_prefixed(&g.root, 0)));
    let mut comps: Vec<CompSpec> = vec![];
    // one trie per *full path*: the generator keeps a global set of shapes so that no two routes
    // of the application can match the same request with the same method
    let mut taken: std::collections::BTreeMap<String, Vec<String>> = Default::default(); // shape -> methods
    let mut nest_counter = 0usize;
    let domains = if g.domains % 4 == 0 { vec![] } else { domain_pool(k) };

    fn path_of(rg: &RouteGene, depth0: usize, static_first: bool) -> String {
        let mut p = String::new();
        let mut closed = false;
        for (d, s) in rg.steps.iter().take(4).enumerate() {
            let depth = depth0 + d;
            // a dynamic first segment would overlap with the prefixes of nested blueprints
            let s = if d == 0 && static_first { s % 4 } else { *s };
            match s % 8 {
                0 | 1 => p.push_str("/a"),
                2 => p.push_str("/b"),
                3 => p.push_str("/c"),
                4 | 5 => {
                    let _ = std::fmt::Write::write_fmt(&mut p, format_args!("/{{p{depth}}}"));
                }
                // parameters with a literal prefix (`u_{q}`) are left out: matchit refuses many
                // semantically conflict-free tables that contain them, depending on insertion order
                6 => p.push_str("/c"),
                _ => {
                    let _ = std::fmt::Write::write_fmt(&mut p, format_args!("/{{*r{depth}}}"));
                    closed = true;
                }
            }
            if closed {
                break;
            }
        }
        if p.is_empty() || (rg.trailing_slash && !closed) {
            p.push('/');
        }
        p
    }
    fn shape(full: &str) -> String {
        // parameter names erased; `u_{x}` and `{x}` at the same position would both match `u_1`:
        // treat every dynamic segment form as the same shape class to stay conflict-free
        full.split('/')
            .map(|s| if s.contains("{*") { "**".to_string() } else if s.contains('{') { "*".to_string() } else { s.to_string() })
            .collect::<Vec<_>>()
            .join("/")
    }
    fn shapes_clash(a: &str, b: &str) -> bool {
        // conservative: two shapes clash if some path could match both
        let (sa, sb): (Vec<&str>, Vec<&str>) = (a.split('/').collect(), b.split('/').collect());
        let mut i = 0;
        loop {
            match (sa.get(i), sb.get(i)) {
                (None, None) => return true,
                (Some(&"**"), Some(_)) | (Some(_), Some(&"**")) => return true,
                (Some(x), Some(y)) => {
                    if *x != "*" && *y != "*" && x != y {
                        return false;
                    }
                    // static vs dynamic at the same position is an overlap the router resolves by
                    // priority; keep it only when both are the *last* segment and the other
                    // segments are identical (the classic `/a/b` vs `/a/{x}` situation)
                }
                _ => return false,
            }
            i += 1;
        }
    }

    #[allow(clippy::too_many_arguments)]
    fn scope(
        sg: &ScopeGene,
        own_prefix: bool,
        anc_ok: bool,
        depth: usize,
        prefix: &str,
        seg_depth: usize,
        comps: &mut Vec<CompSpec>,
        taken: &mut std::collections::BTreeMap<String, Vec<String>>,
        nest_counter: &mut usize,
        out: &mut Vec<Reg>,
    ) {
        // same-path routes with different methods live in the same blueprint: group by path here
        let mut local: std::collections::BTreeMap<String, Vec<String>> = Default::default();
        for rg in sg.routes.iter().take(5) {
            let path = path_of(rg, seg_depth, ANY_PREFIXED.with(|a| a.get()));
            let full = format!("{prefix}{path}");
            let sh = shape(&full);
            let methods: Vec<String> = METHOD_SETS[rg.methods as usize % METHOD_SETS.len()].iter().map(|m| m.to_string()).collect();
            // identical shape: allowed only inside this blueprint, with the *same* literal path and disjoint methods
            let mut ok = true;
            for (other, om) in taken.iter() {
                if *other == sh {
                    let same_literal = local.contains_key(&path);
                    let any = |v: &Vec<String>| v.is_empty() || v.iter().any(|m| m == "*") || v.iter().any(|m| m == "<any>");
                    let disjoint = !any(&methods) && !any(om) && methods.iter().all(|m| !om.contains(m));
                    if !(same_literal && disjoint) {
                        ok = false;
                    }
                } else if shapes_clash(other, &sh) {
                    // keep static-vs-parameter overlaps on the last segment only
                    let (a, b): (Vec<&str>, Vec<&str>) = (other.split('/').collect(), sh.split('/').collect());
                    let last_only = a.len() == b.len() && a[..a.len() - 1] == b[..b.len() - 1] && !a.contains(&"**") && !b.contains(&"**");
                    if !last_only {
                        ok = false;
                    }
                }
            }
            if !ok {
                continue;
            }
            taken.entry(sh).or_default().extend(if methods.is_empty() { vec!["<any>".to_string()] } else { methods.clone() });
            local.entry(path.clone()).or_default().extend(methods.clone());
            out.push(Reg::Comp { idx: comps.len() });
            comps.push(CompSpec {
                kind: CompKind::Handler,
                inputs: vec![],
                fallible: None,
                is_async: rg.methods % 2 == 0,
                route: Some(RouteSpec { methods, path, path_param_fields: vec![], bulk: false }),
                fw: if rg.methods % 7 == 3 { vec![rg.methods / 7 % 5] } else { vec![] },
                gens: vec![],
            });
        }
        // a fallback in a blueprint nested *without* its own prefix is documented for method
        // misses on its own routes. For unmatched paths below an inherited prefix it competes with
        // the fallback of the prefixed ancestor (and pavexc reports an ambiguity when that ancestor
        // has none): it is generated only when the nearest prefixed ancestor has its own fallback
        // (registered first, which then owns the prefix)
        if sg.fallback && (own_prefix || anc_ok) {
            out.push(Reg::Comp { idx: comps.len() });
            // (framework-provided inputs: often the fallback is the only component asking for one)
            comps.push(CompSpec { kind: CompKind::Fallback, inputs: vec![], fallible: None, is_async: false, route: None, fw: if sg.prefix_kind % 2 == 0 { vec![sg.prefix_kind / 2 % 5] } else { vec![] }, gens: vec![] });
        }
        if depth < 3 {
            for ch in sg.children.iter().take(3) {
                *nest_counter += 1;
                let (p, extra_depth) = match ch.prefix_kind % 4 {
                    0 => (None, 0),
                    1 | 2 => (Some(format!("/n{}", *nest_counter)), 1),
                    _ => (Some(format!("/t{}/{{tp{}}}", *nest_counter, seg_depth)), 2),
                };
                let np = format!("{prefix}{}", p.clone().unwrap_or_default());
                let mut regs = vec![];
                // (the application's root is itself nested under `/s<k>` in a round; a blueprint nested without a
                // prefix directly below a *guarded* blueprint may have a fallback of its own even when the guarded
                // blueprint has none: unmatched paths of the domain then get the default fallback)
                let child_anc_ok = if own_prefix { sg.fallback || (depth == 1 && DOMAIN_MODE.with(|d| d.get())) } else { anc_ok };
                scope(ch, p.is_some(), child_anc_ok, depth + 1, &np, seg_depth + extra_depth + 4, comps, taken, nest_counter, &mut regs);
                out.push(Reg::Nest { prefix: p, domain: None, bp: regs });
            }
        }
    }

    let mut bp: Vec<Reg> = vec![];
    if domains.is_empty() {
        scope(&g.root, true, true, 0, "", 0, &mut comps, &mut taken, &mut nest_counter, &mut bp);
        if g.root_fallback && !g.root.fallback {
            bp.push(Reg::Comp { idx: comps.len() });
            comps.push(CompSpec { kind: CompKind::Fallback, inputs: vec![], fallible: None, is_async: false, route: None, fw: vec![], gens: vec![] });
        }
    } else {
        // all-or-nothing: every route lives under a guarded top-level nest; only a fallback at the root
        let n_dom = 1 + (g.domains as usize % domains.len());
        let mut scopes: Vec<&ScopeGene> = vec![&g.root];
        scopes.extend(g.root.children.iter());
        for (i, d) in domains.iter().take(n_dom).enumerate() {
            let sg = scopes[i % scopes.len()];
            let mut regs = vec![];
            // each domain has its own path namespace
            let mut taken_d = Default::default();
            let leaf = ScopeGene { routes: sg.routes.clone(), fallback: sg.fallback, prefix_kind: 0, children: if i == 0 { sg.children.iter().take(1).cloned().collect() } else if i % 2 == 1 { sg.children.iter().take(3).cloned().collect() } else { vec![] } };
            DOMAIN_MODE.with(|d| d.set(true));
            scope(&leaf, true, false, 1, "", 0, &mut comps, &mut taken_d, &mut nest_counter, &mut regs);
            DOMAIN_MODE.with(|d| d.set(false));
            fn has_handler(regs: &[Reg], comps: &[CompSpec]) -> bool {
                regs.iter().any(|r| match r {
                    Reg::Comp { idx } => comps[*idx].kind == CompKind::Handler,
                    Reg::Nest { bp, .. } => has_handler(bp, comps),
                    _ => false,
                })
            }
            // every guarded blueprint registers at least one route *directly* (otherwise the
            // compiler takes the deepest common blueprint of the domain's components as the
            // domain's root, and an unrelated nested fallback serves the whole domain)
            // ... or holds at least two nested blueprints with routes (their common ancestor is the
            // guarded blueprint itself): then, half of the time, it has no route of its own
            let nested_with_routes = regs.iter().filter(|r| matches!(r, Reg::Nest { bp, .. } if has_handler(bp, &comps))).count();
            let may_stay_empty = nested_with_routes >= 2 && (g.domains as usize / 7 + i) % 2 == 0;
            if !may_stay_empty && !regs.iter().any(|r| matches!(r, Reg::Comp { idx } if comps[*idx].kind == CompKind::Handler)) {
                regs.insert(0, Reg::Comp { idx: comps.len() });
                comps.push(CompSpec {
                    kind: CompKind::Handler,
                    inputs: vec![],
                    fallible: None,
                    is_async: false,
                    route: Some(RouteSpec { methods: vec!["GET".into()], path: format!("/dz{i}"), path_param_fields: vec![], bulk: false }),
                    fw: vec![],
                    gens: vec![],
                });
            }
            bp.push(Reg::Nest { prefix: None, domain: Some(d.clone()), bp: regs });
        }
        if g.root_fallback {
            bp.push(Reg::Comp { idx: comps.len() });
            comps.push(CompSpec { kind: CompKind::Fallback, inputs: vec![], fallible: None, is_async: false, route: None, fw: vec![], gens: vec![] });
        }
    }
    if !comps.iter().any(|c| c.kind == CompKind::Handler) {
        bp.insert(0, Reg::Comp { idx: comps.len() });
        comps.push(CompSpec {
            kind: CompKind::Handler,
            inputs: vec![],
            fallible: None,
            is_async: false,
            route: Some(RouteSpec { methods: vec!["GET".into()], path: "/".into(), path_param_fields: vec![], bulk: false }),
            fw: vec![],
            gens: vec![],
        });
    }
    let mut spec = AppSpec { peel: false, types: vec![], n_errs: 0, comps, bp, note: if domains.is_empty() { "routing".into() } else { "routing+domains".into() } };
    // The path router (matchit) cannot hold every semantically conflict-free table and its verdict
    // depends on the insertion order: keep only tables it accepts in registration order *and* in
    // sorted order (the two orders the compiler and the generated code use), dropping routes from
    // the end until it does.
    while !matchit_accepts(&spec) {
        if !drop_last_route(&mut spec.bp) {
            break;
        }
    }
    spec
}

fn all_paths(spec: &AppSpec) -> Vec<(Option<String>, String)> {
    let mut v: Vec<(Option<String>, String)> = crate::model::routes(spec).into_iter().map(|r| (r.domain, r.full_path)).collect();
    for s in crate::model::scope_infos(spec) {
        if s.own_prefix && s.fallback.is_some() {
            v.push((s.domain.clone(), format!("{}{{*catch_all}}", s.full_prefix.trim_end_matches(|c| c != '/' && s.full_prefix.ends_with('}')))));
            v.push((s.domain, s.full_prefix));
        }
    }
    v
}

fn matchit_accepts(spec: &AppSpec) -> bool {
    let paths = all_paths(spec);
    let domains: std::collections::BTreeSet<Option<String>> = paths.iter().map(|p| p.0.clone()).collect();
    for d in domains {
        let mut mine: Vec<String> = paths.iter().filter(|p| p.0 == d).map(|p| p.1.clone()).collect();
        mine.dedup();
        for sorted in [false, true] {
            let mut v = mine.clone();
            if sorted {
                v.sort();
            }
            v.dedup();
            let mut r = matchit::Router::new();
            let mut seen = std::collections::BTreeSet::new();
            for p in v {
                if !seen.insert(p.clone()) {
                    continue;
                }
                if r.insert(p, ()).is_err() {
                    return false;
                }
            }
        }
    }
    true
}

fn drop_last_route(regs: &mut Vec<Reg>) -> bool {
    for i in (0..regs.len()).rev() {
        match &mut regs[i] {
            Reg::Nest { bp, .. } => {
                if drop_last_route(bp) {
                    return true;
                }
            }
            Reg::Comp { .. } => {
                regs.remove(i);
                return true;
            }
            _ => {}
        }
    }
    false
}

fn route_gene() -> impl Strategy<Value = RouteGene> {
    (prop::collection::vec(any::<u8>(), 0..=4), any::<u8>(), prop::bool::weighted(0.2))
        .prop_map(|(steps, methods, trailing_slash)| RouteGene { steps, methods, trailing_slash })
}

fn scope_gene() -> BoxedStrategy<ScopeGene> {
    let leaf = (prop::collection::vec(route_gene(), 0..=4), prop::bool::weighted(0.4), any::<u8>())
        .prop_map(|(routes, fallback, prefix_kind)| ScopeGene { routes, fallback, prefix_kind, children: vec![] });
    leaf.prop_recursive(3, 12, 3, |inner| {
        (prop::collection::vec(route_gene(), 0..=4), prop::bool::weighted(0.4), any::<u8>(), prop::collection::vec(inner, 0..=3))
            .prop_map(|(routes, fallback, prefix_kind, children)| ScopeGene { routes, fallback, prefix_kind, children })
    })
    .boxed()
}

pub fn routing_genome(with_domains: bool) -> impl Strategy<Value = RoutingGenome> {
    (scope_gene(), any::<u8>(), any::<bool>()).prop_map(move |(root, d, root_fallback)| RoutingGenome {
        root,
        domains: if with_domains { (d % 251) | 1 } else { 0 },
        root_fallback,
    })
}

// ------------------------------------------------------------------------------------------
// Planted rule violations (C08): exactly one mutation of a rule-abiding application
// ------------------------------------------------------------------------------------------

pub const RULES: &[&str] = &[
    "R1-missing-constructor",
    "R2-dependency-cycle",
    "R3-singleton-depends-on-request-scoped",
    "R4-singleton-registered-in-two-blueprints",
    "R5-runtime-singleton-not-send-sync",
    "R6-never-clone-singleton-taken-by-value",
    "R7-mut-ref-to-singleton",
    "R8-mut-ref-to-transient",
    "R9-mut-ref-to-clone-if-necessary-request-scoped",
    "R10-mut-ref-input-on-constructor",
    "R11-clone-if-necessary-on-non-clone-type",
    "R12-observer-needs-fallible-constructor",
    "R13-two-routes-match-the-same-request",
    "R14-path-param-field-not-in-template",
    "R15-overlapping-domain-guards",
];

/// The first 14 rules are the ones C08 lists; R15 belongs to C20 (overlapping domain guards are rejected).
pub const C08_RULES: usize = 14;

pub struct Planted {
    pub spec: AppSpec,
    pub what: String,
    pub nontrivial: bool,
}

/// Components that pavexc must analyse: they sit in the pipeline of at least one route (handler,
/// middleware chain, error observers), or they are the only error handler registered for an error
/// that one of those components (or a constructor they need) can return.
fn registered_comps(spec: &AppSpec) -> Vec<usize> {
    let mut v: Vec<usize> = vec![];
    for r in crate::model::routes(spec) {
        for c in std::iter::once(r.handler).chain(r.chain.iter().copied()).chain(r.observers.iter().copied()) {
            if !v.contains(&c) {
                v.push(c);
            }
        }
    }
    let mut registered = vec![];
    spec.walk_regs(&mut |r, _| {
        if let Reg::Comp { idx } = r {
            registered.push(*idx);
        }
    });
    loop {
        let mut errs: Vec<usize> = vec![];
        for c in &v {
            errs.extend(spec.comps[*c].fallible);
            for t in crate::model::closure(spec, &spec.comps[*c].inputs) {
                // (a singleton fails, if ever, before the server starts: no error handler involved)
                if spec.types[t].life != Life::Singleton {
                    errs.extend(spec.types[t].fallible);
                }
            }
        }
        let mut grew = false;
        for e in errs {
            let hs: Vec<usize> = registered.iter().copied().filter(|c| matches!(spec.comps[*c].kind, CompKind::ErrHandler { err, .. } if err == e)).collect();
            if hs.len() == 1 && !v.contains(&hs[0]) {
                v.push(hs[0]);
                grew = true;
            }
        }
        if !grew {
            break;
        }
    }
    v
}

/// Types needed (transitively) by some registered component, with the dependency depth at which
/// they are first needed (1 = direct input).
fn needed_types(spec: &AppSpec) -> Vec<(usize, usize)> {
    let mut depth: std::collections::BTreeMap<usize, usize> = Default::default();
    let mut frontier: Vec<(usize, usize)> = vec![];
    for c in registered_comps(spec) {
        for (t, _) in &spec.comps[c].inputs {
            frontier.push((*t, 1));
        }
    }
    while let Some((t, d)) = frontier.pop() {
        if depth.get(&t).is_some_and(|x| *x <= d) {
            continue;
        }
        depth.insert(t, d);
        for (j, _) in &spec.types[t].inputs {
            frontier.push((*j, d + 1));
        }
    }
    depth.into_iter().collect()
}

/// A fallible *transient* constructor whose error handler needs (directly or through other constructors) the very type
/// that constructor builds: every attempt to build the handler's input can fail and needs the handler again.
/// (Recorded finding of C09: the compiler unrolls this without end. The generators keep the shape out.)
pub fn transient_needed_by_own_error_handler(spec: &AppSpec) -> bool {
    fn reaches(spec: &AppSpec, from: usize, to: usize, seen: &mut Vec<usize>) -> bool {
        if from == to {
            return true;
        }
        if seen.contains(&from) {
            return false;
        }
        seen.push(from);
        spec.types[from].inputs.iter().any(|(j, _)| reaches(spec, *j, to, seen))
    }
    for (x, tx) in spec.types.iter().enumerate() {
        if tx.life != Life::Transient || !tx.any_variant_fallible() {
            continue;
        }
        for (ci, c) in spec.comps.iter().enumerate() {
            let CompKind::ErrHandler { err, .. } = &c.kind else { continue };
            let handles = tx.specific_eh == Some(ci) || (0..tx.variants.max(1)).any(|v| tx.fallible_of(v) == Some(*err)) || *err == crate::spec::FALLBACK_ERR;
            if handles && c.inputs.iter().any(|(t, _)| reaches(spec, *t, x, &mut vec![])) {
                return true;
            }
        }
    }
    false
}

fn remove_ctor_regs(regs: &mut Vec<Reg>, ty: usize) {
    regs.retain(|r| !matches!(r, Reg::Ctor { ty: t, .. } if *t == ty));
    for r in regs.iter_mut() {
        if let Reg::Nest { bp, .. } = r {
            remove_ctor_regs(bp, ty);
        }
    }
}

fn depends_on(spec: &AppSpec, a: usize, b: usize) -> bool {
    crate::model::closure(spec, &spec.types[a].inputs).contains(&b)
}

pub fn plant(base: &AppSpec, rule: usize, raw: u16) -> Option<Planted> {
    let mut spec = base.clone();
    let needed = needed_types(&spec);
    let comps = registered_comps(&spec);
    let choose = |n: usize| pick(raw, n);
    let name = RULES[rule % RULES.len()];
    let mut nontrivial = false;
    let what: String;
    match rule % RULES.len() {
        0 => {
            if needed.is_empty() {
                return None;
            }
            let (t, d) = needed[choose(needed.len())];
            remove_ctor_regs(&mut spec.bp, t);
            nontrivial = d >= 2;
            what = format!("removed every registration of the constructor of T{t} (needed at dependency depth {d})");
        }
        1 => {
            // j depends on i (i < j): make i depend on j as well
            let pairs: Vec<(usize, usize)> = needed
                .iter()
                .flat_map(|(j, _)| spec.types[*j].inputs.iter().map(move |(i, _)| (*i, *j)))
                .filter(|(i, j)| {
                    let (a, b) = (&spec.types[*i], &spec.types[*j]);
                    (a.life == Life::Singleton) == (b.life == Life::Singleton)
                })
                .collect();
            if pairs.is_empty() {
                return None;
            }
            let (i, j) = pairs[choose(pairs.len())];
            spec.types[i].inputs.push((j, Mode::Ref));
            nontrivial = needed.iter().find(|(t, _)| *t == j).is_some_and(|(_, d)| *d >= 2);
            what = format!("T{i} now also needs &T{j}, which needs T{i}: a dependency cycle");
        }
        2 if raw % 3 == 0 => {
            // the same rule through a generic constructor: a singleton wrapper instantiated with a request-scoped type
            let reqs: Vec<usize> = (0..spec.types.len()).filter(|t| spec.types[*t].life == Life::Request && spec.bp.iter().any(|r| matches!(r, Reg::Ctor { ty, .. } if ty == t))).collect();
            let sites: Vec<usize> = comps.iter().copied().filter(|c| matches!(spec.comps[*c].kind, CompKind::Handler | CompKind::Pre | CompKind::Post | CompKind::Wrap)).collect();
            if reqs.is_empty() || sites.is_empty() {
                return None;
            }
            let r = reqs[choose(reqs.len())];
            let c = sites[(raw as usize / 3) % sites.len()];
            spec.comps[c].gens.push((0, r));
            nontrivial = true;
            what = format!("component x{c} now needs &GS<T{r}>: the generic singleton constructor g_s<T>(&T) instantiated with the request-scoped T{r}");
        }
        2 => {
            let singles: Vec<usize> = needed.iter().map(|(t, _)| *t).filter(|t| spec.types[*t].life == Life::Singleton).collect();
            let reqs: Vec<usize> = (0..spec.types.len()).filter(|t| spec.types[*t].life == Life::Request && spec.types[*t].variants == 1).collect();
            let mut pairs = vec![];
            for s in &singles {
                for r in &reqs {
                    if !depends_on(&spec, *r, *s) {
                        pairs.push((*s, *r));
                    }
                }
            }
            if pairs.is_empty() {
                return None;
            }
            let (s, r) = pairs[choose(pairs.len())];
            spec.types[s].inputs.push((r, Mode::Ref));
            nontrivial = needed.iter().find(|(t, _)| *t == s).is_some_and(|(_, d)| *d >= 2);
            what = format!("singleton T{s} now takes the request-scoped &T{r}");
        }
        3 if raw % 3 == 0 => {
            // the same rule for a *generic* singleton constructor: registered in the root blueprint and again in a
            // nested one, instantiated with different types in the two blueprints
            let singles: Vec<usize> = (0..spec.types.len()).filter(|t| spec.types[*t].life == Life::Singleton && spec.types[*t].view_of.is_none() && spec.bp.iter().any(|r| matches!(r, Reg::Ctor { ty, .. } if ty == t))).collect();
            if singles.len() < 2 {
                return None;
            }
            let a = singles[choose(singles.len())];
            let b = *singles.iter().find(|t| **t != a)?;
            let direct = |bp: &Vec<Reg>, spec: &AppSpec| bp.iter().filter_map(|x| if let Reg::Comp { idx } = x { Some(*idx) } else { None }).find(|c| spec.comps[*c].kind == CompKind::Handler && !spec.comps[*c].route.as_ref().is_some_and(|r| r.bulk));
            let root_h = direct(&spec.bp, &spec)?;
            let mut ni = spec.bp.iter().position(|r| matches!(r, Reg::Nest { bp, .. } if direct(bp, &spec).is_some()));
            if ni.is_none() {
                // move another root route into a nest
                let pos = spec.bp.iter().rposition(|r| matches!(r, Reg::Comp { idx } if *idx != root_h && spec.comps[*idx].kind == CompKind::Handler && !spec.comps[*idx].route.as_ref().is_some_and(|r| r.bulk)))?;
                let r = spec.bp.remove(pos);
                spec.bp.push(Reg::Nest { prefix: Some("/planted".into()), domain: None, bp: vec![r] });
                ni = Some(spec.bp.len() - 1);
            }
            let ni = ni?;
            let nested_h = if let Reg::Nest { bp, .. } = &spec.bp[ni] { direct(bp, &spec)? } else { return None };
            // no other use of the singleton wrapper anywhere
            for c in spec.comps.iter_mut() {
                c.gens.retain(|(k, _)| *k % 4 != 0);
            }
            spec.comps[root_h].gens.push((0, a));
            spec.comps[nested_h].gens.push((0, b));
            if let Reg::Nest { bp, .. } = &mut spec.bp[ni] {
                bp.insert(0, Reg::Gen { kind: 0, concrete_for: None });
            }
            spec.bp.insert(0, Reg::Gen { kind: 0, concrete_for: None });
            nontrivial = true;
            what = format!("the generic singleton constructor g_s<T> is registered in the root blueprint (used there as GS<T{a}>) and again in a nested blueprint (used there as GS<T{b}>)");
        }
        3 => {
            let singles: Vec<usize> = needed.iter().map(|(t, _)| *t).filter(|t| spec.types[*t].life == Life::Singleton).collect();
            if singles.is_empty() {
                return None;
            }
            let s = singles[choose(singles.len())];
            // register it again inside a nested blueprint that holds a route
            fn first_nest(regs: &mut Vec<Reg>) -> Option<&mut Vec<Reg>> {
                for r in regs.iter_mut() {
                    if let Reg::Nest { bp, .. } = r {
                        return Some(bp);
                    }
                }
                None
            }
            if first_nest(&mut spec.bp).is_none() {
                // wrap the last route into a nest
                let pos = spec.bp.iter().rposition(|r| matches!(r, Reg::Comp { idx } if spec.comps[*idx].kind == CompKind::Handler))?;
                let r = spec.bp.remove(pos);
                spec.bp.push(Reg::Nest { prefix: Some("/planted".into()), domain: None, bp: vec![r] });
            }
            let nb = first_nest(&mut spec.bp)?;
            nb.insert(0, Reg::Ctor { ty: s, variant: 0 });
            nontrivial = true;
            what = format!("singleton T{s} is registered in the root blueprint and again in a nested blueprint");
        }
        4 => {
            // only singletons that live in the application state: direct inputs of request-time
            // components or of non-singleton constructors
            let mut runtime: Vec<usize> = comps.iter().flat_map(|c| spec.comps[*c].inputs.iter().map(|(t, _)| *t)).collect();
            for (t, _) in &needed {
                if spec.types[*t].life != Life::Singleton {
                    runtime.extend(spec.types[*t].inputs.iter().map(|(j, _)| *j));
                }
            }
            let singles: Vec<usize> = needed.iter().map(|(t, _)| *t).filter(|t| runtime.contains(t) && spec.types[*t].life == Life::Singleton && !spec.types[*t].is_copy).collect();
            if singles.is_empty() {
                return None;
            }
            let s = singles[choose(singles.len())];
            spec.types[s].send_sync = false;
            nontrivial = needed.iter().find(|(t, _)| *t == s).is_some_and(|(_, d)| *d >= 2);
            what = format!("singleton T{s} (needed while serving requests) is no longer Send + Sync");
        }
        5 if raw % 4 == 1 => {
            // a brand-new never-clone singleton (its type implements Clone) that a single component takes by value
            let cands: Vec<usize> = comps.iter().copied().filter(|c| matches!(spec.comps[*c].kind, CompKind::Handler | CompKind::Pre | CompKind::Post | CompKind::Wrap)).collect();
            let wraps: Vec<usize> = cands.iter().copied().filter(|c| spec.comps[*c].kind == CompKind::Wrap).collect();
            if cands.is_empty() {
                return None;
            }
            let c = if !wraps.is_empty() && raw % 8 == 1 { wraps[choose(wraps.len())] } else { cands[choose(cands.len())] };
            let t = spec.types.len();
            spec.types.push(TypeSpec {
                life: Life::Singleton,
                is_clone: true,
                is_copy: false,
                clone_if_necessary: if raw % 16 < 8 { None } else { Some(false) },
                inputs: vec![],
                fallible: None,
                is_async: false,
                variants: 1,
                send_sync: true,
                prebuilt: false,
                attr_life: None,
                attr_clone: None,
                allow_unused: false,
                v1_flip: false,
                view_of: None,
                specific_eh: None,
                imported: false,
            });
            spec.bp.insert(0, Reg::Ctor { ty: t, variant: 0 });
            spec.comps[c].inputs.push((t, Mode::Move));
            nontrivial = spec.comps[c].kind != CompKind::Handler;
            what = format!("component x{c} takes the new never-clone singleton T{t} by value (nothing else uses it)");
        }
        5 | 6 | 7 | 8 => {
            // change how one request-time component takes a value
            let want = |t: &TypeSpec| match rule % RULES.len() {
                5 => t.life == Life::Singleton && !t.is_copy && t.clone_if_necessary != Some(true),
                6 => t.life == Life::Singleton,
                7 => t.life == Life::Transient,
                _ => t.life == Life::Request && t.clone_if_necessary == Some(true) && !t.is_copy,
            };
            let mut sites = vec![];
            for c in &comps {
                if !matches!(spec.comps[*c].kind, CompKind::Handler | CompKind::Pre | CompKind::Post | CompKind::Wrap) {
                    continue;
                }
                for (ii, (t, m)) in spec.comps[*c].inputs.iter().enumerate() {
                    if want(&spec.types[*t]) && *m == Mode::Ref {
                        sites.push((*c, ii, *t));
                    }
                }
            }
            if sites.is_empty() {
                // no component takes such a value yet: give one to a handler (only types whose
                // constructor is registered in the root blueprint, so that it is in scope)
                let root_visible: Vec<usize> = spec.bp.iter().filter_map(|r| if let Reg::Ctor { ty, .. } = r { Some(*ty) } else { None }).collect();
                let mut adds = vec![];
                for c in &comps {
                    if spec.comps[*c].kind != CompKind::Handler {
                        continue;
                    }
                    for t in &root_visible {
                        if want(&spec.types[*t]) && !spec.comps[*c].inputs.iter().any(|(x, _)| x == t) && !adds.contains(&(*c, *t)) {
                            adds.push((*c, *t));
                        }
                    }
                }
                if adds.is_empty() {
                    return None;
                }
                let (c, t) = adds[choose(adds.len())];
                spec.comps[c].inputs.push((t, Mode::Ref));
                sites.push((c, spec.comps[c].inputs.len() - 1, t));
            }
            // wrapping middlewares are bound copies of the registered component inside the compiler: prefer them half of the time
            let wrap_sites: Vec<(usize, usize, usize)> = sites.iter().copied().filter(|(c, _, _)| spec.comps[*c].kind == CompKind::Wrap).collect();
            let (c, ii, t) = if !wrap_sites.is_empty() && raw % 2 == 0 { wrap_sites[choose(wrap_sites.len())] } else { sites[choose(sites.len())] };
            spec.comps[c].inputs[ii].1 = if rule % RULES.len() == 5 { Mode::Move } else { Mode::Mut };
            if rule % RULES.len() == 5 && raw % 4 < 2 {
                // the type may well implement Clone: what counts is that it is not registered clone-if-necessary
                spec.types[t].is_clone = true;
            }
            nontrivial = !matches!(spec.comps[c].kind, CompKind::Handler);
            what = format!("component x{c} now takes T{t} as {:?}", spec.comps[c].inputs[ii].1);
        }
        9 => {
            let cands: Vec<(usize, usize)> = needed
                .iter()
                .flat_map(|(t, _)| spec.types[*t].inputs.iter().enumerate().filter(|(_, (_, m))| *m == Mode::Ref).map(move |(ii, _)| (*t, ii)))
                .collect();
            if cands.is_empty() {
                return None;
            }
            let (t, ii) = cands[choose(cands.len())];
            spec.types[t].inputs[ii].1 = Mode::Mut;
            nontrivial = needed.iter().find(|(x, _)| *x == t).is_some_and(|(_, d)| *d >= 2);
            what = format!("the constructor of T{t} now takes a `&mut` input");
        }
        10 => {
            let cands: Vec<usize> = needed.iter().map(|(t, _)| *t).filter(|t| !spec.types[*t].is_clone && !spec.types[*t].is_copy && spec.types[*t].clone_if_necessary == Some(false)).collect();
            if cands.is_empty() {
                return None;
            }
            let t = cands[choose(cands.len())];
            spec.types[t].clone_if_necessary = Some(true);
            nontrivial = needed.iter().find(|(x, _)| *x == t).is_some_and(|(_, d)| *d >= 2);
            what = format!("T{t} is registered clone-if-necessary but does not implement Clone");
        }
        11 if raw % 3 == 0 => {
            // the same rule across scopes: an observer registered in the root blueprint borrows a value whose
            // constructor is infallible there, and a nested blueprint (with a route that the observer
            // applies to) registers a *fallible* constructor for the same type
            let obs_root: Vec<usize> = spec
                .bp
                .iter()
                .filter_map(|r| match r {
                    Reg::Comp { idx } if spec.comps[*idx].kind == CompKind::Observer => Some(*idx),
                    _ => None,
                })
                .collect();
            let cands: Vec<usize> = (0..spec.types.len())
                .filter(|t| {
                    let ty = &spec.types[*t];
                    ty.life == Life::Request && ty.variants == 1 && ty.fallible.is_none() && !ty.prebuilt && ty.view_of.is_none() && !crate::model::closure(&spec, &ty.inputs).iter().any(|u| spec.types[*u].fallible.is_some() && spec.types[*u].life != Life::Singleton)
                        && !spec.comps.iter().any(|c| c.inputs.iter().any(|(x, m)| x == t && *m != Mode::Ref))
                        && !spec.types.iter().any(|u| u.inputs.iter().any(|(x, m)| x == t && *m != Mode::Ref))
                })
                .collect();
            if cands.is_empty() || spec.n_errs == 0 {
                return None;
            }
            let t = cands[(raw as usize / 3) % cands.len()];
            // a nested blueprint that holds a route directly (made from the last root route if there is none)
            let has_route = |bp: &Vec<Reg>, spec: &AppSpec| bp.iter().any(|x| matches!(x, Reg::Comp { idx } if spec.comps[*idx].kind == CompKind::Handler));
            let mut ni = spec.bp.iter().rposition(|r| matches!(r, Reg::Nest { bp, .. } if has_route(bp, &spec)));
            if ni.is_none() {
                let pos = spec.bp.iter().rposition(|r| matches!(r, Reg::Comp { idx } if spec.comps[*idx].kind == CompKind::Handler && !spec.comps[*idx].route.as_ref().is_some_and(|r| r.bulk)))?;
                let r = spec.bp.remove(pos);
                spec.bp.push(Reg::Nest { prefix: Some("/planted".into()), domain: None, bp: vec![r] });
                ni = Some(spec.bp.len() - 1);
            }
            let ni = ni?;
            // an observer registered in the root blueprint before that nest (a new one if there is none)
            let o = match obs_root.iter().copied().find(|o| spec.bp.iter().position(|r| matches!(r, Reg::Comp { idx } if idx == o)).is_some_and(|p| p < ni)) {
                Some(o) => o,
                None => {
                    let o = spec.comps.len();
                    spec.comps.push(CompSpec { kind: CompKind::Observer, inputs: vec![], fallible: None, is_async: false, route: None, fw: vec![], gens: vec![] });
                    spec.bp.insert(ni, Reg::Comp { idx: o });
                    o
                }
            };
            let ni = spec.bp.iter().rposition(|r| matches!(r, Reg::Nest { bp, .. } if has_route(bp, &spec)))?;
            spec.types[t].variants = 2;
            spec.types[t].v1_flip = true;
            let mut nested_handlers = vec![];
            if let Reg::Nest { bp, .. } = &mut spec.bp[ni] {
                bp.insert(0, Reg::Ctor { ty: t, variant: 1 });
                nested_handlers = bp.iter().filter_map(|x| if let Reg::Comp { idx } = x { Some(*idx) } else { None }).collect();
            }
            // the observer does run for the routes of that blueprint: their handlers can fail
            for h in nested_handlers {
                if spec.comps[h].kind == CompKind::Handler && spec.comps[h].fallible.is_none() {
                    spec.comps[h].fallible = Some(0);
                }
            }
            if !spec.comps[o].inputs.iter().any(|(x, _)| *x == t) {
                spec.comps[o].inputs.push((t, Mode::Ref));
            }
            nontrivial = true;
            what = format!("error observer x{o} (root blueprint) borrows T{t}; a nested blueprint with a route registers a fallible constructor for T{t}");
        }
        11 => {
            let obs: Vec<usize> = comps.iter().copied().filter(|c| spec.comps[*c].kind == CompKind::Observer).collect();
            let fall: Vec<usize> = (0..spec.types.len())
                .filter(|t| {
                    // (a fallible *singleton* does not count: it is built before the server starts)
                    spec.types[*t].variants == 1
                        && (spec.types[*t].fallible.is_some() || crate::model::closure(&spec, &spec.types[*t].inputs).iter().any(|u| spec.types[*u].fallible.is_some() && spec.types[*u].life != Life::Singleton))
                })
                .filter(|t| spec.types[*t].life != Life::Singleton)
                .collect();
            if obs.is_empty() || fall.is_empty() {
                return None;
            }
            let o = obs[choose(obs.len())];
            let t = fall[(raw as usize / 7) % fall.len()];
            // only by reference, and only borrow-safe (the value may be move-once elsewhere: use a
            // type that nobody moves)
            let moved = |t: usize| spec.comps.iter().any(|c| c.inputs.iter().any(|(x, m)| *x == t && *m == Mode::Move)) || spec.types.iter().any(|ty| ty.inputs.iter().any(|(x, m)| *x == t && *m == Mode::Move));
            let t = if moved(t) { fall.iter().copied().find(|x| !moved(*x))? } else { t };
            spec.comps[o].inputs.push((t, Mode::Ref));
            nontrivial = spec.types[t].fallible.is_none();
            what = format!("error observer x{o} now needs &T{t}, whose construction can fail ({})", if spec.types[t].fallible.is_some() { "directly" } else { "transitively" });
        }
        12 => {
            let hs: Vec<usize> = comps.iter().copied().filter(|c| spec.comps[*c].kind == CompKind::Handler).collect();
            if hs.is_empty() {
                return None;
            }
            let h = hs[choose(hs.len())];
            // a twin handler with the same path and an overlapping method, registered right after
            let mut twin = spec.comps[h].clone();
            twin.inputs.clear();
            twin.fallible = None;
            if let Some(r) = twin.route.as_mut() {
                if raw % 2 == 0 && !r.methods.is_empty() {
                    r.methods = vec![r.methods[0].clone()];
                } else {
                    r.methods = vec![]; // ANY vs specific
                }
            }
            let idx = spec.comps.len();
            spec.comps.push(twin);
            fn insert_after(regs: &mut Vec<Reg>, h: usize, idx: usize) -> bool {
                for i in 0..regs.len() {
                    match &mut regs[i] {
                        Reg::Comp { idx: c } if *c == h => {
                            regs.insert(i + 1, Reg::Comp { idx });
                            return true;
                        }
                        Reg::Nest { bp, .. } => {
                            if insert_after(bp, h, idx) {
                                return true;
                            }
                        }
                        _ => {}
                    }
                }
                false
            }
            insert_after(&mut spec.bp, h, idx);
            nontrivial = crate::model::routes(&spec).iter().any(|r| r.handler == h && r.nest_depth >= 1);
            what = format!("a second handler x{idx} answers the same path as x{h} with an overlapping method guard");
        }
        14 => {
            // every route moves below a domain guard; a second guarded blueprint's guard can match the same hosts
            // (same shape with another parameter name, or a catch-all where the first has a parameter); the second
            // blueprint holds a route, or - half of the time - nothing but a fallback
            let mut root: Vec<Reg> = vec![];
            let mut routed: Vec<Reg> = vec![];
            for r in spec.bp.drain(..) {
                match &r {
                    Reg::Comp { idx } if matches!(spec.comps[*idx].kind, CompKind::Handler | CompKind::Fallback) => routed.push(r),
                    Reg::Nest { .. } => routed.push(r),
                    _ => root.push(r),
                }
            }
            fn strip_domains(regs: &mut Vec<Reg>) {
                for r in regs.iter_mut() {
                    if let Reg::Nest { domain, bp, .. } = r {
                        *domain = None;
                        strip_domains(bp);
                    }
                }
            }
            strip_domains(&mut routed);
            if routed.is_empty() {
                return None;
            }
            let (g1, g2) = match raw % 3 {
                0 => ("{sub}.ov.test", "{other}.ov.test"),
                1 => ("{sub}.ov.test", "{*any}.ov.test"),
                _ => ("{*rest}.api.ov.test", "{*more}.api.ov.test"),
            };
            let only_fallback = (raw / 3) % 2 == 0;
            let extra = spec.comps.len();
            if only_fallback {
                spec.comps.push(CompSpec { kind: CompKind::Fallback, inputs: vec![], fallible: None, is_async: false, route: None, fw: vec![], gens: vec![] });
            } else {
                spec.comps.push(CompSpec {
                    kind: CompKind::Handler,
                    inputs: vec![],
                    fallible: None,
                    is_async: false,
                    route: Some(RouteSpec { methods: vec!["GET".into()], path: "/ov".into(), path_param_fields: vec![], bulk: false }),
                    fw: vec![],
                    gens: vec![],
                });
            }
            root.push(Reg::Nest { prefix: None, domain: Some(g1.to_string()), bp: routed });
            root.push(Reg::Nest { prefix: None, domain: Some(g2.to_string()), bp: vec![Reg::Comp { idx: extra }] });
            spec.bp = root;
            nontrivial = only_fallback;
            what = format!("all routes are guarded by `{g1}`; a second blueprint guarded by `{g2}` (which can match the same hosts) holds {}", if only_fallback { "nothing but a fallback" } else { "a route" });
        }
        _ if raw % 4 == 1 => {
            // the same rule for a middleware: it asks for typed path parameters with a field that none of
            // the routes it applies to has in its template
            let mws: Vec<usize> = comps.iter().copied().filter(|c| matches!(spec.comps[*c].kind, CompKind::Pre | CompKind::Post | CompKind::Wrap)).collect();
            let wraps: Vec<usize> = mws.iter().copied().filter(|c| spec.comps[*c].kind == CompKind::Wrap).collect();
            if mws.is_empty() {
                return None;
            }
            let m = if !wraps.is_empty() && raw % 8 == 1 { wraps[choose(wraps.len())] } else { mws[choose(mws.len())] };
            spec.comps[m].route = Some(RouteSpec { methods: vec![], path: String::new(), path_param_fields: vec!["not_in_template".into()], bulk: false });
            nontrivial = true;
            what = format!("middleware x{m} ({:?}) asks for PathParams with a field that is in no route template", spec.comps[m].kind);
        }
        _ if raw % 4 == 2 && comps.iter().filter(|c| spec.comps[**c].kind == CompKind::Handler && !spec.comps[**c].route.as_ref().is_some_and(|r| r.path.contains('{'))).count() >= 2 => {
            // one parameter struct shared by two routes: one template has the field, the other has not
            let hs: Vec<usize> = comps.iter().copied().filter(|c| spec.comps[*c].kind == CompKind::Handler && !spec.comps[*c].route.as_ref().is_some_and(|r| r.path.contains('{'))).collect();
            let a = choose(hs.len());
            let b = (a + 1 + choose(hs.len() - 1)) % hs.len();
            let (good, bad) = (hs[a], hs[b]);
            let r = spec.comps[good].route.as_mut()?;
            r.path = format!("{}/{{shared}}", r.path.trim_end_matches('/'));
            r.path_param_fields = vec!["shared".into()];
            spec.comps[bad].route.as_mut()?.path_param_fields = vec!["shared".into()];
            nontrivial = true;
            what = format!("handlers x{good} and x{bad} share one PathParams struct; its field is in the template of x{good} only");
        }
        _ => {
            let hs: Vec<usize> = comps.iter().copied().filter(|c| spec.comps[*c].kind == CompKind::Handler).collect();
            if hs.is_empty() {
                return None;
            }
            let h = hs[choose(hs.len())];
            let r = spec.comps[h].route.as_mut()?;
            if raw % 3 != 0 && !r.path.contains('{') {
                // a template with one parameter; the struct asks for that one and for another
                r.path = format!("{}/{{pid}}", r.path.trim_end_matches('/'));
                r.path_param_fields = vec!["pid".into(), "not_in_template".into()];
            } else {
                r.path_param_fields = vec!["not_in_template".into()];
            }
            nontrivial = crate::model::routes(&spec).iter().any(|r| r.handler == h && r.nest_depth >= 1);
            what = format!("handler x{h} asks for PathParams with a field that is not in its route template");
        }
    }
    spec.note = format!("planted {name}: {what}");
    Some(Planted { spec, what: format!("{name}: {what}"), nontrivial })
}

// ------------------------------------------------------------------------------------------
// C19(b): the same application, with some properties written differently: the attribute says one
// thing and the registration overrides it with the effective value; unused constructors with
// and without `allow(unused)`
// ------------------------------------------------------------------------------------------

pub struct Styled {
    pub spec: AppSpec,
    /// (type index, allow_unused) of the extra constructors nobody needs
    pub unused: Vec<(usize, bool)>,
    pub n_overrides: usize,
}

pub fn apply_attr_styles(base: &AppSpec, raw: u64) -> Styled {
    let mut spec = base.clone();
    let mut s = raw | 1;
    let mut next = move || {
        s ^= s << 13;
        s ^= s >> 7;
        s ^= s << 17;
        (s >> 11) as usize
    };
    let mut n_overrides = 0;
    for t in spec.types.iter_mut() {
        if t.prebuilt || t.imported {
            continue;
        }
        if next() % 3 == 0 {
            let others: Vec<Life> = [Life::Singleton, Life::Request, Life::Transient].into_iter().filter(|l| *l != t.life).collect();
            t.attr_life = Some(others[next() % 2]);
            n_overrides += 1;
        }
        if t.life != Life::Transient && t.clone_if_necessary.is_some() && next() % 3 == 0 {
            let mut options = vec!["never_clone", ""];
            if t.is_clone {
                options.push("clone_if_necessary");
            }
            t.attr_clone = Some(options[next() % options.len()].to_string());
            n_overrides += 1;
        }
    }
    let mut unused = vec![];
    for _ in 0..(1 + next() % 2) {
        let allow = next() % 2 == 0;
        let i = spec.types.len();
        spec.types.push(TypeSpec {
            life: if next() % 2 == 0 { Life::Request } else { Life::Singleton },
            is_clone: false,
            is_copy: false,
            clone_if_necessary: None,
            inputs: vec![],
            fallible: None,
            is_async: false,
            variants: 1,
            send_sync: true,
            prebuilt: false,
            attr_life: None,
            attr_clone: None,
            allow_unused: allow,
            v1_flip: false,
            view_of: None,
            specific_eh: None,
            imported: false,
        });
        spec.bp.insert(0, Reg::Ctor { ty: i, variant: 0 });
        unused.push((i, allow));
    }
    spec.note = format!("{} + attribute styles ({n_overrides} overridden at registration, {} unused constructors)", base.note, unused.len());
    Styled { spec, unused, n_overrides }
}

// ------------------------------------------------------------------------------------------
// Stage stress: many middlewares of one stage (and across stages) sharing the same values with
// every by-value / by-reference pattern. Everything here is allowed by the documented rules: the
// shared values are clone-if-necessary (or Copy), so any number of consumers may take them.
// ------------------------------------------------------------------------------------------

pub fn build_stage_stress(raw: u64) -> AppSpec {
    let mut s = raw | 1;
    let mut next = move || {
        s ^= s << 13;
        s ^= s >> 7;
        s ^= s << 17;
        (s >> 9) as usize
    };
    let mk_type = |life: Life, copy: bool| TypeSpec {
        life,
        is_clone: !copy,
        is_copy: copy,
        clone_if_necessary: if copy { None } else { Some(true) },
        inputs: vec![],
        fallible: None,
        is_async: false,
        variants: 1,
        send_sync: true,
        prebuilt: false,
        attr_life: None,
        attr_clone: None,
        allow_unused: false,
        v1_flip: false,
        view_of: None,
        specific_eh: None,
        imported: false,
    };
    // T0: request-scoped clone-if-necessary; T1: singleton clone-if-necessary; T2: request-scoped Copy; T3: transient built from &T0
    let mut types = vec![mk_type(Life::Request, false), mk_type(Life::Singleton, false), mk_type(Life::Request, true)];
    let mut t3 = mk_type(Life::Transient, false);
    t3.clone_if_necessary = None;
    t3.inputs = vec![(0, Mode::Ref)];
    types.push(t3);
    // T4: request-scoped, never cloned, built from a transient taken by value: only ever borrowed
    let mut t4 = mk_type(Life::Request, false);
    t4.is_clone = false;
    t4.clone_if_necessary = None;
    t4.inputs = vec![(3, Mode::Move)];
    types.push(t4);
    let mut comps: Vec<CompSpec> = vec![];
    let mut bp: Vec<Reg> = (0..types.len()).map(|t| Reg::Ctor { ty: t, variant: 0 }).collect();
    // the error path shares values with the happy path: an error handler and an observer that borrow
    let with_errors = next() % 2 == 0;
    if with_errors {
        let eh_inputs = if next() % 2 == 0 { vec![(4, Mode::Ref)] } else { vec![(1, Mode::Ref)] };
        bp.push(Reg::Comp { idx: comps.len() });
        comps.push(CompSpec { kind: CompKind::ErrHandler { err: 0, default: false }, inputs: eh_inputs, fallible: None, is_async: false, route: None, fw: vec![], gens: vec![] });
        let obs_inputs = match next() % 3 {
            0 => vec![(4, Mode::Ref)],
            1 => vec![(4, Mode::Ref), (0, Mode::Ref)],
            _ => vec![(2, Mode::Ref)],
        };
        bp.push(Reg::Comp { idx: comps.len() });
        comps.push(CompSpec { kind: CompKind::Observer, inputs: obs_inputs, fallible: None, is_async: false, route: None, fw: vec![], gens: vec![] });
    }
    // a third of the applications have a long chain (12-20 middlewares, nearly all of one kind: two-digit positions within one stage)
    let long = next() % 3 == 0;
    let long_kind = next() % 2;
    let n_mw = if long { 12 + next() % 9 } else { 3 + next() % 5 };
    // (half of the long chains inject nothing: whatever happens to their order, the generated code still compiles)
    let bare = long && next() % 2 == 0;
    let mut inputs_for = |next: &mut dyn FnMut() -> usize| {
        let mut v = vec![];
        for t in 0..3usize {
            match next() % 4 {
                0 => {}
                1 | 2 => v.push((t, Mode::Ref)),
                _ => v.push((t, Mode::Move)),
            }
        }
        if next() % 4 == 0 {
            v.push((3, if next() % 2 == 0 { Mode::Move } else { Mode::Ref }));
        }
        if next() % 2 == 0 {
            v.push((4, Mode::Ref));
        }
        // the value under stress is (almost) always there
        if !v.iter().any(|(t, _)| *t == 0) && next() % 4 != 0 {
            v.push((0, if next() % 2 == 0 { Mode::Move } else { Mode::Ref }));
        }
        v
    };
    for _ in 0..n_mw {
        let kind = match next() % 7 {
            _ if long && next() % 12 != 0 => if long_kind == 0 { CompKind::Pre } else { CompKind::Post },
            0 | 1 | 2 => CompKind::Pre,
            3 | 4 | 5 => CompKind::Post,
            _ => CompKind::Wrap,
        };
        let is_async = kind == CompKind::Wrap || next() % 3 == 0;
        let inputs = if bare || (long && next() % 3 != 0) { vec![] } else { inputs_for(&mut next) };
        let fallible = if with_errors && next() % 3 == 0 { Some(0) } else { None };
        bp.push(Reg::Comp { idx: comps.len() });
        comps.push(CompSpec { kind, inputs, fallible, is_async, route: None, fw: vec![], gens: vec![] });
    }
    let n_h = 1 + next() % 2;
    for h in 0..n_h {
        let inputs = inputs_for(&mut next);
        let fallible = if with_errors && next() % 2 == 0 { Some(0) } else { None };
        bp.push(Reg::Comp { idx: comps.len() });
        comps.push(CompSpec {
            kind: CompKind::Handler,
            inputs,
            fallible,
            is_async: next() % 2 == 0,
            route: Some(RouteSpec { methods: vec!["GET".into()], path: format!("/h{h}"), path_param_fields: vec![], bulk: false }),
            fw: vec![],
            gens: vec![],
        });
        // sometimes more middlewares between the routes
        if h + 1 < n_h && next() % 2 == 0 {
            let kind = if next() % 2 == 0 { CompKind::Pre } else { CompKind::Post };
            let inputs = inputs_for(&mut next);
            bp.push(Reg::Comp { idx: comps.len() });
            comps.push(CompSpec { kind, inputs, fallible: None, is_async: false, route: None, fw: vec![], gens: vec![] });
        }
    }
    AppSpec { peel: false, types, n_errs: if with_errors { 1 } else { 0 }, comps, bp, note: "abiding (stage stress)".into() }
}

// ------------------------------------------------------------------------------------------
// Naming stress (C10): several fallible singletons whose constructors share a function name
// (`cs<i>_0::build`) and fail with different error types, consumed by a few routes. Names of
// generated items (application-state fields, error variants, bindings) must not depend on the
// iteration order of hash maps.
// ------------------------------------------------------------------------------------------

pub fn build_naming_stress(raw: u64) -> AppSpec {
    let mut s = raw | 1;
    let mut next = move || {
        s ^= s << 13;
        s ^= s >> 7;
        s ^= s << 17;
        (s >> 9) as usize
    };
    let n_single = 3 + next() % 4;
    let mut types = vec![];
    for i in 0..n_single {
        types.push(TypeSpec {
            life: Life::Singleton,
            is_clone: i % 2 == 0,
            is_copy: false,
            clone_if_necessary: if i % 2 == 0 { Some(true) } else { None },
            inputs: if i > 0 && next() % 3 == 0 { vec![(next() % i, Mode::Ref)] } else { vec![] },
            fallible: if i + 1 == n_single && next() % 2 == 0 { None } else { Some(i) },
            is_async: next() % 3 == 0,
            variants: 1,
            send_sync: true,
            prebuilt: false,
            attr_life: None,
            attr_clone: None,
            allow_unused: false,
            v1_flip: false,
            view_of: None,
            specific_eh: None,
            imported: false,
        });
    }
    let n_errs = n_single;
    let mut comps = vec![];
    let mut bp: Vec<Reg> = (0..n_single).map(|t| Reg::Ctor { ty: t, variant: 0 }).collect();
    for h in 0..(2 + next() % 3) {
        let mut inputs = vec![];
        for t in 0..n_single {
            if next() % 2 == 0 {
                inputs.push((t, Mode::Ref));
            }
        }
        if inputs.is_empty() {
            inputs.push((h % n_single, Mode::Ref));
        }
        bp.push(Reg::Comp { idx: comps.len() });
        comps.push(CompSpec {
            kind: CompKind::Handler,
            inputs,
            fallible: None,
            is_async: next() % 2 == 0,
            route: Some(RouteSpec { methods: vec!["GET".into()], path: format!("/h{h}"), path_param_fields: vec![], bulk: false }),
            fw: vec![],
            gens: vec![],
        });
    }
    AppSpec { peel: false, types, n_errs, comps, bp, note: "abiding (naming stress)".into() }
}

// ------------------------------------------------------------------------------------------
// Wild applications (C01): a rule-abiding application with one to three random edits of its
// ownership structure. Nothing is promised about the compiler's verdict on these; what is promised
// (C01) is that *if* it accepts, the generated SDK compiles, and (C03/C04) behaves.
// ------------------------------------------------------------------------------------------

pub fn wildify(base: &AppSpec, raw: u64) -> AppSpec {
    let mut spec = base.clone();
    let mut s = raw | 1;
    let mut next = move || {
        s ^= s << 13;
        s ^= s >> 7;
        s ^= s << 17;
        (s >> 9) as usize
    };
    let n_edits = 1 + next() % 3;
    let mut done: Vec<String> = vec![];
    let pipeline: Vec<usize> = (0..spec.comps.len()).filter(|c| matches!(spec.comps[*c].kind, CompKind::Pre | CompKind::Post | CompKind::Wrap | CompKind::Handler)).collect();
    let root_visible: Vec<usize> = spec.bp.iter().filter_map(|r| if let Reg::Ctor { ty, .. } = r { Some(*ty) } else { None }).collect();
    for _ in 0..n_edits * 3 {
        if done.len() >= n_edits {
            break;
        }
        match next() % 7 {
            0 | 1 => {
                // change how a request-time component takes one of its inputs
                let sites: Vec<(usize, usize)> = pipeline.iter().flat_map(|c| (0..spec.comps[*c].inputs.len()).map(move |i| (*c, i))).collect();
                if sites.is_empty() {
                    continue;
                }
                let (c, i) = sites[next() % sites.len()];
                let old = spec.comps[c].inputs[i].1;
                let new = match (old, next() % 3) {
                    (Mode::Ref, 0) => Mode::Move,
                    (Mode::Ref, _) => Mode::Mut,
                    (Mode::Move, 0) => Mode::Mut,
                    (Mode::Move, _) => Mode::Ref,
                    (Mode::Mut, 0) => Mode::Move,
                    (Mode::Mut, _) => Mode::Ref,
                };
                spec.comps[c].inputs[i].1 = new;
                done.push(format!("x{c} takes T{} as {new:?} instead of {old:?}", spec.comps[c].inputs[i].0));
            }
            2 => {
                // a constructor takes an input by value instead of by reference, or the other way round
                let sites: Vec<(usize, usize)> = (0..spec.types.len()).flat_map(|t| (0..spec.types[t].inputs.len()).map(move |i| (t, i))).filter(|(t, i)| spec.types[*t].view_of != Some(spec.types[*t].inputs[*i].0)).collect();
                if sites.is_empty() {
                    continue;
                }
                let (t, i) = sites[next() % sites.len()];
                let old = spec.types[t].inputs[i].1;
                let new = if old == Mode::Ref { Mode::Move } else { Mode::Ref };
                spec.types[t].inputs[i].1 = new;
                done.push(format!("the constructor of T{t} takes T{} as {new:?} instead of {old:?}", spec.types[t].inputs[i].0));
            }
            3 => {
                // cloning policy flipped
                let cands: Vec<usize> = (0..spec.types.len()).filter(|t| !spec.types[*t].is_copy && !spec.types[*t].prebuilt && spec.types[*t].life != Life::Transient && (spec.types[*t].is_clone || spec.types[*t].clone_if_necessary == Some(true))).collect();
                if cands.is_empty() {
                    continue;
                }
                let t = cands[next() % cands.len()];
                let new = if spec.types[t].clone_if_necessary == Some(true) { None } else { Some(true) };
                spec.types[t].clone_if_necessary = new;
                spec.types[t].attr_clone = None;
                done.push(format!("T{t} cloning policy is now {new:?}"));
            }
            4 => {
                // one more input for a request-time component
                if pipeline.is_empty() || root_visible.is_empty() {
                    continue;
                }
                let c = pipeline[next() % pipeline.len()];
                let t = root_visible[next() % root_visible.len()];
                if spec.comps[c].inputs.iter().any(|(x, _)| *x == t) {
                    continue;
                }
                let m = [Mode::Ref, Mode::Move, Mode::Mut, Mode::Ref][next() % 4];
                spec.comps[c].inputs.push((t, m));
                done.push(format!("x{c} additionally takes T{t} as {m:?}"));
            }
            5 => {
                // a type starts holding on to one of the values its constructor borrows
                let cands: Vec<(usize, usize)> = (0..spec.types.len())
                    .filter(|t| spec.types[*t].life != Life::Singleton && spec.types[*t].view_of.is_none() && !spec.types[*t].is_copy && !spec.types[*t].prebuilt)
                    .flat_map(|t| spec.types[t].inputs.iter().filter(|(j, m)| *m == Mode::Ref && spec.types[*j].view_of.is_none()).map(move |(j, _)| (t, *j)))
                    .collect();
                // (generic wrappers are instantiated with plain types only)
                let cands: Vec<(usize, usize)> = cands.into_iter().filter(|(t, _)| !spec.comps.iter().any(|c| c.gens.iter().any(|(_, inner)| inner == t))).collect();
                if cands.is_empty() {
                    continue;
                }
                let (t, j) = cands[next() % cands.len()];
                spec.types[t].view_of = Some(j);
                done.push(format!("T{t} now holds a reference to the T{j} its constructor borrows"));
            }
            _ => {
                // an error handler / observer borrows one more value
                let eo: Vec<usize> = (0..spec.comps.len()).filter(|c| matches!(spec.comps[*c].kind, CompKind::ErrHandler { .. } | CompKind::Observer)).collect();
                if eo.is_empty() || root_visible.is_empty() {
                    continue;
                }
                let c = eo[next() % eo.len()];
                let t = root_visible[next() % root_visible.len()];
                if spec.comps[c].inputs.iter().any(|(x, _)| *x == t) {
                    continue;
                }
                spec.comps[c].inputs.push((t, Mode::Ref));
                if transient_needed_by_own_error_handler(&spec) {
                    // (recorded finding of C09, kept out by construction)
                    spec.comps[c].inputs.pop();
                    continue;
                }
                done.push(format!("x{c} (error path) additionally borrows T{t}"));
            }
        }
    }
    spec.note = format!("wild: {} || {}", base.note, done.join("; "));
    spec
}

// ------------------------------------------------------------------------------------------
// Start-up stress (C03, C01): several singletons built from the same transients (by value and by
// reference, directly and through another transient). Every injection site of a transient gets a
// value of its own, also while the application state is being built.
// ------------------------------------------------------------------------------------------

pub fn build_startup_stress(raw: u64) -> AppSpec {
    let mut s = raw | 1;
    let mut next = move || {
        s ^= s << 13;
        s ^= s >> 7;
        s ^= s << 17;
        (s >> 9) as usize
    };
    let mk = |life: Life, inputs: Vec<(usize, Mode)>| TypeSpec {
        life,
        is_clone: false,
        is_copy: false,
        clone_if_necessary: None,
        inputs,
        fallible: None,
        is_async: false,
        variants: 1,
        send_sync: true,
        prebuilt: false,
        attr_life: None,
        attr_clone: None,
        allow_unused: false,
        v1_flip: false,
        view_of: None,
        specific_eh: None,
        imported: false,
    };
    let mut types = vec![];
    // T0: base singleton; T1: transient (from &T0 or from nothing); T2: transient built from a T1
    types.push(mk(Life::Singleton, vec![]));
    let mut t1 = mk(Life::Transient, if next() % 2 == 0 { vec![(0, Mode::Ref)] } else { vec![] });
    t1.is_async = next() % 3 == 0;
    if next() % 3 == 0 {
        t1.fallible = Some(0);
    }
    types.push(t1);
    types.push(mk(Life::Transient, vec![(1, if next() % 2 == 0 { Mode::Move } else { Mode::Ref })]));
    // T3..: singletons built from the transients
    let n_single = 2 + next() % 3;
    for _ in 0..n_single {
        let mut inputs = vec![];
        match next() % 4 {
            0 => inputs.push((1, Mode::Ref)),
            1 => inputs.push((1, Mode::Move)),
            2 => inputs.push((2, Mode::Ref)),
            _ => {
                inputs.push((1, Mode::Ref));
                inputs.push((2, Mode::Move));
            }
        }
        if next() % 3 == 0 {
            inputs.push((0, Mode::Ref));
        }
        let mut t = mk(Life::Singleton, inputs);
        t.is_async = next() % 3 == 0;
        types.push(t);
    }
    let n = types.len();
    let mut comps = vec![];
    let mut bp: Vec<Reg> = (0..n).map(|t| Reg::Ctor { ty: t, variant: 0 }).collect();
    bp.push(Reg::Comp { idx: 0 });
    comps.push(CompSpec { kind: CompKind::ErrHandler { err: 0, default: false }, inputs: vec![], fallible: None, is_async: false, route: None, fw: vec![], gens: vec![] });
    for h in 0..(1 + next() % 2) {
        // every singleton is needed at request time (otherwise it is not built at all)
        let mut inputs: Vec<(usize, Mode)> = (3..n).filter(|_| next() % 4 != 0).map(|t| (t, Mode::Ref)).collect();
        if h == 0 {
            inputs = (3..n).map(|t| (t, Mode::Ref)).collect();
        }
        if next() % 2 == 0 {
            inputs.push((1, if next() % 2 == 0 { Mode::Move } else { Mode::Ref }));
        }
        if next() % 3 == 0 {
            inputs.push((2, Mode::Ref));
        }
        bp.push(Reg::Comp { idx: comps.len() });
        comps.push(CompSpec {
            kind: CompKind::Handler,
            inputs,
            fallible: None,
            is_async: next() % 2 == 0,
            route: Some(RouteSpec { methods: vec!["GET".into()], path: format!("/h{h}"), path_param_fields: vec![], bulk: false }),
            fw: vec![],
            gens: vec![],
        });
    }
    AppSpec { peel: false, types, n_errs: 1, comps, bp, note: "abiding (start-up stress)".into() }
}

// ------------------------------------------------------------------------------------------
// Ordering stress (C10, C01): several independent values, each borrowed by one constructor and
// taken by value by another one; a handler (and a middleware) take the outputs in a generated order.
// The compiler has to choose an evaluation order (borrowers first) for several independent pairs
// at once: whatever it chooses, the choice must not vary from run to run.
// ------------------------------------------------------------------------------------------

pub fn build_order_stress(raw: u64) -> AppSpec {
    let mut s = raw | 1;
    let mut next = move || {
        s ^= s << 13;
        s ^= s >> 7;
        s ^= s << 17;
        (s >> 9) as usize
    };
    let mk = |life: Life, inputs: Vec<(usize, Mode)>, cin: bool| TypeSpec {
        life,
        is_clone: cin,
        is_copy: false,
        clone_if_necessary: if cin { Some(true) } else { None },
        inputs,
        fallible: None,
        is_async: false,
        variants: 1,
        send_sync: true,
        prebuilt: false,
        attr_life: None,
        attr_clone: None,
        allow_unused: false,
        v1_flip: false,
        view_of: None,
        specific_eh: None,
        imported: false,
    };
    let n_pairs = 2 + next() % 4;
    let mut types = vec![];
    let mut outputs: Vec<(usize, Mode)> = vec![];
    for _ in 0..n_pairs {
        let x = types.len();
        // the contended value: clone-if-necessary most of the time (then any order is acceptable),
        // sometimes never-clone (then only "borrowers first" can work)
        types.push(mk(Life::Request, vec![], next() % 4 != 0));
        let mut b = mk(Life::Request, vec![(x, Mode::Ref)], false);
        b.is_async = next() % 3 == 0;
        types.push(b);
        let mut c = mk(Life::Request, vec![(x, Mode::Move)], false);
        c.is_async = next() % 3 == 0;
        types.push(c);
        let (bm, cm) = (if next() % 2 == 0 { Mode::Ref } else { Mode::Move }, if next() % 2 == 0 { Mode::Ref } else { Mode::Move });
        if next() % 3 == 0 {
            outputs.push((x + 2, cm));
            outputs.push((x + 1, bm));
        } else {
            outputs.push((x + 1, bm));
            outputs.push((x + 2, cm));
        }
    }
    // interleave the pairs
    for i in (1..outputs.len()).rev() {
        if next() % 3 == 0 {
            outputs.swap(i, next() % (i + 1));
        }
    }
    let n = types.len();
    let mut comps = vec![];
    let mut bp: Vec<Reg> = (0..n).map(|t| Reg::Ctor { ty: t, variant: 0 }).collect();
    if next() % 2 == 0 {
        // a pre-processing middleware borrowing a few of the outputs
        let inputs: Vec<(usize, Mode)> = outputs.iter().filter(|_| next() % 3 == 0).map(|(t, _)| (*t, Mode::Ref)).collect();
        bp.push(Reg::Comp { idx: comps.len() });
        comps.push(CompSpec { kind: CompKind::Pre, inputs, fallible: None, is_async: false, route: None, fw: vec![], gens: vec![] });
    }
    bp.push(Reg::Comp { idx: comps.len() });
    comps.push(CompSpec {
        kind: CompKind::Handler,
        inputs: outputs.clone(),
        fallible: None,
        is_async: next() % 2 == 0,
        route: Some(RouteSpec { methods: vec!["GET".into()], path: "/h0".into(), path_param_fields: vec![], bulk: false }),
        fw: vec![],
        gens: vec![],
    });
    if next() % 2 == 0 {
        outputs.reverse();
        bp.push(Reg::Comp { idx: comps.len() });
        comps.push(CompSpec {
            kind: CompKind::Handler,
            inputs: outputs.into_iter().map(|(t, _)| (t, Mode::Ref)).collect(),
            fallible: None,
            is_async: false,
            route: Some(RouteSpec { methods: vec!["POST".into()], path: "/h1".into(), path_param_fields: vec![], bulk: false }),
            fw: vec![],
            gens: vec![],
        });
    }
    AppSpec { peel: false, types, n_errs: 0, comps, bp, note: "ordering stress".into() }
}

// ------------------------------------------------------------------------------------------
// Borrow-checker stress (C01, C09; a "wild" family: nothing is asserted about the verdict, what is accepted must
// compile, and the compiler must reach a verdict). One call graph that needs all three passes of the compiler's
// borrow checker at once:
//  * 0-3 independent "X" patterns: `c(B, &A)` and `d(A, &B)` - no evaluation order satisfies both, a clone of `A` or
//    `B` has to break the tie (each of the two is clone-if-necessary or not, independently for every pattern);
//  * 1-2 capture chains: a value, a view of it (`V<'a>` holding `&'a A`), 1-3 holders that take the previous link by
//    value, every link with an optional extra input that is reached at another depth of the graph (so that nodes are
//    not met in dependency order), and a consumer that takes the last link together with the source, by value or by
//    reference;
//  * registrations in a generated order (node numbering follows it).
// ------------------------------------------------------------------------------------------

pub fn build_borrow_stress(raw: u64) -> AppSpec {
    let mut s = raw | 1;
    let mut next = move || {
        s ^= s << 13;
        s ^= s >> 7;
        s ^= s << 17;
        (s >> 9) as usize
    };
    let mk = |inputs: Vec<(usize, Mode)>, cin: bool, view_of: Option<usize>| TypeSpec {
        life: Life::Request,
        is_clone: cin,
        is_copy: false,
        clone_if_necessary: if cin { Some(true) } else { None },
        inputs,
        fallible: None,
        is_async: false,
        variants: 1,
        send_sync: true,
        prebuilt: false,
        attr_life: None,
        attr_clone: None,
        allow_unused: false,
        v1_flip: false,
        view_of,
        specific_eh: None,
        imported: false,
    };
    let mut types: Vec<TypeSpec> = vec![];
    let mut outputs: Vec<(usize, Mode)> = vec![];
    let n_x = next() % 4;
    for _ in 0..n_x {
        let a = types.len();
        types.push(mk(vec![], next() % 2 == 0, None));
        types.push(mk(vec![], next() % 4 == 0, None));
        let b = a + 1;
        let (c_in, d_in) = if next() % 2 == 0 { (vec![(b, Mode::Move), (a, Mode::Ref)], vec![(a, Mode::Move), (b, Mode::Ref)]) } else { (vec![(a, Mode::Ref), (b, Mode::Move)], vec![(b, Mode::Ref), (a, Mode::Move)]) };
        types.push(mk(c_in, false, None));
        types.push(mk(d_in, false, None));
        for t in [a + 2, a + 3] {
            outputs.push((t, if next() % 3 == 0 { Mode::Ref } else { Mode::Move }));
        }
    }
    let n_chains = if n_x == 0 { 1 + next() % 2 } else { next() % 3 };
    for _ in 0..n_chains {
        let src = types.len();
        types.push(mk(vec![], next() % 3 == 0, None));
        // an unrelated value that links of the chain may borrow: it is a source of the graph, so whoever borrows it is
        // reached early by a breadth-first walk, whatever its other inputs are
        let shallow = types.len();
        types.push(mk(vec![], false, None));
        let with_extra = |base: (usize, Mode), r: usize| -> Vec<(usize, Mode)> {
            match r % 4 {
                0 => vec![(shallow, Mode::Ref), base],
                1 => vec![base, (shallow, Mode::Ref)],
                _ => vec![base],
            }
        };
        let mut last = types.len();
        types.push(mk(with_extra((src, Mode::Ref), next()), false, Some(src)));
        for _ in 0..(1 + next() % 3) {
            let h = types.len();
            types.push(mk(with_extra((last, Mode::Move), next()), false, Some(last)));
            last = h;
        }
        let src_mode = if next() % 3 == 0 { Mode::Ref } else { Mode::Move };
        let last_mode = if next() % 3 == 0 { Mode::Ref } else { Mode::Move };
        if next() % 2 == 0 {
            outputs.push((last, last_mode));
            outputs.push((src, src_mode));
        } else {
            outputs.push((src, src_mode));
            outputs.push((last, last_mode));
        }
        if next() % 4 == 0 {
            outputs.push((shallow, Mode::Ref));
        }
    }
    // * 0-2 values consumed by value around a fallible constructor: by the constructor itself (upstream of the `match`),
    //   by its error handler (error arm only) and by the request handler (success arm only); each consumer may also
    //   just borrow. Which consumers compete depends on the control-flow path.
    let mut err_handlers: Vec<CompSpec> = vec![];
    let mut n_errs = 0usize;
    let n_forks = next() % 3;
    for _ in 0..n_forks {
        let ticket = types.len();
        types.push(mk(vec![], next() % 4 != 0, None));
        let mode = |r: usize| if r % 3 == 0 { Mode::Ref } else { Mode::Move };
        let session = types.len();
        let mut sess = mk(vec![(ticket, mode(next()))], false, None);
        sess.fallible = Some(n_errs);
        types.push(sess);
        err_handlers.push(CompSpec { kind: CompKind::ErrHandler { err: n_errs, default: false }, inputs: vec![(ticket, mode(next()))], fallible: None, is_async: false, route: None, fw: vec![], gens: vec![] });
        n_errs += 1;
        outputs.push((session, if next() % 2 == 0 { Mode::Ref } else { Mode::Move }));
        outputs.push((ticket, mode(next())));
    }
    for i in (1..outputs.len()).rev() {
        if next() % 3 == 0 {
            outputs.swap(i, next() % (i + 1));
        }
    }
    let n = types.len();
    let mut order: Vec<usize> = (0..n).collect();
    for i in (1..n).rev() {
        if next() % 2 == 0 {
            order.swap(i, next() % (i + 1));
        }
    }
    let mut bp: Vec<Reg> = order.into_iter().map(|t| Reg::Ctor { ty: t, variant: 0 }).collect();
    let mut comps = vec![];
    for eh in err_handlers {
        bp.push(Reg::Comp { idx: comps.len() });
        comps.push(eh);
    }
    if next() % 3 == 0 {
        // a pre-processing middleware that borrows some of the values the handler consumes
        let inputs: Vec<(usize, Mode)> = outputs.iter().filter(|(t, _)| types[*t].view_of.is_none()).filter(|_| next() % 3 == 0).map(|(t, _)| (*t, Mode::Ref)).collect();
        bp.push(Reg::Comp { idx: comps.len() });
        comps.push(CompSpec { kind: CompKind::Pre, inputs, fallible: None, is_async: false, route: None, fw: vec![], gens: vec![] });
    }
    bp.push(Reg::Comp { idx: comps.len() });
    comps.push(CompSpec {
        kind: CompKind::Handler,
        inputs: outputs,
        fallible: None,
        is_async: next() % 2 == 0,
        route: Some(RouteSpec { methods: vec!["GET".into()], path: "/h0".into(), path_param_fields: vec![], bulk: false }),
        fw: vec![],
        gens: vec![],
    });
    AppSpec { peel: false, types, n_errs, comps, bp, note: format!("wild (borrow-checker stress: {n_x} X patterns, {n_chains} capture chains, {n_forks} values consumed around a fallible constructor)") }
}
