//! End-to-end engine: generated applications -> pavexc -> rustc -> running server.
mod emit;
mod engine;
mod genr;
mod model;
mod oracles;
mod round;
mod shrink;
mod spec;

use std::collections::BTreeSet;

use proptest::strategy::{Strategy, ValueTree};
use serde_json::{Value, json};
use vcommon::{Check, Fail, Settings, Tier, fnv};

use round::{RoundOpts, RoundOutcome};
use spec::*;

fn main() {
    let args: Vec<String> = std::env::args().collect();
    let Some(prop) = args.get(1).cloned() else {
        eprintln!("usage: pxe2e <Cxx> [--tier quick|thorough] [--replay file] | warm");
        std::process::exit(2);
    };
    if prop == "warm" {
        warm();
        return;
    }
    if prop == "verdict" {
        // pxe2e verdict <file with an AppSpec or a replay document> : print the compiler's verdict
        let text = std::fs::read_to_string(&args[2]).expect("read");
        let doc: Value = serde_json::from_str(&text).expect("json");
        let spec: AppSpec = serde_json::from_value(if doc.get("case").is_some() { doc["case"]["spec"].clone() } else { doc }).expect("spec");
        let lane = lane(&std::env::var("PX_LANE").unwrap_or_else(|_| "manual".into()));
        match round::verdict_alone(&lane, &spec) {
            Ok(v) => println!("signature: {}\n{}\n{}", v.signature(), v.brief(), if v.panicked { v.panic_message() } else { String::new() }),
            Err(e) => println!("infrastructure: {e}"),
        }
        return;
    }
    if prop == "shrink" {
        // pxe2e shrink <replay/spec file> <budget> <out>: reduce a spec keeping the compiler's verdict signature
        let text = std::fs::read_to_string(&args[2]).expect("read");
        let doc: Value = serde_json::from_str(&text).expect("json");
        let spec: AppSpec = serde_json::from_value(if doc.get("case").is_some() { doc["case"]["spec"].clone() } else { doc }).expect("spec");
        let budget: usize = args.get(3).and_then(|b| b.parse().ok()).unwrap_or(100);
        let lane = lane(&std::env::var("PX_LANE").unwrap_or_else(|_| "manual".into()));
        let sig = round::verdict_alone(&lane, &spec).expect("verdict").signature();
        println!("signature: {sig}");
        let (small, used) = shrink::shrink(&spec, budget, &mut |c| round::verdict_alone(&lane, c).map(|v| v.signature() == sig).unwrap_or(false));
        println!("used {used} runs; registrations {} -> {}", count_regs(&spec), count_regs(&small));
        std::fs::write(&args[4], serde_json::to_string_pretty(&small).unwrap()).expect("write");
        return;
    }
    if prop == "probe-plant" {
        // pxe2e probe-plant <rule index> <raw modulus> <raw residue> <count>: debugging aid, prints the compiler's verdict on planted applications of one rule
        let rule: usize = args[2].parse().expect("rule");
        let (m, r): (u16, u16) = (args[3].parse().expect("mod"), args[4].parse().expect("res"));
        let count: usize = args[5].parse().expect("count");
        let settings = Settings::from_env_and_args("C08", &[]);
        let chk = Check::new(settings, "");
        let bases = draw_abiding(&chk, "planted", count * 6);
        let lane = lane(&std::env::var("PX_LANE").unwrap_or_else(|_| "manual".into()));
        let mut done = 0;
        for (bi, b) in bases.iter().enumerate() {
            let raw = (((vcommon::fnv(&format!("probe-{bi}")) >> 7) & 0xffff) as u16) / m * m + r;
            if let Some(p) = genr::plant(b, rule, raw) {
                if let Ok(dir) = std::env::var("PX_DUMP") {
                    let _ = std::fs::create_dir_all(&dir);
                    let _ = std::fs::write(format!("{dir}/planted-{done}.json"), serde_json::to_string_pretty(&p.spec).unwrap());
                }
                match round::verdict_alone(&lane, &p.spec) {
                    Ok(v) => println!("{} => {}", p.what, v.signature()),
                    Err(e) => println!("{} => infrastructure: {}", p.what, e.chars().take(600).collect::<String>()),
                }
                done += 1;
                if done >= count {
                    break;
                }
            }
        }
        return;
    }
    let settings = Settings::from_env_and_args(&prop, &args[2..]);
    let chk = Check::new(settings, "");
    match prop.as_str() {
        "C01" | "C02" | "C03" | "C04" | "C05" | "C06" => pipeline_family(chk),
        "C07" | "C20" => routing_family(chk),
        "C08" => planted_check(chk),
        "C09" => verdict_check(chk),
        "C10" => determinism_check(chk),
        "C19" => attrs_family(chk),
        _ => {
            eprintln!("pxe2e: unknown property {prop}");
            std::process::exit(2);
        }
    }
}

/// Builds the seed lane once (compiles the runtime for both toolchains, fills the doc cache).
fn warm() {
    let lane = engine::Lane::new("seed");
    let mut runner = proptest::test_runner::TestRunner::deterministic();
    let g = genr::genome().new_tree(&mut runner).unwrap().current();
    let spec = genr::build_abiding(&g).spec;
    let out = round::run_round(&lane, &[spec.clone(), spec], &RoundOpts { want_individual: true, run_requests: true, solo: false }, &|_| vec![]);
    if let Some(e) = out.infra_error {
        eprintln!("warm-up failed: {e}");
        std::process::exit(2);
    }
    println!("warm-up: combined accepted={} sdk build ok={:?}", out.combined.accepted(), out.sdk_build.map(|b| b.ok()));
    // publish the documentation cache for the other lanes
    let master = std::path::Path::new(engine::WORK).join("home-master");
    let _ = std::fs::remove_dir_all(&master);
    let _ = std::fs::create_dir_all(&master);
    let _ = std::process::Command::new("cp").arg("-a").arg(lane.home().join(".pavex")).arg(master.join(".pavex")).status();
}

/// Make sure lane `name` exists, cloning the seed lane (compiled dependencies, doc cache).
fn lane(name: &str) -> engine::Lane {
    let dir = engine::lanes_dir().join(name);
    let seed = std::path::Path::new(engine::WORK).join("lanes").join("seed");
    if !dir.exists() && seed.exists() {
        let _ = std::fs::create_dir_all(dir.parent().unwrap());
        let _ = std::process::Command::new("cp").arg("-a").arg(&seed).arg(&dir).status();
    }
    engine::Lane::new(name)
}

fn plans_for(spec: &AppSpec, k: usize, route: &model::RouteInfo, with_failures: bool) -> Vec<Vec<(String, u8)>> {
    let mut plans: Vec<Vec<(String, u8)>> = vec![vec![]];
    let mut n_early = 0;
    for idx in &route.chain {
        match spec.comps[*idx].kind {
            CompKind::Pre if n_early < 3 => {
                plans.push(vec![(emit::comp_name(k, *idx), 2)]);
                n_early += 1;
            }
            CompKind::Wrap if n_early < 4 => {
                plans.push(vec![(emit::comp_name(k, *idx), 2)]);
                n_early += 1;
            }
            _ => {}
        }
    }
    if with_failures {
        let mut n_fail = 0;
        let mut comps: Vec<usize> = route.chain.clone();
        comps.push(route.handler);
        let mut seen_types = BTreeSet::new();
        for idx in &comps {
            if spec.comps[*idx].fallible.is_some() && n_fail < 5 {
                plans.push(vec![(emit::comp_name(k, *idx), 1)]);
                n_fail += 1;
            }
            for t in model::closure(spec, &spec.comps[*idx].inputs) {
                if spec.types[t].any_variant_fallible() && seen_types.insert(t) && n_fail < 5 {
                    plans.push((0..spec.types[t].variants.max(1)).map(|v| (emit::ctor_name(k, t, v), 1)).collect());
                    n_fail += 1;
                }
            }
        }
    }
    plans
}

fn script_for(spec: &AppSpec, k: usize, with_failures: bool) -> (Vec<Value>, Vec<(usize, usize, Vec<(String, u8)>)>) {
    let routes = model::routes(spec);
    let mut reqs = vec![];
    let mut index = vec![];
    for (ri, r) in routes.iter().enumerate() {
        for plan in plans_for(spec, k, r, with_failures) {
            let method = r.methods.first().cloned().unwrap_or_else(|| "GET".into());
            let id = json!([k, index.len()]);
            reqs.push(round::request(id, &method, &format!("/s{k}{}", r.full_path), Some("localhost"), &plan));
            index.push((k, ri, plan));
        }
    }
    (reqs, index)
}

fn spec_summary(spec: &AppSpec) -> Value {
    let routes = model::routes(spec);
    json!({
        "note": spec.note,
        "types": spec.types.iter().map(|t| format!("{:?}{}{}{}{}", t.life, if t.is_copy { "+Copy" } else { "" }, if t.clone_if_necessary == Some(true) { "+CloneIfNecessary" } else { "" }, if t.fallible.is_some() { "+fallible" } else { "" }, if t.variants > 1 { "+2ctors" } else { "" })).collect::<Vec<_>>(),
        "routes": routes.iter().map(|r| json!({"path": r.full_path, "methods": r.methods, "chain": r.chain.iter().map(|c| format!("{:?}", spec.comps[*c].kind)).collect::<Vec<_>>(), "observers": r.observers.len(), "nest_depth": r.nest_depth})).collect::<Vec<_>>(),
    })
}

fn save_violation(chk: &mut Check, sub: &str, sig: &str, msg: &str, spec: &AppSpec, extra: Value) {
    if chk.known.open_entry(&chk.settings.prop, sig).is_some() {
        // a recorded finding (known_findings.json): counted, reported as KNOWN-FINDING at the end
        *chk.ev.known_hits.entry(sig.to_string()).or_insert(0) += 1;
        return;
    }
    // A crash of the compiler only counts once it is reproduced by a run that has a workspace for itself: under load the
    // documentation step of a compiler process that shares its workspace with siblings can fail, and pavexc then stops
    // at an internal assertion ("the JSON documentation ... has already been generated") that says nothing about the
    // blueprint. (Crashes that depend on the blueprint reproduce; PX_NO_CONFIRM=1 skips the re-run.)
    if let Some(at) = sig.find("panic:") {
        if std::env::var("PX_NO_CONFIRM").is_err() && !chk.settings.replay.is_some() {
            let psig = &sig[at..];
            let lane = lane("shrink");
            let reproduced = (0..2).any(|_| matches!(round::verdict_alone(&lane, spec), Ok(v) if v.panicked && v.signature() == psig));
            if !reproduced {
                chk.ev.label(&format!("crash-not-reproduced-when-run-alone:{psig}"));
                return;
            }
        }
    }
    let f = Fail::new(sig, msg);
    chk.violation(sub, &f, &json!({"spec": spec, "extra": extra}));
}

/// Individual verdicts of a round are computed by several compiler processes working in one
/// workspace at the same time; the generated manifests are written with truncate+write, so a
/// sibling's `cargo metadata` can (rarely) read a half-written file and fail. A rejection only
/// counts once it is reproduced by a run that has the workspace for itself.
fn rejection_confirmed(spec: &AppSpec, sig: &str) -> bool {
    let lane = lane("shrink");
    for _ in 0..2 {
        match round::verdict_alone(&lane, spec) {
            Ok(v) if !v.accepted() && v.signature() == sig => return true,
            _ => {}
        }
    }
    false
}

/// A stable identification of rustc's complaint: error code + the message with identifiers of
/// generated bindings (`v12`) and line numbers normalised.
fn rustc_signature(stderr: &str) -> String {
    let first = stderr.lines().find(|l| l.starts_with("error")).unwrap_or("error");
    let mut out = String::new();
    let mut chars = first.chars().peekable();
    while let Some(c) = chars.next() {
        if c == 'v' && chars.peek().is_some_and(|d| d.is_ascii_digit()) && !out.ends_with(|p: char| p.is_alphanumeric() || p == '_') {
            out.push_str("v#");
            while chars.peek().is_some_and(|d| d.is_ascii_digit()) {
                chars.next();
            }
        } else if c.is_ascii_digit() && !out.ends_with(|p: char| p.is_alphabetic() || p == '[' || p == 'E' || p.is_ascii_digit()) {
            out.push('#');
        } else {
            out.push(c);
        }
    }
    out.chars().take(110).collect()
}

/// Compile one application alone: `Some((signature, rustc output))` when the compiler accepts it and
/// rustc rejects the generated SDK.
fn sdk_rejected_alone(lane: &engine::Lane, spec: &AppSpec) -> Option<(String, String)> {
    let opts = RoundOpts { want_individual: false, run_requests: false, solo: false };
    let out = round::run_round(lane, std::slice::from_ref(spec), &opts, &|_| vec![]);
    if out.infra_error.is_some() || !out.in_sdk.first().copied().unwrap_or(false) {
        return None;
    }
    match &out.sdk_build {
        Some(b) if !b.ok() => {
            let errs: Vec<&str> = b.stderr.lines().filter(|l| l.starts_with("error")).collect();
            if errs.is_empty() {
                return None;
            }
            let start = b.stderr.find("error").unwrap_or(0);
            Some((rustc_signature(&b.stderr), b.stderr[start..].to_string()))
        }
        _ => None,
    }
}

fn count_regs(spec: &AppSpec) -> usize {
    let mut n = 0;
    spec.walk_regs(&mut |_, _| n += 1);
    n
}

/// Greedy reduction of a spec whose *compiler verdict* has signature `sig`.
fn shrink_verdict(spec: &AppSpec, sig: &str) -> (AppSpec, Option<round::PavexcVerdict>) {
    let lane = lane("shrink");
    let mut last = None;
    let (small, _) = shrink::shrink(spec, 25, &mut |cand| match round::verdict_alone(&lane, cand) {
        Ok(v) if v.signature() == sig => {
            last = Some(v);
            true
        }
        _ => false,
    });
    (small, last)
}

/// Does some pipeline stage use one clone-if-necessary value in the order move .. borrow .. move .. borrow?
fn has_move_borrow_alternation(spec: &AppSpec) -> bool {
    for r in model::routes(spec) {
        let stages = model::stages(spec, &r.chain);
        let last = stages.len() - 1;
        for (si, st) in stages.iter().enumerate() {
            let mut order: Vec<usize> = st.pres.clone();
            order.push(if si == last { r.handler } else { st.wrap.unwrap_or(r.handler) });
            order.extend(st.posts.iter().copied());
            for t in 0..spec.types.len() {
                if spec.types[t].clone_if_necessary != Some(true) {
                    continue;
                }
                let modes: Vec<Mode> = order.iter().filter_map(|c| spec.comps[*c].inputs.iter().find(|(x, _)| *x == t).map(|(_, m)| *m)).collect();
                let Some(first_move) = modes.iter().position(|m| *m == Mode::Move) else { continue };
                let last_move = modes.iter().rposition(|m| *m == Mode::Move).unwrap();
                let borrow_between = modes[first_move..last_move].iter().any(|m| *m == Mode::Ref);
                let borrow_after = modes[last_move..].iter().any(|m| *m == Mode::Ref);
                if first_move != last_move && borrow_between && borrow_after {
                    return true;
                }
            }
        }
    }
    false
}

/// Coverage labels for the less common shapes of a generated application.
fn shape_labels(spec: &AppSpec) -> Vec<&'static str> {
    let mut v = vec![];
    if spec.types.iter().any(|t| t.view_of.is_some()) {
        v.push("shape:type-holding-a-reference");
    }
    let used = |pred: &dyn Fn(usize, Mode) -> bool| spec.comps.iter().any(|c| c.inputs.iter().any(|(t, m)| pred(*t, *m))) || spec.types.iter().any(|ty| ty.inputs.iter().any(|(t, m)| pred(*t, *m)));
    if used(&|t, m| spec.types[t].view_of.is_some() && m == Mode::Move) {
        v.push("shape:type-holding-a-reference-taken-by-value");
    }
    if spec.types.iter().any(|t| t.view_of.is_some_and(|j| spec.types[j].clone_if_necessary == Some(true) && used(&|x, m| x == j && m == Mode::Move))) {
        v.push("shape:reference-held-to-a-value-that-is-also-moved(clone-if-necessary)");
    }
    if spec.types.iter().any(|t| t.view_of.is_some_and(|j| spec.types[j].view_of.is_some())) {
        v.push("shape:reference-holder-kept-by-value-inside-another-value");
    }
    if spec.types.iter().any(|t| t.life == Life::Singleton && t.inputs.iter().any(|(j, _)| spec.types[*j].life == Life::Transient)) {
        v.push("shape:singleton-built-from-a-transient");
    }
    for c in &spec.comps {
        for (kind, _) in &c.gens {
            v.push(["shape:generic-constructor(singleton)", "shape:generic-constructor(request-scoped)", "shape:generic-constructor(transient)", "shape:generic-constructor-with-a-lifetime"][*kind as usize % 4]);
        }
    }
    v.sort();
    v.dedup();
    if used(&|_, m| m == Mode::Mut) {
        v.push("shape:mutable-reference-injected");
    }
    if spec.note.contains("wild") {
        v.push("class:wild");
    }
    v
}

fn nontrivial_c02(spec: &AppSpec) -> bool {
    let routes = model::routes(spec);
    routes.iter().any(|r| r.chain.len() >= 3 || r.nest_depth >= 2)
        || spec.types.iter().enumerate().any(|(t, ts)| {
            ts.clone_if_necessary == Some(true)
                && spec.comps.iter().filter(|c| c.inputs.iter().any(|(x, m)| *x == t && *m == Mode::Move)).count() >= 2
        })
}

fn pipeline_family(mut chk: Check) -> ! {
    let prop = chk.settings.prop.clone();
    let tier = chk.tier();
    chk.ev.rule = match prop.as_str() {
        "C01" => "generated application crates (1-7 types with lifecycles/cloning policies/fallibility/async, 0-6 middlewares, 1-4 handlers, observers, error handlers, nesting <= 3) compiled by the real pavexc; every sub-application that pavexc accepts is part of an SDK that is then compiled by rustc (stable) together with the application crate. non-trivial = accepted application with a clone-if-necessary value moved by >=2 consumers, or a middleware chain >=3, or nesting >=2, or a fallible component; distinct = distinct serialised spec".to_string(),
        "C02" => "applications generated *inside* the documented-rules class by construction (usage disciplines: borrow-only / move-once / Copy / clone-if-necessary / transient; singletons depend on singletons; every type has a constructor in scope; one error handler per error type; unique static routes); oracle: pavexc exits 0 with no ERROR, alone and nested together with the other sub-applications of the round. non-trivial = chain >=3, or nesting >=2, or a clone-if-necessary value with >=2 by-value consumers".to_string(),
        "C03" => "accepted applications x request scripts (every route x {no plan, each pre-processor returning early, each wrapping middleware not calling next, each fallible component failing}); oracle: lifecycle invariants over the recorded construction/reception events (singleton built once at start-up and shared, request-scoped built at most once per request and shared, transient never shared, nothing consumed before it is built). non-trivial = a request where >=2 components share a request-scoped value or >=2 transient injection sites fire".to_string(),
        "C04" => "as C03, with constructor variants registered at several nesting levels / twice in one blueprint; oracle: every received value was built by the constructor that the scope model designates (nearest enclosing blueprint, latest registration), never-clone values are never cloned nor moved twice, clones only for clone-if-necessary types. non-trivial = the designated registration is an override or a clone was observed".to_string(),
        "C05" => "accepted applications with arbitrary interleavings of pre/post/wrapping registrations, routes and nests x plans (continue / early return / do-not-call-next); oracle: the exact enter/exit sequence of middlewares and handler, the response and the post-processor stamps predicted by the documented stage semantics. non-trivial = a chain with a wrap and post-processors before and after it, or an early return/skip plan".to_string(),
        _ => "accepted applications with fallible constructors/middlewares/handlers x plans failing one component; oracle: dependants of the failed value do not run, the designated error handler runs exactly once on that error, the observers registered before the route run once each in order after it and before later post-processors, the client sees the error handler's response. non-trivial = failure of a constructor shared by >=2 components, or inside a wrapped pipeline, or >=2 observers".to_string(),
    };
    chk.ev.assume("docs generated with the installed `nightly` toolchain and locally built std/core/alloc JSON docs (rust-docs-json component is not installed)");
    let (n_rounds, k_per_round, n_lanes) = match (tier, prop.as_str()) {
        (Tier::Quick, "C02") => (9usize, 8usize, 3usize),
        (Tier::Quick, _) => (9, 8, 3),
        (Tier::Thorough, "C02") => (150, 8, 6),
        (Tier::Thorough, _) => (90, 8, 6),
    };
    if let Some(p) = chk.settings.replay.clone() {
        replay_pipeline(&mut chk, &p);
        chk.finish();
    }
    // recorded reproductions of repaired defects first
    for p in chk.committed_replays() {
        replay_pipeline(&mut chk, &p);
    }
    let seed = chk.settings.sub_seed("pipeline");
    let with_failures = prop == "C06" || prop == "C03" || prop == "C01";
    // draw all specs up front (pure function of the seed)
    let mut runner = chk.settings.runner("pipeline", (n_rounds * k_per_round) as u32);
    let strat = genr::genome();
    // every third application writes some lifecycles / cloning policies differently in the attribute
    // and overrides them at registration (same effective application; see C19 part (b))
    let rounds: Vec<Vec<AppSpec>> = (0..n_rounds)
        .map(|r| {
            (0..k_per_round)
                .map(|k| {
                    // outside C02 (whose class does not mention them) a fifth of the request-scoped types may be
                    // injected as `&mut` into pre-/post-processing middlewares and handlers
                    let ext = genr::Ext { mut_refs: prop != "C02", startup_transients: prop != "C02" };
                    let spec = genr::build_abiding_ext(&strat.new_tree(&mut runner).unwrap().current(), ext).spec;
                    let mix = seed ^ ((r * 64 + k) as u64).wrapping_mul(0x9e3779b97f4a7c15);
                    if k + 1 == k_per_round && r % 2 == 1 && prop != "C02" {
                        // singletons built from shared transients (see genr::build_startup_stress)
                        genr::build_startup_stress(mix)
                    } else if k + 2 >= k_per_round {
                        // the last two applications of every round stress one pipeline stage (see genr::build_stage_stress)
                        genr::build_stage_stress(mix)
                    } else if k % 4 == 1 && matches!(prop.as_str(), "C01" | "C03" | "C04") {
                        // "wild": random edits of the ownership structure; the compiler may accept or reject,
                        // what it accepts must compile (C01) and behave (C03, C04)
                        genr::wildify(&spec, mix)
                    } else if k % 3 == 2 {
                        genr::apply_attr_styles(&spec, mix).spec
                    } else {
                        spec
                    }
                })
                .collect()
        })
        .collect();
    // C01 also compiles route tables (fallbacks, framework-provided inputs, method guards live in the generated router)
    let mut rounds = rounds;
    if prop == "C01" {
        let extra = if tier == Tier::Quick { 3 } else { 30 };
        let mut runner = chk.settings.runner("pipeline-routing", (extra * k_per_round) as u32);
        let strat = genr::routing_genome(false);
        for _ in 0..extra {
            rounds.push((0..k_per_round).map(|k| genr::build_routing(&strat.new_tree(&mut runner).unwrap().current(), k)).collect());
        }
        // ... and applications whose fallible singleton constructors share a function name (names of generated items)
        for r in 0..(if tier == Tier::Quick { 1 } else { 6 }) {
            rounds.push((0..k_per_round).map(|k| genr::build_naming_stress(seed ^ ((r * 64 + k + 7) as u64).wrapping_mul(0x9e3779b97f4a7c15))).collect());
            rounds.push((0..k_per_round).map(|k| genr::build_order_stress(seed ^ ((r * 64 + k + 11) as u64).wrapping_mul(0x9e3779b97f4a7c15))).collect());
        }
        // ... and call graphs that need every pass of the compiler's borrow checker at once (see genr::build_borrow_stress)
        for r in 0..(if tier == Tier::Quick { 3 } else { 30 }) {
            rounds.push((0..k_per_round).map(|k| genr::build_borrow_stress(seed ^ ((r * 64 + k + 17) as u64).wrapping_mul(0x9e3779b97f4a7c15))).collect());
        }
    }
    let rounds = rounds;
    let results: Vec<(usize, RoundOutcome)> = std::thread::scope(|s| {
        let rounds = &rounds;
        let hs: Vec<_> = (0..n_lanes)
            .map(|l| {
                let prop = prop.clone();
                s.spawn(move || {
                    let lane = lane(&format!("l{l}"));
                    let mut out = vec![];
                    for (ri, specs) in rounds.iter().enumerate() {
                        if ri % n_lanes != l {
                            continue;
                        }
                        let opts = RoundOpts { want_individual: false, run_requests: !matches!(prop.as_str(), "C01" | "C02"), solo: false };
                        let o = round::run_round(&lane, specs, &opts, &|k| script_for(&specs[k], k, with_failures).0);
                        out.push((ri, o));
                    }
                    out
                })
            })
            .collect();
        hs.into_iter().flat_map(|h| h.join().unwrap()).collect()
    });
    let mut results = results;
    results.sort_by_key(|(ri, _)| *ri);
    for (ri, out) in &results {
        let specs = &rounds[*ri];
        if let Some(e) = &out.infra_error {
            eprintln!("INFRA property={prop} round={ri}: {e}");
            // keep the applications of that round for inspection (each file replays with --replay)
            let dir = std::path::Path::new(vcommon::VERIF_ROOT).join(format!(".work/violations/{prop}"));
            let _ = std::fs::create_dir_all(&dir);
            for (k, spec) in specs.iter().enumerate() {
                let f = dir.join(format!("infra-seed{}-round{ri}-app{k}.json", chk.settings.seed));
                let _ = std::fs::write(&f, serde_json::to_string_pretty(&json!({"property": prop, "campaign": "pipeline", "signature": "infrastructure", "message": e, "case": {"spec": spec}})).unwrap());
            }
            eprintln!("INFRA applications of the round saved to {}", dir.display());
            chk.ev.label("round:infrastructure-trouble");
            chk.ev.write();
            std::process::exit(2);
        }
        evaluate_round(&mut chk, &prop, specs, out, with_failures);
    }
    chk.finish()
}

fn evaluate_round(chk: &mut Check, prop: &str, specs: &[AppSpec], out: &RoundOutcome, with_failures: bool) {
    let n = specs.len();
    // ---- C02: everything generated is inside the class, so everything must be accepted
    if prop == "C02" {
        for (k, spec) in specs.iter().enumerate() {
            chk.ev.evaluations += 1;
            // (when the application's own verdict was computed - replays, rounds with a rejection - it counts,
            // even if the nested combination was accepted)
            let accepted = match out.individual.get(k).and_then(|v| v.as_ref()) {
                Some(v) => v.accepted(),
                None => out.combined.accepted(),
            };
            if !accepted {
                let v = out.individual[k].as_ref().unwrap();
                let raw_sig = v.signature();
                let mut sig = raw_sig.clone();
                // (recorded finding, never generated: an import followed by an explicit registration of the same
                // constructor with overrides; the import's copy of the constructor, with the attribute's values, wins)
                if spec.types.iter().any(|t| t.imported && (t.attr_clone.is_some() || t.attr_life.is_some() || t.specific_eh.is_some())) {
                    sig = format!("import-then-explicit-registration-with-overrides:{sig}");
                }
                if chk.known.open_entry("C02", &format!("rejected:{sig}")).is_some() {
                    *chk.ev.known_hits.entry(format!("rejected:{sig}")).or_insert(0) += 1;
                    continue;
                }
                // one shrunk report per distinct verdict and run (a defect that rejects a whole class would otherwise
                // be confirmed and shrunk dozens of times)
                if chk.ev.labels.contains_key(&format!("reported:rejected:{sig}")) {
                    chk.ev.label("further-rejections-with-a-reported-verdict");
                    chk.ev.violations += 1;
                    continue;
                }
                if !rejection_confirmed(spec, &raw_sig) {
                    chk.ev.label("rejection-not-reproduced-alone(harness concurrency)");
                    continue;
                }
                chk.ev.label(&format!("reported:rejected:{sig}"));
                let (small, v2) = shrink_verdict(spec, &raw_sig);
                let v = v2.as_ref().unwrap_or(v);
                save_violation(chk, "abiding", &format!("rejected:{sig}"), &format!("a rule-abiding application was rejected ({} shrunk from {} to {} registrations):\n{}", sig, count_regs(spec), count_regs(&small), v.brief()), &small, json!({"k": k}));
            } else {
                if nontrivial_c02(spec) {
                    chk.ev.nontrivial.insert(fnv(&serde_json::to_string(spec).unwrap()));
                }
                for l in shape_labels(spec) {
                    chk.ev.label(l);
                }
                if chk.ev.samples.len() < 3 {
                    chk.ev.sample(json!({"verdict": "accepted", "app": spec_summary(spec)}));
                }
            }
        }
        if !out.combined.accepted() && (0..n).all(|k| out.individual[k].as_ref().is_some_and(|v| v.accepted())) {
            save_violation(chk, "abiding", "combination-rejected", &format!("every sub-application is accepted alone, but nesting them under distinct prefixes is rejected:\n{}", out.combined.brief()), &specs[0], json!({"all_specs": specs}));
        }
        chk.ev.label(if out.combined.accepted() { "round:combined-accepted" } else { "round:combined-rejected" });
        return;
    }
    // ---- C01: accepted => the SDK compiles
    if prop == "C01" {
        let accepted: Vec<usize> = (0..n).filter(|k| out.in_sdk[*k]).collect();
        chk.ev.evaluations += accepted.len() as u64;
        chk.ev.label_n("sub-apps:accepted", accepted.len() as u64);
        chk.ev.label_n("sub-apps:rejected", (n - accepted.len()) as u64);
        if let Some(b) = &out.sdk_build {
            if !b.ok() {
                // which sub-application(s) of the round does rustc reject? each accepted one is compiled alone
                let lane = lane("shrink");
                let mut culprits: Vec<(usize, String, String)> = vec![];
                for k in &accepted {
                    if let Some((sig, text)) = sdk_rejected_alone(&lane, &specs[*k]) {
                        culprits.push((*k, sig, text));
                    }
                }
                if culprits.is_empty() {
                    // only the combination fails to compile
                    let sig = rustc_signature(&b.stderr);
                    save_violation(
                        chk,
                        "sdk-compiles",
                        &format!("sdk-does-not-compile:{sig}"),
                        &format!("pavexc accepted the blueprint but the generated SDK does not compile (only when the sub-applications are nested together):\n{}", b.stderr.chars().take(6000).collect::<String>()),
                        &specs[accepted.first().copied().unwrap_or(0)],
                        json!({"all_specs": specs, "accepted": accepted}),
                    );
                }
                let mut seen_sigs = BTreeSet::new();
                for (k, sig, text) in culprits {
                    if !seen_sigs.insert(sig.clone()) {
                        continue;
                    }
                    let full_sig = format!("sdk-does-not-compile:{sig}");
                    if chk.known.open_entry("C01", &full_sig).is_some() {
                        *chk.ev.known_hits.entry(full_sig).or_insert(0) += 1;
                        continue;
                    }
                    let (small, used) = shrink::shrink(&specs[k], 14, &mut |cand| sdk_rejected_alone(&lane, cand).is_some_and(|(s2, _)| s2 == sig));
                    let text = sdk_rejected_alone(&lane, &small).map(|x| x.1).unwrap_or(text);
                    save_violation(
                        chk,
                        "sdk-compiles",
                        &full_sig,
                        &format!("pavexc accepted the blueprint but the generated SDK does not compile ({} compiler+rustc runs to shrink the application from {} to {} registrations; note: {}):\n{}", used, count_regs(&specs[k]), count_regs(&small), small.note, text.chars().take(5000).collect::<String>()),
                        &small,
                        json!({"k": k}),
                    );
                }
            } else {
                for k in accepted {
                    let spec = &specs[k];
                    if has_move_borrow_alternation(spec) {
                        chk.ev.label("shape:move-borrow-move-borrow-in-one-stage");
                    }
                    for l in shape_labels(spec) {
                        chk.ev.label(l);
                    }
                    if nontrivial_c02(spec) || spec.types.iter().any(|t| t.fallible.is_some()) {
                        chk.ev.nontrivial.insert(fnv(&serde_json::to_string(spec).unwrap()));
                    }
                    if chk.ev.samples.len() < 3 {
                        chk.ev.sample(json!({"verdict": "accepted, SDK compiles", "app": spec_summary(spec)}));
                    }
                }
            }
        }
        return;
    }
    // ---- runtime properties
    let Some(banner) = &out.banner else {
        if out.sdk_build.as_ref().is_some_and(|b| !b.ok()) {
            chk.ev.label("round:sdk-build-failed(reported-by-C01)");
        }
        return;
    };
    if banner.get("fatal").is_some() {
        chk.ev.label("round:application-state-failed");
        return;
    }
    let build_events = banner["events"].as_array().cloned().unwrap_or_default();
    let mut by_id: std::collections::BTreeMap<(usize, usize), &Value> = Default::default();
    for r in &out.responses {
        if let (Some(k), Some(i)) = (r["id"][0].as_u64(), r["id"][1].as_u64()) {
            by_id.insert((k as usize, i as usize), r);
        }
    }
    for (k, spec) in specs.iter().enumerate() {
        if !out.in_sdk[k] {
            continue;
        }
        let routes = model::routes(spec);
        let (_, index) = script_for(spec, k, with_failures);
        let mut sampled = false;
        for l in shape_labels(spec) {
            chk.ev.label(l);
        }
        for (i, (_, ri, plan)) in index.iter().enumerate() {
            let Some(resp) = by_id.get(&(k, i)) else { continue };
            let route = &routes[*ri];
            let failing = oracles::plan_fails(plan);
            let res = match prop {
                "C05" => {
                    if failing {
                        continue;
                    }
                    oracles::check_order(spec, k, route, plan, resp)
                }
                "C03" => oracles::check_lifecycles(spec, k, route, &build_events, resp, false),
                "C04" => oracles::check_lifecycles(spec, k, route, &build_events, resp, true),
                _ => {
                    if !failing {
                        continue;
                    }
                    oracles::check_failure(spec, k, route, plan, resp)
                }
            };
            chk.ev.evaluations += 1;
            match res {
                Ok(labels) => {
                    let nontrivial = match prop {
                        "C05" => labels.iter().any(|l| l.starts_with("shape:wrap") || l.starts_with("shape:>=11") || l.starts_with("plan:")),
                        "C03" => labels.iter().any(|l| l.starts_with("request-scoped:shared") || l.starts_with("transient:>=2")) || failing,
                        "C04" => labels.iter().any(|l| l == "ctor-resolution:override" || l == "clone-observed" || l == "generic-ctor-resolution:concrete"),
                        _ => labels.iter().any(|l| l == "failed:shared-constructor" || l == "failure-inside-wrapped-pipeline" || l == "observers>=2"),
                    };
                    if nontrivial {
                        chk.ev.nontrivial.insert(fnv(&format!("{}|{}|{:?}", serde_json::to_string(spec).unwrap(), ri, plan)));
                        if !sampled && chk.ev.samples.len() < 4 {
                            sampled = true;
                            chk.ev.sample(json!({"app": spec_summary(spec), "route": route.full_path, "plan": plan, "labels": labels, "status": resp["status"], "events": resp["events"].as_array().map(|a| a.len())}));
                        }
                    }
                    let uniq: BTreeSet<String> = labels.into_iter().collect();
                    for l in uniq {
                        chk.ev.label(&l);
                    }
                }
                Err((sig, msg)) => {
                    save_violation(chk, "pipeline", &sig, &msg, spec, json!({"k": k, "route": route.full_path, "plan": plan, "response": resp}));
                    return;
                }
            }
        }
    }
}

fn replay_pipeline(chk: &mut Check, path: &std::path::Path) {
    let text = std::fs::read_to_string(path).unwrap_or_else(|e| {
        eprintln!("cannot read {}: {e}", path.display());
        std::process::exit(2)
    });
    let doc: Value = serde_json::from_str(&text).unwrap_or(Value::Null);
    let specs: Vec<AppSpec> = if let Some(all) = doc["case"]["extra"]["all_specs"].as_array() {
        all.iter().filter_map(|s| serde_json::from_value(s.clone()).ok()).collect()
    } else {
        serde_json::from_value::<AppSpec>(doc["case"]["spec"].clone()).map(|s| vec![s]).unwrap_or_default()
    };
    if specs.is_empty() {
        eprintln!("replay file {} holds no application spec", path.display());
        std::process::exit(2);
    }
    let prop = chk.settings.prop.clone();
    let lane = lane("replay");
    let with_failures = true;
    let opts = RoundOpts { want_individual: prop == "C02", run_requests: !matches!(prop.as_str(), "C01" | "C02"), solo: false };
    let out = round::run_round(&lane, &specs, &opts, &|k| script_for(&specs[k], k, with_failures).0);
    if let Some(e) = &out.infra_error {
        eprintln!("INFRA: {e}");
        std::process::exit(2);
    }
    evaluate_round(chk, &prop, &specs, &out, with_failures);
}

// ------------------------------------------------------------------------------------------
// Routing family (C07; the domain-guarded variant also serves C20 b)
// ------------------------------------------------------------------------------------------

fn witness(pattern: &str) -> String {
    pattern
        .split('/')
        .map(|s| {
            if let Some(i) = s.find("{*") {
                format!("{}w1/w2", &s[..i])
            } else if let Some(i) = s.find('{') {
                format!("{}v7", &s[..i])
            } else {
                s.to_string()
            }
        })
        .collect::<Vec<_>>()
        .join("/")
}

fn domain_witness(guard: &str) -> String {
    model::domain_labels(guard)
        .iter()
        .map(|(k, lit)| match k {
            Some(true) => format!("w1.w2{lit}"),
            Some(false) => format!("v7{lit}"),
            None => lit.clone(),
        })
        .collect::<Vec<_>>()
        .join(".")
}

/// (method, path, host) probes for one routing application.
fn routing_probes(spec: &AppSpec) -> Vec<(String, String, Option<String>)> {
    let routes = model::routes(spec);
    let scopes = model::scope_infos(spec);
    let mut hosts: Vec<Option<String>> = vec![Some("localhost".to_string())];
    let guards: BTreeSet<String> = routes.iter().filter_map(|r| r.domain.clone()).collect();
    if !guards.is_empty() {
        hosts.clear();
        for g in &guards {
            let w = domain_witness(g);
            hosts.push(Some(w.clone()));
            hosts.push(Some(format!("{w}.")));
            hosts.push(Some(format!("{w}..")));
            hosts.push(Some(format!("{w}:8080")));
            hosts.push(Some(format!("extra.{w}")));
            hosts.push(Some(w.to_ascii_uppercase()));
            if let Some((_, rest)) = w.split_once('.') {
                hosts.push(Some(rest.to_string()));
            }
            if g.starts_with("{*") {
                // a leading catch-all stands for one or more labels, however many: a host of more than 253 bytes
                // (four 60-character labels in front of the witness), also in absolute form
                let long = format!("{}{w}", format!("{}.", "l".repeat(60)).repeat(4));
                hosts.push(Some(long.clone()));
                hosts.push(Some(format!("{long}.")));
            }
        }
        hosts.push(Some("nope.example".to_string()));
        hosts.push(None);
    }
    let mut paths: BTreeSet<String> = BTreeSet::new();
    for r in &routes {
        let w = witness(&r.full_path);
        paths.insert(w.clone());
        paths.insert(format!("{w}/extra"));
        paths.insert(format!("{}/", w.trim_end_matches('/')));
        if let Some((head, _)) = w.trim_end_matches('/').rsplit_once('/') {
            if !head.is_empty() {
                paths.insert(head.to_string());
            }
        }
        // static sibling of a parameter / parameter sibling of a static segment
        if let Some((head, _)) = w.rsplit_once('/') {
            paths.insert(format!("{head}/a"));
            paths.insert(format!("{head}/zz"));
            paths.insert(format!("{head}/u_9"));
        }
    }
    for s in &scopes {
        if s.own_prefix {
            let w = witness(&s.full_prefix);
            paths.insert(w.clone());
            paths.insert(format!("{w}x"));
            paths.insert(format!("{w}/"));
            paths.insert(format!("{w}/zz/zz"));
        }
    }
    paths.insert("/".to_string());
    paths.insert("/zz".to_string());
    let methods = ["GET", "POST", "DELETE", "HEAD", "FOO", "BAR", "OPTIONS", "PUT", "GeT", "get", "purge", "PURGE"];
    let mut out = vec![];
    for (pi, p) in paths.iter().enumerate() {
        for (hi, h) in hosts.iter().enumerate() {
            // all methods on the first host, a rotating pair on the others
            for (mi, m) in methods.iter().enumerate() {
                if hi == 0 || (mi + pi + hi) % 5 == 0 {
                    out.push((m.to_string(), p.clone(), h.clone()));
                }
            }
        }
    }
    out
}

fn routing_script(spec: &AppSpec, k: usize, solo: bool) -> (Vec<Value>, Vec<(String, String, Option<String>)>) {
    let probes = routing_probes(spec);
    let prefix = if solo { String::new() } else { format!("/s{k}") };
    let reqs = probes
        .iter()
        .enumerate()
        .map(|(i, (m, p, h))| round::request(json!([k, i]), m, &format!("{prefix}{p}"), h.as_deref(), &[]))
        .collect();
    (reqs, probes)
}

fn observed_route(spec: &AppSpec, k: usize, resp: &Value) -> Result<model::Routed, String> {
    let body = resp["body"].as_str().unwrap_or("");
    let status = resp["status"].as_u64().unwrap_or(0);
    let events = resp["events"].as_array().cloned().unwrap_or_default();
    let entered: Vec<String> = events.iter().filter(|e| e["e"] == "enter").map(|e| e["c"].as_str().unwrap_or("").to_string()).collect();
    let idx_of = |name: &str| (0..spec.comps.len()).find(|i| emit::comp_name(k, *i) == name);
    if entered.len() > 1 {
        return Err(format!("more than one component ran: {entered:?}"));
    }
    if let Some(name) = entered.first() {
        let Some(idx) = idx_of(name) else { return Err(format!("a component of another sub-application ran: {name}")) };
        return match spec.comps[idx].kind {
            CompKind::Handler => Ok(model::Routed::Handler(idx)),
            CompKind::Fallback => {
                let allowed = events
                    .iter()
                    .find(|e| e["e"] == "note" && e["k"] == "allowed")
                    .map(|e| e["v"].as_str().unwrap_or("").to_string())
                    .unwrap_or_default();
                let allowed = if allowed == "*" { None } else { Some(allowed.split(',').filter(|s| !s.is_empty()).map(|s| s.to_string()).collect()) };
                Ok(model::Routed::Fallback { comp: Some(idx), allowed })
            }
            _ => Err(format!("unexpected component {name}")),
        };
    }
    // nothing of ours ran: the framework's default fallback
    let allow: Vec<String> = resp["headers"]
        .as_array()
        .and_then(|h| h.iter().find(|p| p[0] == "allow"))
        .map(|p| p[1].as_str().unwrap_or("").split(',').map(|s| s.trim().to_string()).filter(|s| !s.is_empty()).collect())
        .unwrap_or_default();
    match status {
        404 if body.is_empty() => Ok(model::Routed::Fallback { comp: None, allowed: Some(vec![]) }),
        405 => {
            let mut a = allow;
            a.sort();
            Ok(model::Routed::Fallback { comp: None, allowed: Some(a) })
        }
        _ => Err(format!("unrecognised response: status {status}, body `{body}`")),
    }
}

fn routing_family(mut chk: Check) -> ! {
    let prop = chk.settings.prop.clone();
    let tier = chk.tier();
    let with_domains = chk.settings.extra.get("domains").is_some() || prop == "C20";
    chk.ev.rule = "route tables generated from a segment grammar (static a/b/c, {param}, u_{param}, {*catch_all}, trailing slashes, `/`), 9 method sets (single, several, custom methods FOO/BAR, any-method), nested blueprints with static/parametric prefixes up to depth 3, fallbacks at any level, optionally domain guards (static, {sub}, {*any}, {t}-suffix, trailing dot) - conflict-free by construction; x probes per table: every route's witness path, near misses (extra/missing segment, trailing slash, static/param siblings), every nesting prefix (exact, +x, +/, +/zz/zz), 8 methods, Host in {witness, +'.', +'..', :port, extra label, upper case, one label fewer, foreign, absent}. Oracle: an independent reference router (handler identity, or fallback identity + the AllowedMethods it observed / 404 / 405+Allow). non-trivial = a request that matches a path but not a method, or reaches a nested fallback, or uses a parameter/catch-all, or a custom method; distinct = distinct (table, probe)".into();
    chk.ev.assume("static-over-parameter priority is matchit's rule, not Pavex's own text: probes decided only by it are labelled; host case is not documented: hosts differing only in case are classified");
    let (n_rounds, k_per_round, n_lanes) = match (tier, with_domains) {
        (Tier::Quick, false) => (9usize, 6usize, 3usize),
        (Tier::Thorough, false) => (60, 8, 6),
        // domain-guarded applications are compiled one by one (guards are all-or-nothing per application)
        (Tier::Quick, true) => (18, 1, 3),
        (Tier::Thorough, true) => (180, 1, 6),
    };
    let solo = with_domains;
    if let Some(p) = chk.settings.replay.clone() {
        replay_routing(&mut chk, &p);
        chk.finish();
    }
    for p in chk.committed_replays() {
        replay_routing(&mut chk, &p);
    }
    // both campaigns unless one was asked for explicitly
    let campaigns: Vec<bool> = if chk.settings.extra.contains_key("domains") { vec![true] } else if chk.settings.extra.contains_key("no-domains") { vec![false] } else { vec![false, true] };
    for with_domains in campaigns {
    let (n_rounds, k_per_round, n_lanes) = match (tier, with_domains) {
        (Tier::Quick, false) => (9usize, 6usize, 3usize),
        (Tier::Thorough, false) => (60, 8, 6),
        (Tier::Quick, true) => (18, 1, 3),
        (Tier::Thorough, true) => (180, 1, 6),
    };
    let solo = with_domains;
    let sub = if with_domains { "routing-domains" } else { "routing" };
    let mut runner = chk.settings.runner(sub, (n_rounds * k_per_round) as u32);
    let strat = genr::routing_genome(with_domains);
    let rounds: Vec<Vec<AppSpec>> = (0..n_rounds)
        .map(|_| (0..k_per_round).map(|k| genr::build_routing(&strat.new_tree(&mut runner).unwrap().current(), k)).collect())
        .collect();
    let results: Vec<(usize, RoundOutcome)> = std::thread::scope(|s| {
        let rounds = &rounds;
        let hs: Vec<_> = (0..n_lanes)
            .map(|l| {
                s.spawn(move || {
                    let lane = lane(&format!("l{l}"));
                    let mut out = vec![];
                    for (ri, specs) in rounds.iter().enumerate() {
                        if ri % n_lanes != l {
                            continue;
                        }
                        let o = round::run_round(&lane, specs, &RoundOpts { want_individual: false, run_requests: true, solo }, &|k| routing_script(&specs[k], k, solo).0);
                        out.push((ri, o));
                    }
                    out
                })
            })
            .collect();
        hs.into_iter().flat_map(|h| h.join().unwrap()).collect()
    });
    let mut results = results;
    results.sort_by_key(|(ri, _)| *ri);
    for (ri, out) in &results {
        if let Some(e) = &out.infra_error {
            eprintln!("INFRA property={prop} round={ri}: {e}");
            chk.ev.write();
            std::process::exit(2);
        }
        evaluate_routing(&mut chk, &rounds[*ri], out, solo);
    }
    }
    if prop == "C20" {
        // two guards that can match the same host are rejected (also when one of the two guarded blueprints holds
        // nothing but a fallback): planted on rule-abiding applications whose routes all move below a guard
        let n = if tier == Tier::Quick { 16 } else { 200 };
        let bases = draw_abiding(&chk, "c20-overlap", n);
        let cases: Vec<(AppSpec, String, bool)> = bases
            .iter()
            .enumerate()
            .filter_map(|(i, b)| genr::plant(b, 14, ((vcommon::fnv(&format!("{}-ov-{i}", chk.settings.seed)) >> 7) & 0xffff) as u16))
            .map(|p| (p.spec, p.what, p.nontrivial))
            .collect();
        let lane = lane("l0");
        for chunk in cases.chunks(8) {
            eval_planted(&mut chk, &lane, chunk);
        }
    }
    chk.finish()
}

fn evaluate_routing(chk: &mut Check, specs: &[AppSpec], out: &RoundOutcome, solo: bool) {
    if !out.combined.accepted() {
        for (k, spec) in specs.iter().enumerate() {
            if let Some(v) = out.individual.get(k).and_then(|v| v.as_ref()) {
                if !v.accepted() {
                    if !rejection_confirmed(spec, &v.signature()) {
                        chk.ev.label("rejection-not-reproduced-alone(harness concurrency)");
                        continue;
                    }
                    save_violation(chk, "routing", &format!("table-rejected:{}", v.signature()), &format!("a conflict-free route table was rejected:\n{}", v.brief()), spec, json!({"k": k}));
                    return;
                }
            }
        }
    }
    if !out.combined.accepted() && !solo && out.individual.iter().all(|v| v.as_ref().is_some_and(|v| v.accepted())) {
        // every table is accepted alone, but nesting them under distinct static prefixes `/s<k>` is rejected
        save_violation(chk, "routing", &format!("combination-rejected:{}", out.combined.signature()), &format!("every route table of the round is accepted on its own, but the same tables nested under distinct prefixes /s<k> are rejected:\n{}", out.combined.brief()), &specs[0], json!({"all_specs": specs}));
        return;
    }
    let Some(banner) = &out.banner else {
        if let Some(b) = &out.sdk_build {
            if !b.ok() {
                save_violation(chk, "routing", "sdk-does-not-compile", &b.stderr.chars().take(3000).collect::<String>(), &specs[0], json!({"all_specs": specs}));
            }
        }
        return;
    };
    if banner.get("fatal").is_some() {
        save_violation(chk, "routing", "server-does-not-start", &banner.to_string(), &specs[0], json!({"all_specs": specs}));
        return;
    }
    let mut by_id: std::collections::BTreeMap<(usize, usize), &Value> = Default::default();
    for r in &out.responses {
        if let (Some(k), Some(i)) = (r["id"][0].as_u64(), r["id"][1].as_u64()) {
            by_id.insert((k as usize, i as usize), r);
        }
    }
    for (k, spec) in specs.iter().enumerate() {
        if !out.in_sdk[k] {
            continue;
        }
        let (_, probes) = routing_script(spec, k, solo);
        let mut sampled = 0;
        {
            let mut routeless_guarded = false;
            spec.walk_regs(&mut |r, _| {
                if let Reg::Nest { domain: Some(_), bp, .. } = r {
                    if !bp.iter().any(|x| matches!(x, Reg::Comp { idx } if spec.comps[*idx].kind == CompKind::Handler)) {
                        routeless_guarded = true;
                    }
                }
            });
            if routeless_guarded {
                chk.ev.label("table:guarded-blueprint-without-a-route-of-its-own");
            }
        }
        for (i, (m, p, h)) in probes.iter().enumerate() {
            let Some(resp) = by_id.get(&(k, i)) else { continue };
            chk.ev.evaluations += 1;
            let (want, notes) = model::route_request(spec, m, p, h.as_deref());
            let got = match observed_route(spec, k, resp) {
                Ok(g) => g,
                Err(e) => {
                    save_violation(chk, "routing", "unrecognised-response", &format!("{m} {p} Host={h:?}: {e}"), spec, json!({"k": k, "probe": [m, p, h], "response": resp}));
                    return;
                }
            };
            if notes.host_case_differs {
                chk.ev.label("host:case-differs(classified)");
                continue;
            }
            if got != want {
                let sig = if notes.via_parametric_prefix {
                    "fallback:unmatched-path-under-parametric-prefix"
                } else if notes.exact_prefix {
                    "fallback:path-equals-nesting-prefix"
                } else if notes.priority_used {
                    "static-vs-parameter-priority"
                } else if h.as_deref().is_some_and(|h| h.ends_with("..")) {
                    "host:two-trailing-dots"
                } else {
                    match (&got, &want) {
                        (model::Routed::Handler(_), model::Routed::Handler(_)) => "wrong-handler",
                        (model::Routed::Handler(_), _) => "handler-instead-of-fallback",
                        (_, model::Routed::Handler(_)) => "fallback-instead-of-handler",
                        (model::Routed::Fallback { comp: a, .. }, model::Routed::Fallback { comp: b, .. }) if a != b => "wrong-fallback",
                        _ => "wrong-allowed-methods",
                    }
                };
                let name = |r: &model::Routed| match r {
                    model::Routed::Handler(i) => format!("handler {} ({} {})", emit::comp_name(k, *i), spec.comps[*i].route.as_ref().map(|r| r.methods.join("|")).unwrap_or_default(), spec.comps[*i].route.as_ref().map(|r| r.path.clone()).unwrap_or_default()),
                    model::Routed::Fallback { comp: Some(i), allowed } => format!("fallback {} seeing allowed={allowed:?}", emit::comp_name(k, *i)),
                    model::Routed::Fallback { comp: None, allowed } => format!("the framework's default fallback with allowed={allowed:?}"),
                };
                let table: Vec<String> = model::routes(spec).iter().map(|r| format!("{} {}{}", if r.methods.is_empty() { "ANY".to_string() } else { r.methods.join("|") }, r.domain.clone().map(|d| format!("[{d}] ")).unwrap_or_default(), r.full_path)).collect();
                save_violation(
                    chk,
                    "routing",
                    sig,
                    &format!("request `{m} {p}` Host={h:?}\n  reference router: {}\n  generated server: {}\n  route table: {table:?}\n  fallbacks: {:?}", name(&want), name(&got), model::scope_infos(spec).iter().filter(|s| s.fallback.is_some()).map(|s| format!("scope prefix `{}` domain {:?}", s.full_prefix, s.domain)).collect::<Vec<_>>()),
                    spec,
                    json!({"k": k, "probe": [m, p, h], "response": resp}),
                );
                if chk.known.open_entry(&chk.settings.prop, sig).is_some() {
                    continue;
                }
                return;
            }
            let nontrivial = notes.method_miss || notes.nested_fallback || notes.used_param || notes.custom_method;
            if nontrivial {
                chk.ev.nontrivial.insert(fnv(&format!("{}|{m} {p} {h:?}", serde_json::to_string(spec).unwrap())));
                if sampled < 1 && chk.ev.samples.len() < 5 {
                    sampled += 1;
                    chk.ev.sample(json!({"probe": format!("{m} {p} Host={h:?}"), "routed_to": format!("{want:?}"), "status": resp["status"], "table": model::routes(spec).iter().map(|r| format!("{} {}", r.methods.join("|"), r.full_path)).collect::<Vec<_>>()}));
                }
            }
            for (l, on) in [("method-miss", notes.method_miss), ("nested-fallback", notes.nested_fallback), ("param-or-catch-all", notes.used_param), ("custom-method", notes.custom_method), ("priority-decided", notes.priority_used), ("exact-prefix", notes.exact_prefix), ("method-miss-in-unprefixed-nest-with-own-fallback", notes.unprefixed_nested_fallback), ("domain-matched", notes.domain_matched.is_some())] {
                if on {
                    chk.ev.label(l);
                }
            }
        }
    }
}

fn replay_routing(chk: &mut Check, path: &std::path::Path) {
    let text = std::fs::read_to_string(path).unwrap_or_default();
    let doc: Value = serde_json::from_str(&text).unwrap_or(Value::Null);
    let specs: Vec<AppSpec> = if let Some(all) = doc["case"]["extra"]["all_specs"].as_array() {
        all.iter().filter_map(|s| serde_json::from_value(s.clone()).ok()).collect()
    } else {
        serde_json::from_value::<AppSpec>(doc["case"]["spec"].clone()).map(|s| vec![s]).unwrap_or_default()
    };
    if specs.is_empty() {
        return;
    }
    let lane = lane("replay");
    if specs[0].note.starts_with("planted") {
        // (C20, end-to-end part: planted overlapping guards are judged like the plants of C08)
        let chunk: Vec<(AppSpec, String, bool)> = specs.iter().map(|s| (s.clone(), s.note.trim_start_matches("planted ").to_string(), true)).collect();
        eval_planted(chk, &lane, &chunk);
        return;
    }
    let solo = specs[0].note.contains("domains");
    let out = round::run_round(&lane, &specs, &RoundOpts { want_individual: true, run_requests: true, solo }, &|k| routing_script(&specs[k], k, solo).0);
    if let Some(e) = &out.infra_error {
        eprintln!("INFRA: {e}");
        std::process::exit(2);
    }
    evaluate_routing(chk, &specs, &out, solo);
}

// ------------------------------------------------------------------------------------------
// C08: exactly one planted rule violation => rejected with a diagnostic, no SDK produced
// ------------------------------------------------------------------------------------------

fn draw_abiding(chk: &Check, sub: &str, n: usize) -> Vec<AppSpec> {
    let mut runner = chk.settings.runner(sub, n as u32);
    let strat = genr::genome();
    (0..n).map(|_| genr::build_abiding(&strat.new_tree(&mut runner).unwrap().current()).spec).collect()
}

fn planted_check(mut chk: Check) -> ! {
    let tier = chk.tier();
    chk.ev.rule = "a rule-abiding generated application + exactly one planted violation out of 14 documented compile-time rules (missing constructor at any dependency depth, cycle, singleton -> request-scoped, singleton registered in two blueprints, runtime singleton not Send+Sync, never-clone singleton by value, &mut singleton / transient / clone-if-necessary request-scoped, &mut constructor input, clone-if-necessary without Clone, observer needing a fallible constructor (directly or transitively), overlapping routes, PathParams field not in template) at a generated site; the application crate still compiles. Oracle: pavexc exits non-zero with >=1 ERROR diagnostic, does not crash, and leaves the output crate untouched. non-trivial = the planted site sits at dependency depth >=2, or in a nested blueprint, or in a middleware/observer rather than a handler; distinct = distinct planted spec".into();
    let (bases, per_base, lanes) = match tier {
        Tier::Quick => (8usize, 14usize, 3usize),
        Tier::Thorough => (120, 28, 6),
    };
    if let Some(p) = chk.settings.replay.clone() {
        let doc: Value = serde_json::from_str(&std::fs::read_to_string(&p).unwrap_or_default()).unwrap_or(Value::Null);
        let spec: AppSpec = serde_json::from_value(doc["case"]["spec"].clone()).unwrap_or_else(|_| {
            eprintln!("no spec in {}", p.display());
            std::process::exit(2)
        });
        let lane = lane("replay");
        eval_planted(&mut chk, &lane, &[(spec.clone(), spec.note.clone(), true)]);
        chk.finish();
    }
    let bases = chk.settings.extra.get("cases").and_then(|c| c.parse().ok()).unwrap_or(bases);
    // recorded planted applications (shrunk reproductions of repaired defects) run first
    {
        let mut recorded = vec![];
        for f in chk.committed_replays() {
            let doc: Value = serde_json::from_str(&std::fs::read_to_string(&f).unwrap_or_default()).unwrap_or(Value::Null);
            if let Ok(s) = serde_json::from_value::<AppSpec>(doc["case"]["spec"].clone()) {
                let note = s.note.trim_start_matches("planted ").to_string();
                recorded.push((s, note, true));
            }
        }
        if !recorded.is_empty() {
            let lane = lane("l0");
            for c in recorded.chunks(8) {
                eval_planted(&mut chk, &lane, c);
            }
        }
    }
    let base_specs = draw_abiding(&chk, "planted", bases);
    // plant: every rule once (or twice) per base, at a site chosen by the seed
    let mut cases: Vec<(AppSpec, String, bool)> = vec![];
    for (bi, b) in base_specs.iter().enumerate() {
        for j in 0..per_base {
            let rule = j % genr::C08_RULES;
            let raw = ((vcommon::fnv(&format!("{}-{bi}-{j}", chk.settings.seed)) >> 7) & 0xffff) as u16;
            match genr::plant(b, rule, raw) {
                Some(p) => cases.push((p.spec, p.what, p.nontrivial)),
                None => chk.ev.label(&format!("not-applicable:{}", genr::RULES[rule])),
            }
        }
    }
    let chunks: Vec<Vec<(AppSpec, String, bool)>> = cases.chunks(8).map(|c| c.to_vec()).collect();
    let results: Vec<Check> = vec![];
    let _ = results;
    // evaluate chunk by chunk, lanes in parallel (each lane owns a workspace)
    let chunk_groups: Vec<Vec<&Vec<(AppSpec, String, bool)>>> = (0..lanes).map(|l| chunks.iter().enumerate().filter(|(i, _)| i % lanes == l).map(|(_, c)| c).collect()).collect();
    let outcomes: Vec<Vec<(usize, Result<Vec<(round::PavexcVerdict, bool)>, String>)>> = std::thread::scope(|s| {
        let hs: Vec<_> = chunk_groups
            .iter()
            .enumerate()
            .map(|(l, group)| {
                s.spawn(move || {
                    let lane = lane(&format!("l{l}"));
                    group.iter().enumerate().map(|(gi, chunk)| (gi * lanes + l, planted_verdicts(&lane, chunk))).collect::<Vec<_>>()
                })
            })
            .collect();
        hs.into_iter().map(|h| h.join().unwrap()).collect()
    });
    let mut flat: Vec<(usize, Result<Vec<(round::PavexcVerdict, bool)>, String>)> = outcomes.into_iter().flatten().collect();
    flat.sort_by_key(|(i, _)| *i);
    for (ci, res) in flat {
        match res {
            Err(e) => {
                // a planted application that does not even compile is a generator bug, not a verdict
                eprintln!("INFRA property=C08: planted application crate does not compile: {e}");
                chk.ev.write();
                std::process::exit(2);
            }
            Ok(verdicts) => judge_planted(&mut chk, &chunks[ci], &verdicts),
        }
    }
    chk.finish()
}

fn planted_verdicts(lane: &engine::Lane, chunk: &[(AppSpec, String, bool)]) -> Result<Vec<(round::PavexcVerdict, bool)>, String> {
    let specs: Vec<AppSpec> = chunk.iter().map(|c| c.0.clone()).collect();
    round::prepare(lane, &specs)?;
    Ok(std::thread::scope(|s| {
        let hs: Vec<_> = (0..specs.len())
            .map(|k| {
                s.spawn(move || {
                    let before = round::tree_hash(&lane.ws().join(format!("ind/sdk_{k}")));
                    let v = round::verdict_k(lane, k, k, false, &[], None);
                    let after = round::tree_hash(&lane.ws().join(format!("ind/sdk_{k}")));
                    (v, before == after)
                })
            })
            .collect();
        hs.into_iter().map(|h| h.join().unwrap()).collect()
    }))
}

fn eval_planted(chk: &mut Check, lane: &engine::Lane, chunk: &[(AppSpec, String, bool)]) {
    match planted_verdicts(lane, chunk) {
        Ok(v) => judge_planted(chk, chunk, &v),
        Err(e) => {
            eprintln!("INFRA: {e}");
            std::process::exit(2);
        }
    }
}

fn judge_planted(chk: &mut Check, chunk: &[(AppSpec, String, bool)], verdicts: &[(round::PavexcVerdict, bool)]) {
    for ((spec, what, nontrivial), (v, untouched)) in chunk.iter().zip(verdicts) {
        chk.ev.evaluations += 1;
        let rule = what.split(':').next().unwrap_or("?").to_string();
        let ok = v.code == Some(1) && v.n_errors >= 1 && !v.panicked && *untouched;
        if !ok {
            let sig = if v.accepted() {
                format!("accepted:{rule}")
            } else if v.panicked {
                format!("crash-instead-of-diagnostic:{}", v.signature())
            } else if !untouched {
                format!("output-modified:{rule}")
            } else {
                format!("no-error-diagnostic:{rule}")
            };
            save_violation(chk, "planted", &sig, &format!("planted violation: {what}\nexpected: exit 1 with an ERROR diagnostic and an untouched output crate\nobserved: {}", v.brief()), spec, json!({"planted": what}));
            continue;
        }
        chk.ev.label(&format!("rejected:{rule}"));
        {
            // which diagnostic came first (digits normalised): shows whether the planted rule is the one reported
            let first: String = v.stderr.lines().skip_while(|l| !l.starts_with("ERROR:")).nth(1).unwrap_or("").trim().trim_start_matches('×').trim().chars().map(|c| if c.is_ascii_digit() { '#' } else { c }).take(72).collect();
            chk.ev.label(&format!("first-diagnostic:{}:{first}", rule.split('-').next().unwrap_or("")));
        }
        if *nontrivial {
            chk.ev.nontrivial.insert(fnv(&serde_json::to_string(spec).unwrap()));
            if chk.ev.samples.len() < 4 {
                let first = v.stderr.lines().skip_while(|l| !l.starts_with("ERROR:")).nth(1).unwrap_or("").trim().to_string();
                chk.ev.sample(json!({"planted": what, "diagnostic": first, "app": spec_summary(spec)}));
            }
        }
    }
}

// ------------------------------------------------------------------------------------------
// C09: always a verdict (exit 0 with an SDK, or exit 1 with a diagnostic), never a crash;
// a failing run leaves a previously generated SDK byte-for-byte untouched
// ------------------------------------------------------------------------------------------

fn chaos_of(base: &AppSpec, seed: u64) -> AppSpec {
    let mut spec = base.clone();
    let mut s = seed;
    let mut next = || {
        s = s.wrapping_mul(6364136223846793005).wrapping_add(1442695040888963407);
        (s >> 33) as usize
    };
    let mut notes = vec![];
    let n_plant = 1 + next() % 3;
    for _ in 0..n_plant {
        if let Some(p) = genr::plant(&spec, next(), next() as u16) {
            spec = p.spec;
            notes.push(p.what);
        }
    }
    // structural oddities (still type-correct Rust)
    let oddity = match next() % 15 {
        // (the observer-only cycle is drawn more often than the others: it needs three things at once)
        12 | 13 | 14 => 7,
        x => x,
    };
    let force_observer_cycle = oddity == 7 && next() % 3 != 0;
    match oddity {
        11 => {
            spec.peel = true;
            notes.push("a generic constructor whose input is a deeper instantiation of its own output (GP<T> needs &GP<GP<T>>)".into());
        }
        9 | 10 => {
            // generic constructors instantiated with anything, whatever the lifecycles
            let mut registered = vec![];
            spec.walk_regs(&mut |r, _| {
                if let Reg::Comp { idx } = r {
                    registered.push(*idx);
                }
            });
            let sites: Vec<usize> = registered.into_iter().filter(|c| matches!(spec.comps[*c].kind, CompKind::Handler | CompKind::Pre | CompKind::Post | CompKind::Wrap)).collect();
            if !sites.is_empty() && !spec.types.is_empty() {
                for _ in 0..(1 + next() % 3) {
                    let c = sites[next() % sites.len()];
                    let g = ((next() % 4) as u8, next() % spec.types.len());
                    if !spec.comps[c].gens.contains(&g) {
                        spec.comps[c].gens.push(g);
                    }
                }
                notes.push("generic constructors instantiated with arbitrary types".into());
            }
        }
        7 if force_observer_cycle => {
            // a dependency cycle that only an error observer can reach (two fresh values, at least one of them
            // transient, that need each other), next to an infallible handler that needs a fallible constructor
            let mk = |life: Life, inputs: Vec<(usize, Mode)>, fallible: Option<usize>| TypeSpec {
                life,
                is_clone: false,
                is_copy: false,
                clone_if_necessary: None,
                inputs,
                fallible,
                is_async: false,
                variants: 1,
                send_sync: true,
                prebuilt: false,
                attr_life: None,
                attr_clone: None,
                allow_unused: false,
                v1_flip: false,
                view_of: None,
                specific_eh: None,
                imported: false,
            };
            let a = spec.types.len();
            let (la, lb) = [(Life::Transient, Life::Transient), (Life::Transient, Life::Request), (Life::Request, Life::Transient)][next() % 3];
            spec.types.push(mk(la, vec![(a + 1, Mode::Ref)], None));
            spec.types.push(mk(lb, vec![(a, if next() % 2 == 0 { Mode::Ref } else { Mode::Move })], None));
            if spec.n_errs == 0 {
                spec.n_errs = 1;
            }
            spec.types.push(mk(Life::Request, vec![], Some(0)));
            for t in a..a + 3 {
                spec.bp.insert(0, Reg::Ctor { ty: t, variant: 0 });
            }
            let obs = spec.comps.len();
            spec.comps.push(CompSpec { kind: CompKind::Observer, inputs: vec![(a, Mode::Ref)], fallible: None, is_async: false, route: None, fw: vec![], gens: vec![] });
            // (registered before every route)
            let first_route = spec.bp.iter().position(|r| !matches!(r, Reg::Ctor { .. })).unwrap_or(spec.bp.len());
            spec.bp.insert(first_route, Reg::Comp { idx: obs });
            let h = spec.comps.len();
            spec.comps.push(CompSpec {
                kind: CompKind::Handler,
                inputs: vec![(a + 2, Mode::Ref)],
                fallible: None,
                is_async: false,
                route: Some(RouteSpec { methods: vec!["GET".into()], path: "/odd7".into(), path_param_fields: vec![], bulk: false }),
                fw: vec![],
                gens: vec![],
            });
            spec.bp.push(Reg::Comp { idx: h });
            notes.push(format!("T{a} and T{} need each other, only error observer x{obs} asks for T{a}; the infallible handler x{h} needs the fallible T{}", a + 1, a + 2));
        }
        7 => {
            // two request-time values that need each other by reference, one of them borrowed by an error observer
            let cands: Vec<usize> = (0..spec.types.len()).filter(|t| spec.types[*t].life != Life::Singleton && !spec.types[*t].prebuilt && spec.types[*t].variants == 1).collect();
            if cands.len() >= 2 {
                let a = cands[next() % cands.len()];
                let b = *cands.iter().find(|t| **t != a).unwrap();
                spec.types[a].inputs = vec![(b, Mode::Ref)];
                spec.types[b].inputs = vec![(a, Mode::Ref)];
                spec.types[a].fallible = None;
                spec.types[b].fallible = None;
                let mut registered = vec![];
                spec.walk_regs(&mut |r, _| {
                    if let Reg::Comp { idx } = r {
                        registered.push(*idx);
                    }
                });
                let obs = match registered.iter().copied().find(|c| spec.comps[*c].kind == CompKind::Observer) {
                    Some(o) => o,
                    None => {
                        let o = spec.comps.len();
                        spec.comps.push(CompSpec { kind: CompKind::Observer, inputs: vec![], fallible: None, is_async: false, route: None, fw: vec![], gens: vec![] });
                        spec.bp.insert(0, Reg::Comp { idx: o });
                        o
                    }
                };
                if !spec.comps[obs].inputs.iter().any(|(t, _)| *t == a) {
                    spec.comps[obs].inputs.push((a, Mode::Ref));
                }
                notes.push(format!("T{a} and T{b} need each other by reference and error observer x{obs} borrows T{a}"));
            }
        }
        8 => {
            // an error observer (or an error handler) that borrows a value sitting on a dependency cycle made of references only
            if let Some(p) = genr::plant(&spec, 1, next() as u16) {
                spec = p.spec;
                notes.push(p.what);
            }
            let on_cycle: Vec<usize> = (0..spec.types.len()).filter(|t| model::closure(&spec, &spec.types[*t].inputs).contains(t)).collect();
            if next() % 2 == 0 {
                // every link of the cycle by reference
                for t in &on_cycle {
                    let inputs = spec.types[*t].inputs.clone();
                    for (n, (i, _)) in inputs.iter().enumerate() {
                        if on_cycle.contains(i) {
                            spec.types[*t].inputs[n].1 = Mode::Ref;
                        }
                    }
                }
            }
            let mut registered = vec![];
            spec.walk_regs(&mut |r, _| {
                if let Reg::Comp { idx } = r {
                    registered.push(*idx);
                }
            });
            let target = registered.iter().copied().find(|c| matches!(spec.comps[*c].kind, CompKind::Observer)).or_else(|| registered.iter().copied().find(|c| matches!(spec.comps[*c].kind, CompKind::ErrHandler { .. })));
            if let (Some(t), Some(c)) = (on_cycle.first(), target) {
                if !spec.comps[c].inputs.iter().any(|(x, _)| x == t) {
                    spec.comps[c].inputs.push((*t, Mode::Ref));
                }
                notes.push(format!("x{c} (error path) borrows T{t}, which sits on a dependency cycle"));
            }
        }
        0 => {
            // duplicate a registration
            if !spec.bp.is_empty() {
                let i = next() % spec.bp.len();
                let r = spec.bp[i].clone();
                spec.bp.push(r);
                notes.push("a registration is duplicated".into());
            }
        }
        1 => {
            // very deep nesting around everything
            let mut inner = std::mem::take(&mut spec.bp);
            for d in 0..(5 + next() % 30) {
                inner = vec![Reg::Nest { prefix: if d % 2 == 0 { Some(format!("/d{d}")) } else { None }, domain: None, bp: inner }];
            }
            spec.bp = inner;
            notes.push("everything sits in a deep chain of nested blueprints".into());
        }
        2 => {
            spec.bp.push(Reg::Nest { prefix: Some(["no-slash", "/trailing/", "/{unclosed", "//", "/{a}/{a}"][next() % 5].into()), domain: None, bp: vec![] });
            notes.push("a nested blueprint with a malformed prefix".into());
        }
        3 => {
            spec.bp.push(Reg::Nest { prefix: None, domain: Some(["not a domain!", "{*a}.{*b}.x", "x..y", "", "{fn}.x.io"][next() % 5].into()), bp: vec![] });
            notes.push("a nested blueprint with a malformed domain guard".into());
        }
        4 => {
            // only constructors, no routes at all
            fn strip(regs: &mut Vec<Reg>, comps: &[CompSpec]) {
                regs.retain(|r| !matches!(r, Reg::Comp { idx } if comps[*idx].kind == CompKind::Handler));
                for r in regs.iter_mut() {
                    if let Reg::Nest { bp, .. } = r {
                        strip(bp, comps);
                    }
                }
            }
            let comps = spec.comps.clone();
            strip(&mut spec.bp, &comps);
            notes.push("no routes are registered".into());
        }
        5 => {
            // domain guard on one nested blueprint only (mixed guarded / unguarded routes)
            for r in spec.bp.iter_mut() {
                if let Reg::Nest { domain, .. } = r {
                    *domain = Some("only.here.test".into());
                    break;
                }
            }
            notes.push("one nested blueprint gets a domain guard, the rest has none".into());
        }
        _ => {}
    }
    spec.note = format!("chaos: {}", notes.join("; "));
    spec
}

fn verdict_check(mut chk: Check) -> ! {
    let tier = chk.tier();
    if std::env::var("PX_WATCHDOG").is_err() {
        // warm compiler runs take 1-5 s; 150 s without an answer is reported as inconclusive
        #[allow(unused_unsafe)]
        unsafe {
            std::env::set_var("PX_WATCHDOG", "150")
        };
    }
    chk.ev.rule = "pairs (rule-abiding base application, chaos variant = 1-3 planted rule violations + a structural oddity: duplicated registration, 5-35 levels of nesting, malformed prefix/domain, no routes, mixed guarded/unguarded routes) compiled into the same output crate: first the base (must be accepted), then the variant. Oracle for every compiler run: terminates within the watchdog, exit status 0 or 1, no panic/abort, exit 0 => Cargo.toml and src/lib.rs exist, exit 1 => at least one ERROR diagnostic; when the variant fails, the SDK generated for the base is byte-for-byte untouched. non-trivial = the variant was rejected (atomicity exercised) or the blueprint has >=25 registrations; distinct = distinct variant spec".into();
    chk.ev.assume("user crates always compile (variants that do not are discarded and counted); a compiler run that does not finish within the watchdog (150 s; warm runs take 1-5 s) makes the check exit 2 (inconclusive) and saves the case, it is never reported as a violation");
    let (n_pairs, lanes) = match tier {
        Tier::Quick => (40usize, 3usize),
        Tier::Thorough => (600, 6),
    };
    let n_pairs = chk.settings.extra.get("cases").and_then(|c| c.parse().ok()).unwrap_or(n_pairs);
    let replay_specs: Vec<AppSpec> = {
        let mut v = vec![];
        let files: Vec<std::path::PathBuf> = match chk.settings.replay.clone() {
            Some(p) => vec![p],
            None => chk.committed_replays(),
        };
        for f in files {
            let doc: Value = serde_json::from_str(&std::fs::read_to_string(&f).unwrap_or_default()).unwrap_or(Value::Null);
            if let Ok(s) = serde_json::from_value::<AppSpec>(doc["case"]["spec"].clone()) {
                v.push(s);
            }
        }
        v
    };
    let only_replay = chk.settings.replay.is_some();
    let bases = if only_replay { vec![] } else { draw_abiding(&chk, "chaos", n_pairs) };
    let mut pairs: Vec<(AppSpec, AppSpec)> = bases.iter().enumerate().map(|(i, b)| (b.clone(), chaos_of(b, chk.settings.sub_seed("chaos") ^ (i as u64 * 7919)))).collect();
    // route tables (prefixes with parameters, catch-alls, fallbacks at every level, domain guards) as variants of a trivial base:
    // every verdict of the compiler must be coherent on them too
    let mut routing_specs: Vec<AppSpec> = vec![];
    if !only_replay {
        let n_tables = if tier == Tier::Quick { 16 } else { 200 };
        let mut runner = chk.settings.runner("chaos-routing", n_tables as u32);
        let plain = genr::routing_genome(false);
        let guarded = genr::routing_genome(true);
        for i in 0..n_tables {
            let g = if i % 2 == 0 { plain.new_tree(&mut runner).unwrap().current() } else { guarded.new_tree(&mut runner).unwrap().current() };
            routing_specs.push(genr::build_routing(&g, i % 8));
        }
    }
    // borrow-checker stress (genr::build_borrow_stress): the fixed points of the borrow checker must terminate with a verdict
    if !only_replay {
        let n = if tier == Tier::Quick { 16 } else { 240 };
        for i in 0..n {
            routing_specs.push(genr::build_borrow_stress(chk.settings.sub_seed("chaos-borrow") ^ (i as u64 + 1).wrapping_mul(0x9e3779b97f4a7c15)));
        }
    }
    // recorded cases: the recorded spec is the variant, a trivial application is the base
    for s in replay_specs.iter().chain(routing_specs.iter()) {
        let mut trivial = AppSpec::default();
        trivial.comps.push(CompSpec { kind: CompKind::Handler, inputs: vec![], fallible: None, is_async: false, route: Some(RouteSpec { methods: vec!["GET".into()], path: "/".into(), path_param_fields: vec![], bulk: false }), fw: vec![], gens: vec![] });
        trivial.bp.push(Reg::Comp { idx: 0 });
        trivial.note = "trivial base".into();
        pairs.push((trivial, s.clone()));
    }
    let chunks: Vec<Vec<(AppSpec, AppSpec)>> = pairs.chunks(4).map(|c| c.to_vec()).collect();
    let groups: Vec<Vec<usize>> = (0..lanes).map(|l| (0..chunks.len()).filter(|i| i % lanes == l).collect()).collect();
    type PairOut = (round::PavexcVerdict, Option<round::PavexcVerdict>, bool, bool);
    let outs: Vec<(usize, Result<Vec<PairOut>, String>)> = std::thread::scope(|s| {
        let chunks = &chunks;
        let hs: Vec<_> = groups
            .iter()
            .enumerate()
            .map(|(l, g)| {
                s.spawn(move || {
                    let lane = lane(&format!("l{l}"));
                    g.iter()
                        .map(|ci| {
                            let chunk = &chunks[*ci];
                            let specs: Vec<AppSpec> = chunk.iter().flat_map(|(b, v)| [b.clone(), v.clone()]).collect();
                            let r = match round::prepare(&lane, &specs) {
                                Err(e) => Err(e),
                                Ok(()) => Ok(std::thread::scope(|s2| {
                                    let lane = &lane;
                                    let hs: Vec<_> = (0..chunk.len())
                                        .map(|p| {
                                            s2.spawn(move || {
                                                let dir = lane.ws().join(format!("ind/sdk_{p}"));
                                                let vb = round::verdict_k(lane, 2 * p, p, false, &[], None);
                                                if !vb.accepted() {
                                                    return (vb, None, true, true);
                                                }
                                                let files_ok = dir.join("Cargo.toml").exists() && std::fs::read_to_string(dir.join("src/lib.rs")).is_ok_and(|s| !s.is_empty());
                                                let before = round::tree_hash(&dir);
                                                let vv = round::verdict_k(lane, 2 * p + 1, p, false, &[], None);
                                                let after = round::tree_hash(&dir);
                                                (vb, Some(vv), files_ok, before == after)
                                            })
                                        })
                                        .collect();
                                    hs.into_iter().map(|h| h.join().unwrap()).collect::<Vec<_>>()
                                })),
                            };
                            (*ci, r)
                        })
                        .collect::<Vec<_>>()
                })
            })
            .collect();
        hs.into_iter().flat_map(|h| h.join().unwrap()).collect()
    });
    let mut outs = outs;
    outs.sort_by_key(|(i, _)| *i);
    let mut watchdog_hits = 0u32;
    for (ci, res) in outs {
        let chunk = &chunks[ci];
        let verdicts = match res {
            Err(e) => {
                // one of the variants does not compile as Rust: not a compiler verdict; re-run the chunk one by one? (rare) -> count and skip
                chk.ev.label("chunk-skipped:user-crate-does-not-compile");
                let _ = e;
                continue;
            }
            Ok(v) => v,
        };
        for ((base, variant), (vb, vv, files_ok, untouched)) in chunk.iter().zip(verdicts) {
            for (which, spec, v) in [("base", base, Some(&vb)), ("variant", variant, vv.as_ref())] {
                let Some(v) = v else { continue };
                chk.ev.evaluations += 1;
                if v.timed_out && v.cpu_bound {
                    // the compiler process burnt its whole CPU budget (load-independent; warm runs need 1-5 s of CPU): it does not terminate
                    let sig = if genr::transient_needed_by_own_error_handler(spec) { "does-not-terminate:transient-needed-by-its-own-error-handler" } else { "does-not-terminate:cpu-budget-exhausted" };
                    save_violation(&mut chk, "chaos", sig, &format!("pavexc itself used more than {} s of CPU time on a {which} application ({}) without producing a verdict; comparable applications take 1-5 s", engine::cpu_limit_secs(), spec.note), spec, json!({"which": which}));
                    continue;
                }
                if v.timed_out {
                    // a wall-clock limit cannot prove non-termination: reported as inconclusive (exit 2), the case is kept for inspection
                    eprintln!("INCONCLUSIVE property=C09: pavexc did not finish within the watchdog ({} s) on a {which} application ({}); normal runs take 1-5 s", engine::watchdog_secs(), spec.note);
                    let dir = std::path::Path::new(vcommon::VERIF_ROOT).join(".work/violations/C09");
                    let _ = std::fs::create_dir_all(&dir);
                    let f = dir.join(format!("watchdog-seed{}-{}.json", chk.settings.seed, chk.ev.evaluations));
                    let _ = std::fs::write(&f, serde_json::to_string_pretty(&json!({"property": "C09", "campaign": "chaos", "signature": "watchdog", "message": "compiler did not terminate within the watchdog", "case": {"spec": spec}})).unwrap());
                    eprintln!("INCONCLUSIVE case saved to {}", f.display());
                    chk.ev.label("watchdog");
                    watchdog_hits += 1;
                    continue;
                }
                let sig = v.signature();
                if v.panicked {
                    save_violation(&mut chk, "chaos", &sig, &format!("pavexc crashed on a {which} application ({}):\n{}\n{}", spec.note, v.panic_message(), v.brief()), spec, json!({"which": which}));
                    continue;
                }
                let coherent = match v.code {
                    Some(0) => v.n_errors == 0,
                    Some(1) => v.n_errors >= 1,
                    _ => false,
                };
                if !coherent {
                    save_violation(&mut chk, "chaos", &format!("incoherent-verdict:exit{:?}-errors{}", v.code, v.n_errors), &format!("exit status and diagnostics disagree on a {which} application ({}):\n{}", spec.note, v.brief()), spec, json!({"which": which}));
                    continue;
                }
                chk.ev.label(&format!("{which}:{}", if v.accepted() { "accepted" } else { "rejected" }));
            }
            if vb.accepted() && !files_ok {
                save_violation(&mut chk, "chaos", "accepted-without-sdk", "exit 0 but Cargo.toml / src/lib.rs are missing or empty", base, json!({}));
            }
            if let Some(vv) = &vv {
                if !vv.accepted() && !vv.panicked && !untouched {
                    save_violation(&mut chk, "chaos", "failed-run-modified-sdk", &format!("the compiler failed on the variant ({}) but the SDK generated for the base application was modified", variant.note), variant, json!({"base": base}));
                }
                if !vv.accepted() {
                    chk.ev.label("atomicity-exercised");
                    chk.ev.nontrivial.insert(fnv(&serde_json::to_string(variant).unwrap()));
                    if chk.ev.samples.len() < 4 {
                        chk.ev.sample(json!({"variant": variant.note, "verdict": vv.signature(), "base_sdk_untouched": untouched}));
                    }
                } else if count_regs(variant) >= 25 {
                    chk.ev.nontrivial.insert(fnv(&serde_json::to_string(variant).unwrap()));
                }
            }
        }
    }
    if watchdog_hits > 0 && chk.ev.violations == 0 {
        chk.ev.write();
        eprintln!("INCONCLUSIVE property=C09: {watchdog_hits} compiler run(s) hit the watchdog");
        std::process::exit(2);
    }
    chk.finish()
}

// ------------------------------------------------------------------------------------------
// C10: determinism, cache independence, idempotence, --check
// ------------------------------------------------------------------------------------------

fn determinism_check(mut chk: Check) -> ! {
    let tier = chk.tier();
    chk.ev.rule = "accepted generated applications (pipeline and routing families) x a history of compiler runs on the same output crate: generate; generate again; --check; delete the output and regenerate in fresh processes with RAYON_NUM_THREADS in {1,2,16}; perturb one byte of lib.rs then --check, then regenerate; (thorough) regenerate with a cold documentation cache and with the cache of another lane. Oracle: Cargo.toml, src/lib.rs and the diagnostics graph are byte-identical across all runs; re-running does not touch mtimes; --check exits 0 iff nothing would change, exits non-zero after the perturbation, and never modifies a file. non-trivial = history with >=4 generating runs on an application with >=3 routes or >=5 constructors; distinct = distinct spec".into();
    chk.ev.assume("each compiler run is a fresh process (fresh hash seeds); thread interleavings are sampled through RAYON_NUM_THREADS, not enumerated");
    let (n_apps, lanes) = match tier {
        Tier::Quick => (30usize, 6usize),
        Tier::Thorough => (240, 6),
    };
    let n_apps = chk.settings.extra.get("cases").and_then(|c| c.parse().ok()).unwrap_or(n_apps);
    let mut specs = draw_abiding(&chk, "determinism", n_apps * 2 / 3);
    {
        let mut runner = chk.settings.runner("determinism-routing", n_apps as u32);
        let strat = genr::routing_genome(false);
        for _ in 0..(n_apps - specs.len()) {
            specs.push(genr::build_routing(&strat.new_tree(&mut runner).unwrap().current(), 0));
        }
    }
    // every sixth application is a naming-stress application (several same-named fallible singleton constructors)
    for i in 0..specs.len() {
        let mix = chk.settings.sub_seed("naming") ^ (i as u64).wrapping_mul(0x9e3779b97f4a7c15);
        if i % 6 == 4 {
            specs[i] = genr::build_naming_stress(mix);
        } else if i % 6 == 2 || i % 6 == 5 {
            // several independent borrow-then-move pairs in one call graph (evaluation order chosen by the compiler)
            specs[i] = genr::build_order_stress(mix);
        } else if i % 6 == 0 {
            specs[i] = genr::build_stage_stress(mix);
        }
    }
    let cold = tier == Tier::Thorough;
    let groups: Vec<Vec<usize>> = (0..lanes).map(|l| (0..specs.len()).filter(|i| i % lanes == l).collect()).collect();
    let outs: Vec<(usize, Result<Vec<String>, (String, String)>)> = std::thread::scope(|s| {
        let specs = &specs;
        let hs: Vec<_> = groups
            .iter()
            .enumerate()
            .map(|(l, g)| s.spawn(move || {
                let lane = lane(&format!("l{l}"));
                let mut out = vec![];
                // up to 6 applications share one build of the application crate
                for batch in g.chunks(6) {
                    let mut batch_specs: Vec<AppSpec> = batch.iter().map(|i| specs[*i].clone()).collect();
                    // the last module is an empty blueprint: "another project" that is generated into the same output crate in between
                    let other = batch_specs.len();
                    batch_specs.push(AppSpec { note: "empty blueprint".into(), ..Default::default() });
                    if let Err(e) = round::prepare(&lane, &batch_specs) {
                        out.extend(batch.iter().map(|i| (*i, Err(("infra".to_string(), e.clone())))));
                        continue;
                    }
                    let lane = &lane;
                    
                    // one compiler process at a time in a lane: the generated manifest is written with
                    // truncate+write, a concurrent `cargo metadata` of a sibling run could read it half-written
                    for (k, i) in batch.iter().enumerate() {
                        out.push((*i, determinism_history(lane, k, other, cold && k == 0)));
                    }
                }
                out
            }))
            .collect();
        hs.into_iter().flat_map(|h| h.join().unwrap()).collect()
    });
    let mut outs = outs;
    outs.sort_by_key(|(i, _)| *i);
    for (i, r) in outs {
        let spec = &specs[i];
        match r {
            Ok(labels) => {
                chk.ev.evaluations += 1;
                if labels.iter().any(|l| l == "skipped:not-accepted") {
                    chk.ev.label("skipped:not-accepted");
                    continue;
                }
                let rich = model::routes(spec).len() >= 3 || spec.types.len() >= 5;
                if rich {
                    chk.ev.nontrivial.insert(fnv(&serde_json::to_string(spec).unwrap()));
                    if chk.ev.samples.len() < 3 {
                        chk.ev.sample(json!({"app": spec_summary(spec), "history": labels}));
                    }
                }
                for l in labels {
                    chk.ev.label(&l);
                }
            }
            Err((sig, msg)) => {
                if sig == "infra" {
                    eprintln!("INFRA property=C10: {msg}");
                    chk.ev.write();
                    std::process::exit(2);
                }
                save_violation(&mut chk, "determinism", &sig, &msg, spec, json!({}));
            }
        }
    }
    chk.finish()
}

fn determinism_history(lane: &engine::Lane, k: usize, other: usize, cold: bool) -> Result<Vec<String>, (String, String)> {
    let mut labels = vec![];
    let dir = lane.ws().join(format!("ind/sdk_{k}"));
    let diag = lane.dir.join(format!("diag-c10-{k}.dot"));
    let sdk_rel = format!("ind/sdk_{k}");
    let sdk_name = format!("sdk_{k}");
    let files = vec![dir.join("Cargo.toml"), dir.join("src/lib.rs"), diag.clone()];
    let fp = || round::fingerprint(&files);
    let hashes = |f: &Vec<(String, Option<(u64, u128)>)>| f.iter().map(|(n, x)| (n.clone(), x.map(|y| y.0))).collect::<Vec<_>>();
    let _ = std::fs::remove_file(&diag);
    let v = round::verdict_k(lane, k, k, false, &[], Some(&diag));
    if !v.accepted() {
        if v.panicked {
            return Ok(vec!["skipped:not-accepted".into()]);
        }
        return Ok(vec!["skipped:not-accepted".into()]);
    }
    let f1 = fp();
    if f1.iter().any(|(_, x)| x.is_none()) {
        return Err(("missing-output".into(), format!("accepted but some outputs are missing: {f1:?}")));
    }
    // 2. run again: nothing changes, nothing is rewritten
    std::thread::sleep(std::time::Duration::from_millis(20));
    let v2 = round::verdict_k(lane, k, k, false, &[], Some(&diag));
    let f2 = fp();
    if !v2.accepted() {
        return Err(("second-run-differs".into(), format!("the second run on unchanged inputs did not succeed: {}", v2.brief())));
    }
    if hashes(&f1) != hashes(&f2) {
        return Err(("not-deterministic".into(), format!("two runs on unchanged inputs produced different bytes: {:?} vs {:?}", hashes(&f1), hashes(&f2))));
    }
    if f1[..2] != f2[..2] {
        return Err(("rewritten-although-unchanged".into(), "re-running on unchanged inputs rewrote Cargo.toml or src/lib.rs (modification time changed)".to_string()));
    }
    labels.push("run:again-same-bytes-same-mtime".into());
    // 3. --check: exit 0, touches nothing
    let vc = round::verdict_k(lane, k, k, true, &[], None);
    let f3 = fp();
    if vc.code != Some(0) {
        return Err(("check-fails-on-fresh-output".into(), format!("--check right after a successful generation: {}", vc.brief())));
    }
    if f3[..2] != f2[..2] {
        return Err(("check-modified-files".into(), "--check modified the generated crate".to_string()));
    }
    labels.push("check:up-to-date".into());
    // 4. fresh output, different thread counts
    for threads in ["1", "2", "16"] {
        lane.reset_crate(&sdk_rel, &sdk_name);
        let _ = std::fs::remove_file(&diag);
        let vt = round::verdict_k(lane, k, k, false, &[("RAYON_NUM_THREADS", threads)], Some(&diag));
        let ft = fp();
        if !vt.accepted() || hashes(&ft) != hashes(&f1) {
            return Err((
                "not-deterministic".into(),
                format!("regenerating with RAYON_NUM_THREADS={threads} gave different output: accepted={} {:?} vs {:?}\n{}", vt.accepted(), hashes(&ft), hashes(&f1), if vt.accepted() { String::new() } else { vt.brief() }),
            ));
        }
        labels.push(format!("run:threads={threads}"));
    }
    // 5. perturb one byte, --check must notice and must not repair
    let lib = dir.join("src/lib.rs");
    let mut content = std::fs::read(&lib).map_err(|e| ("infra".to_string(), e.to_string()))?;
    // (how the file is made stale depends on the application: one more byte, or one byte replaced -
    // same length - at the very end, in the middle or at the start)
    let how = (content.len() / 7 + k) % 4;
    let pos = match how {
        1 => content.len().saturating_sub(2),
        2 => content.len() / 2,
        _ => 0,
    };
    if how == 0 || content.is_empty() {
        content.push(b' ');
    } else {
        content[pos] = if content[pos] == b'x' { b'y' } else { b'x' };
    }
    labels.push(format!("stale:{}", ["one-more-byte", "same-length-last-bytes", "same-length-middle", "same-length-first-byte"][how]));
    std::fs::write(&lib, &content).map_err(|e| ("infra".to_string(), e.to_string()))?;
    let fpert = fp();
    let vc2 = round::verdict_k(lane, k, k, true, &[], None);
    let fafter = fp();
    if vc2.code == Some(0) {
        return Err(("check-misses-stale-output".into(), "--check exits 0 although src/lib.rs differs from what would be generated".to_string()));
    }
    if fafter[..2] != fpert[..2] {
        return Err(("check-modified-files".into(), "--check rewrote a stale file instead of only reporting it".to_string()));
    }
    labels.push("check:stale-detected".into());
    let v5 = round::verdict_k(lane, k, k, false, &[], Some(&diag));
    if !v5.accepted() || hashes(&fp()) != hashes(&f1) {
        return Err(("not-deterministic".into(), "regenerating over a stale file did not restore the original bytes".to_string()));
    }
    // 6. history independence: the output crate was last generated for another blueprint (with
    // another set of dependencies); both directions must give the bytes of a first-time generation
    {
        lane.reset_crate(&sdk_rel, &sdk_name);
        let vo = round::verdict_k(lane, other, k, false, &[], None);
        if vo.accepted() {
            let fo1 = round::fingerprint(&files[..2]);
            let vk = round::verdict_k(lane, k, k, false, &[], Some(&diag));
            if !vk.accepted() || hashes(&fp()) != hashes(&f1) {
                return Err(("history-dependent-output".into(), "generating over an output crate that was last generated for another (empty) blueprint does not give the bytes of a first-time generation".to_string()));
            }
            let vo2 = round::verdict_k(lane, other, k, false, &[], None);
            let fo2 = round::fingerprint(&files[..2]);
            if !vo2.accepted() || hashes(&fo2) != hashes(&fo1) {
                return Err(("history-dependent-output".into(), "generating the empty blueprint over the output of this application does not give the bytes of its first-time generation (stale content is kept)".to_string()));
            }
            // leave the application's own output in place
            let _ = round::verdict_k(lane, k, k, false, &[], Some(&diag));
            labels.push("history:other-project-in-between".into());
        } else {
            labels.push("history:empty-blueprint-not-accepted".into());
        }
    }
    // 7. cache independence (expensive: cold cache)
    if cold {
        let cold_home = lane.dir.join("home-cold");
        let _ = std::fs::remove_dir_all(&cold_home);
        let _ = std::fs::create_dir_all(&cold_home);
        let h = cold_home.display().to_string();
        lane.reset_crate(&sdk_rel, &sdk_name);
        let vcold = round::verdict_k(lane, k, k, false, &[("HOME", &h)], Some(&diag));
        let fc = fp();
        let _ = std::fs::remove_dir_all(&cold_home);
        if !vcold.accepted() || hashes(&fc) != hashes(&f1) {
            return Err(("cache-dependent-output".into(), format!("a run with a cold documentation cache gave different output (accepted={})", vcold.accepted())));
        }
        labels.push("run:cold-cache".into());
    }
    Ok(labels)
}

// ------------------------------------------------------------------------------------------
// C19 part (b): properties written in attributes (and overridden at registration) reach the compiler
// ------------------------------------------------------------------------------------------

fn attrs_family(mut chk: Check) -> ! {
    let tier = chk.tier();
    chk.ev.rule = "part (b), end to end through the real macros, rustdoc JSON and the compiler's attribute parser: rule-abiding generated applications whose lifecycles / cloning policies are written in the attribute and, for a third of the types, written *differently* in the attribute and overridden at registration (.lifecycle / .clone_if_necessary / .never_clone); 1-2 constructors nobody needs, with or without allow(unused); route tables with shorthand attributes, method lists, mixed-case custom methods (GeT, purge), any_method with and without non_standard_methods. Oracle: the styled application is accepted, the running server shows the *effective* lifecycles and cloning behaviour (same oracles as C03/C04), an unused-constructor warning appears iff allow(unused) is absent, every route answers exactly its method set (reference router of C07). non-trivial = an application with >=1 override or a probe with a custom method; distinct = distinct (spec[, probe])".into();
    let (n_rounds, k_per_round, n_lanes, routing_rounds) = match tier {
        Tier::Quick => (3usize, 6usize, 3usize, 3usize),
        Tier::Thorough => (60, 8, 6, 30),
    };
    if let Some(p) = chk.settings.replay.clone() {
        let text = std::fs::read_to_string(&p).unwrap_or_default();
        if text.contains("\"campaign\": \"routing") || text.contains("\"campaign\":\"routing") {
            replay_routing(&mut chk, &p);
        } else {
            replay_pipeline(&mut chk, &p);
        }
        chk.finish();
    }
    // ---- styled pipeline applications
    let mut runner = chk.settings.runner("attrs", (n_rounds * k_per_round) as u32);
    let strat = genr::genome();
    let seed = chk.settings.sub_seed("attrs-style");
    let rounds: Vec<Vec<genr::Styled>> = (0..n_rounds)
        .map(|r| (0..k_per_round).map(|k| genr::apply_attr_styles(&genr::build_abiding(&strat.new_tree(&mut runner).unwrap().current()).spec, seed ^ ((r * 64 + k) as u64).wrapping_mul(0x9e3779b97f4a7c15))).collect())
        .collect();
    let results: Vec<(usize, RoundOutcome)> = std::thread::scope(|s| {
        let rounds = &rounds;
        let hs: Vec<_> = (0..n_lanes)
            .map(|l| {
                s.spawn(move || {
                    let lane = lane(&format!("l{l}"));
                    let mut out = vec![];
                    for (ri, styled) in rounds.iter().enumerate() {
                        if ri % n_lanes != l {
                            continue;
                        }
                        let specs: Vec<AppSpec> = styled.iter().map(|s| s.spec.clone()).collect();
                        let o = round::run_round(&lane, &specs, &RoundOpts { want_individual: true, run_requests: true, solo: false }, &|k| script_for(&specs[k], k, true).0);
                        out.push((ri, o));
                    }
                    out
                })
            })
            .collect();
        hs.into_iter().flat_map(|h| h.join().unwrap()).collect()
    });
    let mut results = results;
    results.sort_by_key(|(ri, _)| *ri);
    for (ri, out) in &results {
        if let Some(e) = &out.infra_error {
            eprintln!("INFRA property=C19 round={ri}: {e}");
            chk.ev.write();
            std::process::exit(2);
        }
        let styled = &rounds[*ri];
        let specs: Vec<AppSpec> = styled.iter().map(|s| s.spec.clone()).collect();
        // (1) accepted, as the unstyled application would be
        for (k, st) in styled.iter().enumerate() {
            chk.ev.evaluations += 1;
            let v = out.individual.get(k).and_then(|v| v.as_ref());
            let accepted = out.combined.accepted() || v.is_some_and(|v| v.accepted());
            if !accepted {
                let v = v.unwrap_or(&out.combined);
                if !rejection_confirmed(&st.spec, &v.signature()) {
                    chk.ev.label("rejection-not-reproduced-alone(harness concurrency)");
                    continue;
                }
                save_violation(&mut chk, "attrs", &format!("styled-application-rejected:{}", v.signature()), &format!("a rule-abiding application is rejected once some properties are written in the attribute and overridden at registration:\n{}", v.brief()), &st.spec, json!({"k": k}));
                continue;
            }
            if st.n_overrides > 0 {
                chk.ev.nontrivial.insert(fnv(&serde_json::to_string(&st.spec).unwrap()));
                chk.ev.label("app:with-overrides");
            }
            // (2) allow(unused) honoured: look at the diagnostics of the run that accepted it
            let stderr = match v {
                Some(v) if v.accepted() => v.stderr.clone(),
                _ => out.combined.stderr.clone(),
            };
            for (ti, allow) in &st.unused {
                let needle = format!("m{k}::T{ti}`");
                let needle2 = format!("m{k}::c{ti}_0");
                let warned = stderr.split("WARNING").skip(1).any(|block| {
                    let block = block.split("ERROR").next().unwrap_or("");
                    (block.contains(&needle) || block.contains(&needle2)) && block.contains("never used")
                });
                if warned == *allow {
                    let sig = if *allow { "allow-unused-ignored" } else { "unused-constructor-not-reported" };
                    save_violation(&mut chk, "attrs", sig, &format!("constructor of T{ti} is never used and {} allow(unused) in its attribute, but the compiler {} a warning for it", if *allow { "has" } else { "does not have" }, if warned { "printed" } else { "did not print" }), &st.spec, json!({"k": k, "type": ti}));
                } else {
                    chk.ev.label(if *allow { "unused:silenced-by-attribute" } else { "unused:warned" });
                }
            }
            if chk.ev.samples.len() < 2 && st.n_overrides > 0 {
                let over: Vec<String> = st.spec.types.iter().enumerate().filter(|(_, t)| t.attr_life.is_some() || t.attr_clone.is_some()).map(|(i, t)| format!("T{i}: attribute says {:?}/{:?}, registration says {:?}/{:?}", t.attr_life, t.attr_clone, t.life, t.clone_if_necessary)).collect();
                chk.ev.sample(json!({"app": spec_summary(&st.spec), "overrides": over}));
            }
        }
        // (3) effective lifecycles and cloning policies at run time
        evaluate_round(&mut chk, "C04", &specs, out, true);
        // (4) what the error-handler attributes say (which input is the error, methods with a receiver,
        // handlers attached to a constructor) reaches the compiler: failures are handled by the designated handler
        evaluate_round(&mut chk, "C06", &specs, out, true);
    }
    // ---- route tables: method sets written in attributes
    {
        let mut runner = chk.settings.runner("attrs-routing", (routing_rounds * 6) as u32);
        let strat = genr::routing_genome(false);
        let rounds: Vec<Vec<AppSpec>> = (0..routing_rounds).map(|_| (0..6).map(|k| genr::build_routing(&strat.new_tree(&mut runner).unwrap().current(), k)).collect()).collect();
        let results: Vec<(usize, RoundOutcome)> = std::thread::scope(|s| {
            let rounds = &rounds;
            let hs: Vec<_> = (0..n_lanes)
                .map(|l| {
                    s.spawn(move || {
                        let lane = lane(&format!("l{l}"));
                        let mut out = vec![];
                        for (ri, specs) in rounds.iter().enumerate() {
                            if ri % n_lanes != l {
                                continue;
                            }
                            let o = round::run_round(&lane, specs, &RoundOpts { want_individual: false, run_requests: true, solo: false }, &|k| routing_script(&specs[k], k, false).0);
                            out.push((ri, o));
                        }
                        out
                    })
                })
                .collect();
            hs.into_iter().flat_map(|h| h.join().unwrap()).collect()
        });
        let mut results = results;
        results.sort_by_key(|(ri, _)| *ri);
        for (ri, out) in &results {
            if let Some(e) = &out.infra_error {
                eprintln!("INFRA property=C19 round={ri}: {e}");
                chk.ev.write();
                std::process::exit(2);
            }
            evaluate_routing(&mut chk, &rounds[*ri], out, false);
        }
    }
    chk.finish()
}
