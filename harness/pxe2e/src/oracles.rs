//! Trace oracles for the generated servers (C03, C04, C05, C06).
use std::collections::{BTreeMap, BTreeSet};

use serde_json::Value;

use crate::emit::{comp_name, ctor_name, type_name};
use crate::model::{self, RouteInfo};
use crate::spec::*;

pub struct Ev<'a> {
    pub kind: &'a str,
    pub comp: &'a str,
    pub v: &'a Value,
}

pub fn evs(events: &[Value]) -> Vec<Ev<'_>> {
    events
        .iter()
        .map(|v| Ev { kind: v["e"].as_str().unwrap_or(""), comp: v["c"].as_str().unwrap_or(""), v })
        .collect()
}

fn is_pipeline_comp(spec: &AppSpec, k: usize, name: &str) -> bool {
    spec.comps.iter().enumerate().any(|(i, c)| {
        matches!(c.kind, CompKind::Pre | CompKind::Post | CompKind::Wrap | CompKind::Handler) && comp_name(k, i) == name
    })
}

pub fn plan_fails(plan: &[(String, u8)]) -> bool {
    plan.iter().any(|(_, a)| *a == 1)
}

/// C05: the enter/exit sequence of middlewares and handler equals the documented order.
pub fn check_order(spec: &AppSpec, k: usize, route: &RouteInfo, plan: &[(String, u8)], resp: &Value) -> Result<Vec<String>, (String, String)> {
    let events = resp["events"].as_array().cloned().unwrap_or_default();
    let e = evs(&events);
    let actual: Vec<(String, &str)> = e
        .iter()
        .filter(|x| (x.kind == "enter" || x.kind == "exit") && is_pipeline_comp(spec, k, x.comp))
        .map(|x| (x.comp.to_string(), if x.kind == "enter" { "enter" } else { "exit" }))
        .collect();
    let expected = model::expected_trace(spec, k, route, plan);
    if actual != expected {
        return Err((
            "order".into(),
            format!(
                "route {} {} (chain {:?}), plan {:?}:\n  documented order: {}\n  observed:         {}",
                route.methods.join("|"),
                route.full_path,
                route.chain.iter().map(|c| format!("{}:{:?}", comp_name(k, *c), spec.comps[*c].kind)).collect::<Vec<_>>(),
                plan,
                fmt_trace(&expected),
                fmt_trace(&actual)
            ),
        ));
    }
    let (status, body) = model::expected_response(spec, k, route, plan);
    if resp["status"].as_u64() != Some(status as u64) || resp["body"].as_str() != Some(body.as_str()) {
        return Err((
            "response".into(),
            format!("route {} plan {:?}: expected {status} `{body}`, got {} `{}`", route.full_path, plan, resp["status"], resp["body"]),
        ));
    }
    // post-processors that ran stamped the response, in order
    let posts: Vec<String> = expected
        .iter()
        .filter(|(c, e)| *e == "enter" && spec.comps.iter().enumerate().any(|(i, x)| x.kind == CompKind::Post && comp_name(k, i) == *c))
        .map(|(c, _)| c.replace("::", "-"))
        .collect();
    let stamped: Vec<String> = resp["headers"]
        .as_array()
        .map(|h| h.iter().filter(|p| p[0] == "x-post").map(|p| p[1].as_str().unwrap_or("").to_string()).collect())
        .unwrap_or_default();
    if posts != stamped {
        return Err(("post-stamps".into(), format!("route {} plan {:?}: x-post headers {stamped:?}, expected {posts:?}", route.full_path, plan)));
    }
    let mut labels = vec![];
    let st = model::stages(spec, &route.chain);
    let n_wrap = st.len() - 1;
    let has_post_before = st.first().map(|s| !s.posts.is_empty()).unwrap_or(false) && n_wrap >= 1;
    let has_post_after = st.iter().skip(1).any(|s| !s.posts.is_empty());
    if n_wrap >= 1 && has_post_before && has_post_after {
        labels.push("shape:wrap+post-before+post-after".to_string());
    }
    if plan.iter().any(|(_, a)| *a == 2) {
        labels.push("plan:early-or-skip".into());
    }
    if st.iter().map(|s| s.pres.len()).sum::<usize>() >= 11 || st.iter().map(|s| s.posts.len()).sum::<usize>() >= 11 {
        labels.push("shape:>=11-middlewares-of-one-kind".into());
    }
    labels.push(format!("chain:pre{}-post{}-wrap{}", st.iter().map(|s| s.pres.len()).sum::<usize>().min(3), st.iter().map(|s| s.posts.len()).sum::<usize>().min(3), n_wrap.min(3)));
    Ok(labels)
}

fn fmt_trace(t: &[(String, &str)]) -> String {
    t.iter().map(|(c, e)| format!("{}{}", if *e == "enter" { ">" } else { "<" }, c.rsplit("::").next().unwrap_or(c))).collect::<Vec<_>>().join(" ")
}

/// C03 + C04: lifecycle and injection-fidelity invariants over one request's events.
/// `build_events`: what happened while the application state was built.
pub fn check_lifecycles(
    spec: &AppSpec,
    k: usize,
    route: &RouteInfo,
    build_events: &[Value],
    resp: &Value,
    check_identity: bool,
) -> Result<Vec<String>, (String, String)> {
    let events = resp["events"].as_array().cloned().unwrap_or_default();
    let e = evs(&events);
    let be = evs(build_events);
    let mut labels = vec![];
    let ty_of = |name: &str| -> Option<usize> { (0..spec.types.len()).find(|t| type_name(k, *t) == name) };
    // ---- where was each id created (request-local index), and from what
    let mut created_at: BTreeMap<u64, usize> = BTreeMap::new();
    for (i, x) in e.iter().enumerate() {
        if x.kind == "built" {
            created_at.insert(x.v["id"].as_u64().unwrap_or(0), i);
        }
        if x.kind == "clone" {
            created_at.insert(x.v["new"].as_u64().unwrap_or(0), i);
        }
    }
    let singleton_ids: BTreeMap<String, Vec<u64>> = {
        let mut m: BTreeMap<String, Vec<u64>> = BTreeMap::new();
        for x in &be {
            if x.kind == "built" {
                m.entry(x.v["ty"].as_str().unwrap_or("").to_string()).or_default().push(x.v["id"].as_u64().unwrap_or(0));
            }
        }
        m
    };
    let ctx = || format!("route {} {} (sub-app {k})", route.methods.join("|"), route.full_path);
    // ---- (C04) the recorded finding first, under its own signature: a middleware / observer registered in an
    // ancestor blueprint receives what its own blueprint designates (its other symptoms, e.g. a second
    // construction of a request-scoped value, would otherwise be reported under a generic signature)
    if check_identity {
        for x in &e {
            if x.kind != "recv" {
                continue;
            }
            let Some(t) = ty_of(x.v["ty"].as_str().unwrap_or("")) else { continue };
            if spec.types[t].variants <= 1 {
                continue;
            }
            let Some(want) = model::expected_by(spec, k, &route.scope, t) else { continue };
            if x.v["by"].as_str() == Some(want.as_str()) {
                continue;
            }
            let comp_idx = spec.comps.iter().enumerate().find(|(i, _)| comp_name(k, *i) == x.comp).map(|(i, _)| i);
            if comp_idx.is_some_and(|c| c != route.handler && model::ancestor_registration_scopes(spec, c, &route.scope).iter().any(|a| model::expected_by(spec, k, a, t).as_deref() == x.v["by"].as_str())) {
                return Err((
                    "wrong-constructor:component-registered-in-an-ancestor-blueprint".into(),
                    format!(
                        "{}: {} (registered in an ancestor blueprint) received a {} built by {} but the blueprint of the route designates {} (nearest enclosing registration wins)",
                        ctx(),
                        x.comp,
                        type_name(k, t),
                        x.v["by"],
                        want
                    ),
                ));
            }
        }
    }
    // ---- constructions during the request
    let mut built_per_type: BTreeMap<usize, Vec<u64>> = BTreeMap::new();
    for x in &e {
        if x.kind == "built" {
            if let Some(t) = ty_of(x.v["ty"].as_str().unwrap_or("")) {
                built_per_type.entry(t).or_default().push(x.v["id"].as_u64().unwrap_or(0));
                if spec.types[t].life == Life::Singleton {
                    return Err((
                        "singleton-built-during-request".into(),
                        format!("{}: singleton {} was constructed while a request was being served", ctx(), type_name(k, t)),
                    ));
                }
            }
        }
    }
    for (t, ids) in &built_per_type {
        if spec.types[*t].life == Life::Request && ids.len() > 1 {
            return Err((
                "request-scoped-built-twice".into(),
                format!("{}: request-scoped {} was constructed {} times in one request", ctx(), type_name(k, *t), ids.len()),
            ));
        }
    }
    for (ty, ids) in &singleton_ids {
        if let Some(t) = ty_of(ty) {
            if spec.types[t].life == Life::Singleton && ids.len() > 1 {
                return Err(("singleton-built-twice".into(), format!("singleton {ty} was constructed {} times while building the application state", ids.len())));
            }
        }
    }
    // ---- transients injected while the application state was built: one fresh value per site
    {
        let mut seen: BTreeMap<usize, Vec<u64>> = BTreeMap::new();
        let built_at_startup: BTreeSet<u64> = be.iter().filter(|x| x.kind == "built" || x.kind == "clone").map(|x| x.v[if x.kind == "built" { "id" } else { "new" }].as_u64().unwrap_or(0)).collect();
        for x in &be {
            if x.kind != "recv" {
                continue;
            }
            let Some(t) = ty_of(x.v["ty"].as_str().unwrap_or("")) else { continue };
            if spec.types[t].life != Life::Transient || spec.types[t].is_copy {
                continue;
            }
            let (id, root) = (x.v["id"].as_u64().unwrap_or(0), x.v["root"].as_u64().unwrap_or(0));
            if id != root {
                return Err(("transient-cloned-at-startup".into(), format!("{} received a clone of transient {} while the application state was built", x.comp, type_name(k, t))));
            }
            if !built_at_startup.contains(&id) {
                return Err(("value-from-nowhere".into(), format!("{} received {} #{id} at start-up, which was never built", x.comp, type_name(k, t))));
            }
            seen.entry(t).or_default().push(id);
        }
        for (t, ids) in &seen {
            let set: BTreeSet<u64> = ids.iter().copied().collect();
            if set.len() != ids.len() {
                return Err((
                    "transient-shared".into(),
                    format!("an instance of transient {} was injected at two sites while the application state was built (ids received: {ids:?})", type_name(k, *t)),
                ));
            }
            if ids.len() >= 2 {
                labels.push("transient:>=2-sites-at-startup".to_string());
            }
        }
    }
    // ---- clones
    for x in &e {
        if x.kind == "clone" {
            if let Some(t) = ty_of(x.v["ty"].as_str().unwrap_or("")) {
                if spec.types[t].clone_if_necessary != Some(true) {
                    return Err((
                        "never-clone-value-cloned".into(),
                        format!("{}: a value of {} (not registered clone-if-necessary) was cloned", ctx(), type_name(k, t)),
                    ));
                }
                labels.push("clone-observed".to_string());
            }
        }
    }
    // ---- receptions
    let mut roots_per_type: BTreeMap<usize, BTreeSet<u64>> = BTreeMap::new();
    let mut transient_ids: BTreeMap<usize, Vec<u64>> = BTreeMap::new();
    let mut by_value_roots: BTreeSet<u64> = BTreeSet::new();
    for x in &e {
        if x.kind == "recv" && x.v["m"] == "move" {
            by_value_roots.insert(x.v["root"].as_u64().unwrap_or(0));
        }
    }
    let mut move_ids: BTreeMap<u64, usize> = BTreeMap::new();
    for (i, x) in e.iter().enumerate() {
        if x.kind != "recv" {
            continue;
        }
        let Some(t) = ty_of(x.v["ty"].as_str().unwrap_or("")) else { continue };
        let ts = &spec.types[t];
        let (id, root) = (x.v["id"].as_u64().unwrap_or(0), x.v["root"].as_u64().unwrap_or(0));
        let tn = type_name(k, t);
        roots_per_type.entry(t).or_default().insert(root);
        // fully constructed before it is consumed
        let enter_pos = e[..i].iter().rposition(|y| y.kind == "enter" && y.comp == x.comp).unwrap_or(0);
        match ts.life {
            Life::Singleton => {
                let ids = singleton_ids.get(&tn).cloned().unwrap_or_default();
                if !ids.contains(&root) {
                    return Err((
                        "singleton-instance".into(),
                        format!("{}: {} received a {} that is not (a clone of) the instance built with the application state (root {root}, built {ids:?})", ctx(), x.comp, tn),
                    ));
                }
            }
            _ => {
                let Some(pos) = created_at.get(&id) else {
                    return Err((
                        "value-from-nowhere".into(),
                        format!("{}: {} received {} #{id} which was neither built nor cloned during this request", ctx(), x.comp, tn),
                    ));
                };
                if *pos > enter_pos {
                    return Err(("consumed-before-built".into(), format!("{}: {} entered before its input {} #{id} was constructed", ctx(), x.comp, tn)));
                }
                if ts.life == Life::Transient {
                    transient_ids.entry(t).or_default().push(id);
                }
            }
        }
        if !ts.is_copy {
            if id != root {
                if ts.clone_if_necessary != Some(true) {
                    return Err(("never-clone-value-cloned".into(), format!("{}: {} received a clone of {}", ctx(), x.comp, tn)));
                }
                if !by_value_roots.contains(&root) && ts.life != Life::Singleton {
                    labels.push("clone-received-without-by-value-consumer".to_string());
                }
            }
            if x.v["m"] == "move" {
                if let Some(prev) = move_ids.insert(id, i) {
                    let _ = prev;
                    return Err(("value-moved-twice".into(), format!("{}: the same {} #{id} was received by value twice", ctx(), tn)));
                }
            }
        }
        // C04: built by the constructor the blueprint designates for this route
        if check_identity && ts.variants > 1 {
            let want = model::expected_by(spec, k, &route.scope, t);
            if let Some(want) = want {
                if x.v["by"].as_str() != Some(want.as_str()) {
                    // (known finding: a middleware / observer registered in an ancestor blueprint gets what *its own*
                    // blueprint designates, not what the route's blueprint designates)
                    let comp_idx = spec.comps.iter().enumerate().find(|(i, _)| comp_name(k, *i) == x.comp).map(|(i, _)| i);
                    let via_ancestor = comp_idx.is_some_and(|c| c != route.handler && model::ancestor_registration_scopes(spec, c, &route.scope).iter().any(|a| model::expected_by(spec, k, a, t).as_deref() == x.v["by"].as_str()));
                    let sig = if via_ancestor {
                        "wrong-constructor:component-registered-in-an-ancestor-blueprint"
                    } else if model::fallible_reregistered_after_infallible(spec, &route.scope, t) {
                        "wrong-constructor:fallible-reregistered-after-infallible"
                    } else {
                        "wrong-constructor"
                    };
                    return Err((
                        sig.into(),
                        format!(
                            "{}: {} received a {} built by {} but the blueprint designates {} (nearest enclosing registration wins, latest within a blueprint)",
                            ctx(),
                            x.comp,
                            tn,
                            x.v["by"],
                            want
                        ),
                    ));
                }
                labels.push(format!("ctor-resolution:{}", if want.ends_with("_1") { "override" } else { "default" }));
            }
        }
    }
    // C04: generic wrappers are built by the constructor that the nearest enclosing blueprint designates
    if check_identity {
        for x in &e {
            if x.kind != "recv" {
                continue;
            }
            let ty = x.v["ty"].as_str().unwrap_or("");
            let Some(kind) = (0..4u8).find(|kk| ty == format!("m{k}::G{}", crate::emit::GEN_KINDS[*kk as usize].0)) else { continue };
            let Some(c) = spec.comps.iter().enumerate().find(|(i, _)| comp_name(k, *i) == x.comp).map(|(_, c)| c) else { continue };
            let inners: Vec<usize> = c.gens.iter().filter(|(kk, _)| *kk % 4 == kind).map(|(_, i)| *i).collect();
            if inners.len() != 1 {
                continue;
            }
            if let Some(want) = model::expected_gen_by(spec, k, &route.scope, kind, inners[0]) {
                if x.v["by"].as_str() != Some(want.as_str()) {
                    let comp_idx = spec.comps.iter().enumerate().find(|(i, _)| comp_name(k, *i) == x.comp).map(|(i, _)| i);
                    let via_ancestor = comp_idx.is_some_and(|c| c != route.handler && model::ancestor_registration_scopes(spec, c, &route.scope).iter().any(|a| model::expected_gen_by(spec, k, a, kind, inners[0]).as_deref() == x.v["by"].as_str()));
                    return Err((
                        if via_ancestor { "wrong-constructor:component-registered-in-an-ancestor-blueprint".into() } else { "wrong-constructor:generic-vs-concrete".into() },
                        format!(
                            "{}: {} received a G{}<T{}> built by {} but the blueprint designates {} (nearest enclosing registration that applies wins)",
                            ctx(),
                            x.comp,
                            crate::emit::GEN_KINDS[kind as usize].0,
                            inners[0],
                            x.v["by"],
                            want
                        ),
                    ));
                }
                let explicit = want.contains("::gc_");
                labels.push(format!("generic-ctor-resolution:{}", if explicit { "concrete" } else { "generic" }));
            }
        }
    }
    for (t, roots) in &roots_per_type {
        let ts = &spec.types[*t];
        if ts.life == Life::Request && roots.len() > 1 {
            return Err((
                "request-scoped-not-shared".into(),
                format!("{}: components saw {} different instances of request-scoped {}", ctx(), roots.len(), type_name(k, *t)),
            ));
        }
    }
    // a transient value is built for one injection site. The compiler may build the inputs of an
    // error handler / observer before the fallible call they belong to (so a value can be built for
    // a site that is not reached), but never more values than there are sites.
    for (t, built) in &built_per_type {
        if spec.types[*t].life != Life::Transient {
            continue;
        }
        let bound = model::transient_site_bound(spec, route, *t);
        if built.len() > bound {
            return Err((
                "transient-built-more-often-than-it-has-injection-sites".into(),
                format!("{}: transient {} was constructed {} times while serving one request, but only {} injection sites can run for this route", ctx(), type_name(k, *t), built.len(), bound),
            ));
        }
    }
    for (t, ids) in &transient_ids {
        let set: BTreeSet<u64> = ids.iter().copied().collect();
        if set.len() != ids.len() && !spec.types[*t].is_copy {
            return Err(("transient-shared".into(), format!("{}: an instance of transient {} was injected at two sites", ctx(), type_name(k, *t))));
        }
        if ids.len() >= 2 {
            labels.push("transient:>=2-sites".to_string());
        }
    }
    let shared = roots_per_type
        .iter()
        .filter(|(t, _)| spec.types[**t].life == Life::Request)
        .any(|(t, _)| e.iter().filter(|x| x.kind == "recv" && ty_of(x.v["ty"].as_str().unwrap_or("")) == Some(*t)).map(|x| x.comp).collect::<BTreeSet<_>>().len() >= 2);
    if shared {
        labels.push("request-scoped:shared-by>=2-components".to_string());
    }
    Ok(labels)
}

/// C06: a planned failure of `failing` (a component or constructor name).
pub fn check_failure(spec: &AppSpec, k: usize, route: &RouteInfo, plan: &[(String, u8)], resp: &Value) -> Result<Vec<String>, (String, String)> {
    let events = resp["events"].as_array().cloned().unwrap_or_default();
    let e = evs(&events);
    let mut labels = vec![];
    let ctx = || format!("route {} {} (sub-app {k}), plan {plan:?}", route.methods.join("|"), route.full_path);
    // the first component that actually failed
    let Some(fail_pos) = e.iter().position(|x| x.kind == "exit" && x.v["o"] == "err") else {
        labels.push("failure-not-reached".to_string());
        return Ok(labels);
    };
    let failed = e[fail_pos].comp.to_string();
    // what is it, and which error type does it raise
    let (err_ty, failed_type): (usize, Option<usize>) = {
        let mut found = None;
        for (t, ts) in spec.types.iter().enumerate() {
            for v in 0..ts.variants.max(1) {
                if ctor_name(k, t, v) == failed {
                    found = Some((ts.fallible_of(v).unwrap_or(0), Some(t)));
                }
            }
        }
        for (i, c) in spec.comps.iter().enumerate() {
            if comp_name(k, i) == failed {
                found = Some((c.fallible.unwrap_or(0), None));
            }
        }
        match found {
            Some(f) => f,
            None => return Err(("unknown-failing-component".into(), format!("{}: {failed} failed but is not part of the spec", ctx()))),
        }
    };
    let after = &e[fail_pos + 1..];
    // 1. nothing that depends on the Ok value runs afterwards
    if let Some(t) = failed_type {
        for x in after.iter().filter(|x| x.kind == "enter") {
            let deps: Option<Vec<usize>> = spec
                .comps
                .iter()
                .enumerate()
                .find(|(i, _)| comp_name(k, *i) == x.comp)
                .map(|(_, c)| model::closure(spec, &c.inputs))
                .or_else(|| {
                    (0..spec.types.len()).find(|u| (0..spec.types[*u].variants.max(1)).any(|v| ctor_name(k, *u, v) == x.comp)).map(|u| model::closure(spec, &spec.types[u].inputs))
                });
            if deps.is_some_and(|d| d.contains(&t)) {
                return Err((
                    "dependent-ran-after-failure".into(),
                    format!("{}: {} ran although {} (which it needs) failed to construct", ctx(), x.comp, type_name(k, t)),
                ));
            }
        }
    } else {
        let failed_kind = spec.comps.iter().enumerate().find(|(i, _)| comp_name(k, *i) == failed).map(|(_, c)| c.kind.clone());
        if matches!(failed_kind, Some(CompKind::Pre) | Some(CompKind::Wrap)) && after.iter().any(|x| x.kind == "enter" && x.comp == comp_name(k, route.handler)) {
            return Err(("handler-ran-after-failure".into(), format!("{}: the handler ran although {failed} (upstream of it) failed", ctx())));
        }
    }
    if e.iter().filter(|x| x.kind == "enter" && x.comp == comp_name(k, route.handler)).count() > 1 {
        return Err(("handler-ran-twice".into(), format!("{}: the handler was entered more than once", ctx())));
    }
    // A component that is invoked several times under this plan (a transient constructor injected
    // at several sites, a post-processor that also runs on the error response, ...) fails each
    // time: every failure is an error of its own. Clauses 2-4 are checked per failure.
    let fail_positions: Vec<usize> = e.iter().enumerate().filter(|(_, x)| x.kind == "exit" && x.v["o"] == "err").map(|(i, _)| i).collect();
    let is_eh = |name: &str| spec.comps.iter().enumerate().any(|(i, c)| matches!(c.kind, CompKind::ErrHandler { .. }) && comp_name(k, i) == name);
    let is_obs = |name: &str| spec.comps.iter().enumerate().any(|(i, c)| c.kind == CompKind::Observer && comp_name(k, i) == name);
    let is_post = |name: &str| spec.comps.iter().enumerate().any(|(i, c)| c.kind == CompKind::Post && comp_name(k, i) == name);
    // (a handler attached to the registration of the failing constructor takes precedence)
    let specific = failed_type.and_then(|t| if failed == ctor_name(k, t, 0) { spec.types[t].specific_eh } else { None });
    let want_eh = specific.or_else(|| model::resolve_err_handler(spec, &[], err_ty));
    if specific.is_some() {
        labels.push("component-specific-error-handler".to_string());
    }
    if want_eh.is_some_and(|h| matches!(spec.comps[h].kind, CompKind::ErrHandler { err, .. } if err == crate::spec::FALLBACK_ERR)) {
        labels.push("error-goes-to-the-user-fallback-handler".to_string());
    }
    let want_obs: Vec<String> = route.observers.iter().map(|o| comp_name(k, *o)).collect();
    for (n, fp) in fail_positions.iter().enumerate() {
        let seg_end = fail_positions.get(n + 1).copied().unwrap_or(e.len());
        let seg = &e[fp + 1..seg_end];
        if e[*fp].comp != failed {
            // a different component failed later on (not planned): outside this plan
            return Err(("unplanned-failure".into(), format!("{}: {} failed although only {failed} was planned to", ctx(), e[*fp].comp)));
        }
        // 2. the designated error handler, exactly once, on that very error
        let eh_enters: Vec<(usize, &str)> = seg.iter().enumerate().filter(|(_, x)| x.kind == "enter" && is_eh(x.comp)).map(|(i, x)| (i, x.comp)).collect();
        let mut eh_exit = 0usize;
        match want_eh {
            Some(h) => {
                let want = comp_name(k, h);
                if eh_enters.len() != 1 || eh_enters[0].1 != want {
                    return Err((
                        "wrong-error-handler".into(),
                        format!("{}: failure #{n} of {failed} (error type E{err_ty}); expected exactly one invocation of {want}, observed {:?}", ctx(), eh_enters.iter().map(|x| x.1).collect::<Vec<_>>()),
                    ));
                }
                let err_note = seg.iter().find(|x| x.kind == "note" && x.comp == want && x.v["k"] == "error").map(|x| x.v["v"].as_str().unwrap_or("").to_string());
                if !err_note.as_deref().is_some_and(|s| s.starts_with(&format!("m{k}::E{err_ty}#"))) {
                    return Err(("error-handler-saw-other-error".into(), format!("{}: {want} was invoked on {err_note:?}, expected an m{k}::E{err_ty}", ctx())));
                }
                eh_exit = seg.iter().position(|x| x.kind == "exit" && x.comp == want).unwrap_or(0);
            }
            None => {
                labels.push("no-specific-handler(fallback)".to_string());
            }
        }
        // 3. every observer registered before the route: exactly once, in order, after the error handler
        let obs_seen: Vec<(usize, String)> = seg.iter().enumerate().filter(|(_, x)| x.kind == "enter" && is_obs(x.comp)).map(|(i, x)| (i, x.comp.to_string())).collect();
        let got_obs: Vec<String> = obs_seen.iter().map(|(_, c)| c.clone()).collect();
        if got_obs != want_obs {
            return Err((
                "observers".into(),
                format!("{}: failure #{n} of {failed}: error observers registered before the route are {want_obs:?} (in this order); observed invocations: {got_obs:?}", ctx()),
            ));
        }
        if let Some((pos, name)) = obs_seen.first() {
            if want_eh.is_some() && *pos < eh_exit {
                return Err(("observer-before-handler".into(), format!("{}: observer {name} ran before the error handler had finished", ctx())));
            }
        }
        if let Some((last_obs, _)) = obs_seen.last() {
            if seg[..*last_obs].iter().any(|x| x.kind == "enter" && is_post(x.comp)) {
                return Err(("post-before-observers".into(), format!("{}: a post-processing middleware started before all observers had run", ctx())));
            }
        }
    }
    if fail_positions.len() > 1 {
        labels.push("several-failures-in-one-request".to_string());
    }
    // observers never run outside a failure
    if e[..fail_pos].iter().any(|x| x.kind == "enter" && is_obs(x.comp)) {
        return Err(("observer-without-error".into(), format!("{}: an error observer ran before anything had failed", ctx())));
    }
    // 4. the client sees the (last) error handler's response
    match want_eh {
        Some(h) => {
            let want = comp_name(k, h);
            // (the status encodes the error type the handler was written for: the fallback handler has one of its own)
            let status = match &spec.comps[h].kind {
                CompKind::ErrHandler { err, .. } => 430 + (*err as u64 % 20),
                _ => 430 + (err_ty as u64 % 20),
            };
            if resp["status"].as_u64() != Some(status) || resp["body"].as_str() != Some(format!("eh:{want}").as_str()) {
                return Err((
                    "response-not-from-error-handler".into(),
                    format!("{}: expected {status} `eh:{want}`, the client got {} `{}`", ctx(), resp["status"], resp["body"]),
                ));
            }
        }
        None => {
            if resp["status"].as_u64() != Some(500) {
                return Err(("fallback-not-500".into(), format!("{}: no error handler for E{err_ty}: expected the built-in 500, got {}", ctx(), resp["status"])));
            }
        }
    }
    if want_obs.len() >= 2 {
        labels.push("observers>=2".to_string());
    }
    if failed_type.is_some() {
        let users = spec.comps.iter().filter(|c| model::closure(spec, &c.inputs).contains(&failed_type.unwrap())).count();
        if users >= 2 {
            labels.push("failed:shared-constructor".to_string());
        } else {
            labels.push("failed:constructor".to_string());
        }
    } else {
        labels.push("failed:middleware-or-handler".to_string());
    }
    if model::stages(spec, &route.chain).len() > 1 {
        labels.push("failure-inside-wrapped-pipeline".to_string());
    }
    Ok(labels)
}
