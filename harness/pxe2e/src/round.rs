//! One round: K generated sub-applications -> one crate -> pavexc -> rustc -> running server.
use std::path::PathBuf;
use std::time::Duration;

use serde_json::{Value, json};

use crate::engine::{Lane, RunResult, strip_ansi};
use crate::spec::AppSpec;

#[derive(Debug, Clone)]
pub struct PavexcVerdict {
    pub code: Option<i32>,
    pub n_errors: usize,
    pub panicked: bool,
    pub timed_out: bool,
    /// killed because the compiler process itself exceeded the CPU-time budget (see engine::cpu_limit_secs)
    pub cpu_bound: bool,
    pub stderr: String,
    pub wall_ms: u128,
}

impl PavexcVerdict {
    pub fn from(r: &RunResult) -> Self {
        PavexcVerdict {
            code: r.code,
            n_errors: r.n_errors(),
            panicked: r.panicked() || r.signal || !matches!(r.code, Some(0) | Some(1)),
            timed_out: r.timed_out,
            cpu_bound: r.cpu_bound,
            stderr: strip_ansi(&r.stderr),
            wall_ms: r.wall.as_millis(),
        }
    }
    pub fn accepted(&self) -> bool {
        self.code == Some(0) && self.n_errors == 0
    }
    pub fn brief(&self) -> String {
        // error blocks (warnings dropped) + the panic report, if any
        let mut out = String::new();
        let mut keep = false;
        for l in self.stderr.lines() {
            if l.starts_with("ERROR:") {
                keep = true;
            } else if l.starts_with("WARNING:") || l.starts_with("Backtrace") {
                keep = false;
            }
            if l.contains("The application panicked") || l.starts_with("Message:") || l.starts_with("Location:") || l.contains("panicked at") {
                out.push_str(l);
                out.push('\n');
                continue;
            }
            if keep && out.len() < 6000 {
                out.push_str(l);
                out.push('\n');
            }
        }
        format!("exit={:?} errors={} panicked={} timed_out={}\n{}", self.code, self.n_errors, self.panicked, self.timed_out, out)
    }

    /// Source location of a panic (`file.rs:line`), used as a stable signature.
    pub fn panic_location(&self) -> Option<String> {
        // better-panic: "in compiler/pavexc/src/.../codegen.rs, line 242"
        for l in self.stderr.lines() {
            let l = l.trim();
            if let Some(rest) = l.strip_prefix("in ") {
                if let Some((file, line)) = rest.split_once(", line ") {
                    if file.ends_with(".rs") {
                        return Some(format!("{}:{}", file.rsplit('/').next().unwrap_or(file), line.trim()));
                    }
                }
            }
            if l.contains("panicked at") {
                return Some(l.rsplit('/').next().unwrap_or("").trim_end_matches(':').to_string());
            }
        }
        None
    }

    /// The panic message (first line after the "panicked" banner).
    pub fn panic_message(&self) -> String {
        let mut it = self.stderr.lines().skip_while(|l| !l.contains("The application panicked"));
        it.next();
        it.next().unwrap_or("").trim().to_string()
    }

    /// A stable, coarse identification of *what* the compiler said.
    pub fn signature(&self) -> String {
        if self.panicked {
            return format!("panic:{}", self.panic_location().unwrap_or_else(|| "unknown".into()));
        }
        if self.accepted() {
            return "accepted".into();
        }
        let headline = self
            .stderr
            .lines()
            .skip_while(|l| !l.starts_with("ERROR:"))
            .nth(1)
            .unwrap_or("")
            .trim()
            .trim_start_matches('×')
            .trim()
            .to_string();
        let norm: String = headline.chars().map(|c| if c.is_ascii_digit() { '#' } else { c }).take(70).collect();
        format!("error:{norm}")
    }
}

pub struct RoundOutcome {
    /// verdict on the combination of all sub-applications (mask = all)
    pub combined: PavexcVerdict,
    /// verdicts on individual sub-applications (only computed when needed / requested)
    pub individual: Vec<Option<PavexcVerdict>>,
    /// which sub-applications are part of the SDK that was finally built
    pub in_sdk: Vec<bool>,
    /// result of compiling the generated SDK (+ driver); None when nothing was accepted
    pub sdk_build: Option<RunResult>,
    pub banner: Option<Value>,
    /// per request: the JSON line printed by the driver
    pub responses: Vec<Value>,
    pub infra_error: Option<String>,
}

pub struct RoundOpts {
    pub want_individual: bool,
    pub run_requests: bool,
    /// the round consists of a single application that is compiled as is (no `/s<k>` prefix nesting)
    pub solo: bool,
}

pub fn infra(msg: String) -> RoundOutcome {
    RoundOutcome {
        combined: PavexcVerdict { code: None, n_errors: 0, panicked: false, timed_out: false, cpu_bound: false, stderr: String::new(), wall_ms: 0 },
        individual: vec![],
        in_sdk: vec![],
        sdk_build: None,
        banner: None,
        responses: vec![],
        infra_error: Some(msg),
    }
}

pub fn bp_path(lane: &Lane, tag: &str) -> PathBuf {
    lane.dir.join(format!("bp-{tag}.ron"))
}

/// `script(k)` produces the requests for sub-application k (paths already prefixed with `/s<k>`).
pub fn run_round(lane: &Lane, specs: &[AppSpec], opts: &RoundOpts, script: &dyn Fn(usize) -> Vec<Value>) -> RoundOutcome {
    lane.write_workspace(specs);
    lane.reset_sdk();
    let b = lane.build_app();
    if !b.ok() {
        return infra(format!("the generated application crate does not compile (generator bug):\n{}", b.stderr.chars().take(4000).collect::<String>()));
    }
    let n = specs.len();
    let all: u64 = if n >= 64 { u64::MAX } else { (1u64 << n) - 1 };
    let bp = bp_path(lane, "all");
    let p = if opts.solo { lane.persist("one", 0, &bp) } else { lane.persist("mask", all, &bp) };
    if !p.ok() {
        return infra(format!("persisting the blueprint failed: {}", p.stderr));
    }
    let diag = lane.dir.join("diag-all.dot");
    let r = lane.pavexc(&bp, "sdk", Some(&diag), false, &[]);
    if r.timed_out {
        return infra("pavexc timed out (watchdog)".into());
    }
    let combined = PavexcVerdict::from(&r);
    let mut individual: Vec<Option<PavexcVerdict>> = vec![None; n];
    let mut in_sdk = vec![combined.accepted(); n];
    if opts.solo && !combined.accepted() {
        return RoundOutcome { combined: combined.clone(), individual: vec![Some(combined)], in_sdk: vec![false], sdk_build: None, banner: None, responses: vec![], infra_error: None };
    }
    if !opts.solo && (!combined.accepted() || opts.want_individual) {
        // individual verdicts, in parallel (the rustdoc step is shared and already cached)
        let verdicts: Vec<PavexcVerdict> = std::thread::scope(|s| {
            let hs: Vec<_> = (0..n)
                .map(|k| {
                    s.spawn(move || {
                        let bp = bp_path(lane, &format!("one{k}"));
                        let p = lane.persist("one", k as u64, &bp);
                        if !p.ok() {
                            return PavexcVerdict { code: None, n_errors: 0, panicked: false, timed_out: false, cpu_bound: false, stderr: format!("persist failed: {}", p.stderr), wall_ms: 0 };
                        }
                        let out = format!("ind/sdk_{k}");
                        let r = lane.pavexc(&bp, &out, None, false, &[]);
                        PavexcVerdict::from(&r)
                    })
                })
                .collect();
            hs.into_iter().map(|h| h.join().unwrap()).collect()
        });
        for (k, v) in verdicts.into_iter().enumerate() {
            individual[k] = Some(v);
        }
        if !combined.accepted() {
            // rebuild the SDK from the accepted sub-applications only
            let mask: u64 = (0..n).filter(|k| individual[*k].as_ref().is_some_and(|v| v.accepted())).map(|k| 1u64 << k).sum();
            in_sdk = (0..n).map(|k| mask & (1 << k) != 0).collect();
            if mask == 0 {
                return RoundOutcome { combined, individual, in_sdk, sdk_build: None, banner: None, responses: vec![], infra_error: None };
            }
            lane.reset_sdk();
            let bp = bp_path(lane, "accepted");
            let p = lane.persist("mask", mask, &bp);
            if !p.ok() {
                return infra(format!("persisting the blueprint failed: {}", p.stderr));
            }
            let r = lane.pavexc(&bp, "sdk", Some(&diag), false, &[]);
            let v = PavexcVerdict::from(&r);
            if !v.accepted() {
                // individually accepted, jointly rejected: reported by the caller (C02 metamorphic)
                return RoundOutcome { combined: v, individual, in_sdk: vec![false; n], sdk_build: None, banner: None, responses: vec![], infra_error: None };
            }
        }
    }
    let build = lane.build_driver();
    if !build.ok() || !opts.run_requests {
        return RoundOutcome { combined, individual, in_sdk, sdk_build: Some(build), banner: None, responses: vec![], infra_error: None };
    }
    let mut reqs = vec![];
    for k in 0..n {
        if in_sdk[k] {
            reqs.extend(script(k));
        }
    }
    match lane.run_driver(&reqs, Duration::from_secs(300)) {
        Ok((banner, responses)) => RoundOutcome { combined, individual, in_sdk, sdk_build: Some(build), banner: Some(banner), responses, infra_error: None },
        Err(e) => RoundOutcome { combined, individual, in_sdk, sdk_build: Some(build), banner: None, responses: vec![], infra_error: Some(format!("driver: {e}")) },
    }
}

pub fn request(id: Value, method: &str, path: &str, host: Option<&str>, plan: &[(String, u8)]) -> Value {
    let host_line = match host {
        Some(h) => format!("Host: {h}\r\n"),
        None => String::new(),
    };
    json!({
        "id": id,
        "plan": plan.iter().map(|(c, a)| json!([c, a])).collect::<Vec<_>>(),
        "raw": format!("{method} {path} HTTP/1.1\r\n{host_line}Connection: close\r\n\r\n"),
    })
}

/// Verdict of the compiler on a single application (no SDK build, no requests).
pub fn verdict_alone(lane: &Lane, spec: &AppSpec) -> Result<PavexcVerdict, String> {
    lane.write_workspace(std::slice::from_ref(spec));
    lane.reset_sdk();
    let b = lane.build_app();
    if !b.ok() {
        return Err(format!("application crate does not compile:\n{}", b.stderr.chars().take(3000).collect::<String>()));
    }
    let bp = bp_path(lane, "one0");
    let p = lane.persist("one", 0, &bp);
    if !p.ok() {
        return Err(format!("persist failed: {}", p.stderr));
    }
    let r = lane.pavexc(&bp, "ind/sdk_0", None, false, &[]);
    Ok(PavexcVerdict::from(&r))
}

/// sha256-free content fingerprint (FNV over the bytes) + mtime in ns, for a set of files.
pub fn fingerprint(paths: &[std::path::PathBuf]) -> Vec<(String, Option<(u64, u128)>)> {
    paths
        .iter()
        .map(|p| {
            let fp = std::fs::read(p).ok().map(|b| {
                let mut h: u64 = 0xcbf29ce484222325;
                for x in &b {
                    h ^= *x as u64;
                    h = h.wrapping_mul(0x100000001b3);
                }
                let mt = std::fs::metadata(p).and_then(|m| m.modified()).ok().and_then(|t| t.duration_since(std::time::UNIX_EPOCH).ok()).map(|d| d.as_nanos()).unwrap_or(0);
                (h ^ ((b.len() as u64) << 48), mt)
            });
            (p.file_name().map(|f| f.to_string_lossy().to_string()).unwrap_or_default(), fp)
        })
        .collect()
}

/// Every file below `dir` with its content hash (no mtimes).
pub fn tree_hash(dir: &std::path::Path) -> std::collections::BTreeMap<String, u64> {
    fn rec(base: &std::path::Path, d: &std::path::Path, out: &mut std::collections::BTreeMap<String, u64>) {
        if let Ok(rd) = std::fs::read_dir(d) {
            for e in rd.flatten() {
                let p = e.path();
                if p.is_dir() {
                    rec(base, &p, out);
                } else if let Ok(b) = std::fs::read(&p) {
                    let mut h: u64 = 0xcbf29ce484222325;
                    for x in &b {
                        h ^= *x as u64;
                        h = h.wrapping_mul(0x100000001b3);
                    }
                    out.insert(p.strip_prefix(base).unwrap_or(&p).display().to_string(), h ^ ((b.len() as u64) << 48));
                }
            }
        }
    }
    let mut out = Default::default();
    rec(dir, dir, &mut out);
    out
}

/// Prepare the workspace for verdict-only runs: writes and builds the application crate.
pub fn prepare(lane: &Lane, specs: &[AppSpec]) -> Result<(), String> {
    lane.write_workspace(specs);
    // (the `sdk` member may hold an SDK generated earlier, with other dependency paths)
    lane.reset_sdk();
    let b = lane.build_app();
    if !b.ok() {
        return Err(b.stderr.chars().take(4000).collect());
    }
    Ok(())
}

/// Verdict on sub-application `k` of the prepared workspace, written to `ind/sdk_<slot>`.
pub fn verdict_k(lane: &Lane, k: usize, slot: usize, check: bool, env: &[(&str, &str)], diagnostics: Option<&std::path::Path>) -> PavexcVerdict {
    let bp = bp_path(lane, &format!("one{k}"));
    let p = lane.persist("one", k as u64, &bp);
    if !p.ok() {
        return PavexcVerdict { code: None, n_errors: 0, panicked: false, timed_out: false, cpu_bound: false, stderr: format!("persist failed: {}", p.stderr), wall_ms: 0 };
    }
    let r = lane.pavexc(&bp, &format!("ind/sdk_{slot}"), diagnostics, check, env);
    PavexcVerdict::from(&r)
}
