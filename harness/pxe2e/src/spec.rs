//! The application spec: plain serde data. A shrunk spec *is* the replay file.
use serde::{Deserialize, Serialize};

#[derive(Clone, Copy, Debug, PartialEq, Eq, Serialize, Deserialize, Hash, PartialOrd, Ord)]
pub enum Life {
    Singleton,
    Request,
    Transient,
}

#[derive(Clone, Copy, Debug, PartialEq, Eq, Serialize, Deserialize, Hash)]
pub enum Mode {
    Ref,
    Move,
    Mut,
}

#[derive(Clone, Debug, PartialEq, Serialize, Deserialize)]
pub struct TypeSpec {
    pub life: Life,
    /// `impl Clone` (hand-written, logging)
    pub is_clone: bool,
    /// `#[derive(Clone, Copy)]`
    pub is_copy: bool,
    /// `None` = no flag on the annotation (default: never clone)
    pub clone_if_necessary: Option<bool>,
    pub inputs: Vec<(usize, Mode)>,
    /// index of the error type returned in `Err`
    pub fallible: Option<usize>,
    pub is_async: bool,
    /// number of alternative constructors for this type (>= 1); variant 0 is the default one
    pub variants: u8,
    /// false => the type holds a `PhantomData<Rc<()>>` (neither Send nor Sync)
    pub send_sync: bool,
    /// registered through `bp.prebuilt` instead of a constructor (singletons only)
    #[serde(default)]
    pub prebuilt: bool,
    /// C19(b): the lifecycle written in the attribute when it differs from `life`; the blueprint
    /// registration then overrides it with `.lifecycle(<life>)`
    #[serde(default)]
    pub attr_life: Option<Life>,
    /// C19(b): the cloning flag written in the attribute ("clone_if_necessary" | "never_clone" | "")
    /// when the blueprint registration overrides it with the effective policy
    #[serde(default)]
    pub attr_clone: Option<String>,
    /// C19(b): `allow(unused)` in the attribute (only meaningful for constructors nobody needs)
    #[serde(default)]
    pub allow_unused: bool,
    /// the alternative constructor (variant 1) has the opposite fallibility of variant 0
    /// (it returns `Result<T, E0>` when variant 0 returns `T`, and the other way round)
    #[serde(default)]
    pub v1_flip: bool,
    /// the type carries a lifetime: `struct T<i><'a> { tag, src: &'a T<j> }`, built by
    /// `fn c<'a>(a0: &'a T<j>, ..) -> T<i><'a>`; `j` is one of `inputs`, taken by `Mode::Ref`.
    /// A live value of this type keeps its source borrowed (request-scoped / transient types only).
    #[serde(default)]
    pub view_of: Option<usize>,
    /// an error handler (index into `comps`, kind `ErrHandler`, never registered on its own) attached to the
    /// registration of constructor variant 0 with `.error_handler(..)`: it takes precedence over the
    /// handler registered for the error type
    #[serde(default)]
    pub specific_eh: Option<usize>,
    /// constructor variant 0 lives in a module of its own (`ci<i>`) and is registered through
    /// `bp.import(from![crate::m<k>::ci<i>])` instead of `bp.constructor(..)`. When the spec also asks for
    /// overrides at registration (`attr_life` / `attr_clone` / `specific_eh`) the import is followed by an
    /// explicit `bp.constructor(..)` with those overrides (a shape the generators never produce: see the
    /// recorded finding of C02).
    #[serde(default)]
    pub imported: bool,
}

impl TypeSpec {
    /// Error type returned by constructor variant `v`, if it is fallible.
    pub fn fallible_of(&self, v: u8) -> Option<usize> {
        if v == 1 && self.v1_flip {
            if self.fallible.is_some() { None } else { Some(0) }
        } else {
            self.fallible
        }
    }
    pub fn any_variant_fallible(&self) -> bool {
        (0..self.variants.max(1)).any(|v| self.fallible_of(v).is_some())
    }
}

/// `CompKind::ErrHandler { err: FALLBACK_ERR, .. }`: the user's fallback error handler, `fn(&pavex::Error) -> Response`
/// (invoked when no handler is registered for the error type).
pub const FALLBACK_ERR: usize = 9999;

#[derive(Clone, Debug, PartialEq, Serialize, Deserialize)]
pub enum CompKind {
    Pre,
    Post,
    Wrap,
    Handler,
    ErrHandler { err: usize, default: bool },
    Observer,
    Fallback,
}

#[derive(Clone, Debug, PartialEq, Serialize, Deserialize)]
pub struct RouteSpec {
    /// empty = `allow(any_method)`; otherwise upper-case method names (custom ones allowed)
    pub methods: Vec<String>,
    pub path: String,
    /// struct fields requested through `PathParams<...>` (C08 R14); empty = no PathParams input
    #[serde(default)]
    pub path_param_fields: Vec<String>,
    /// registered through a bulk import (`bp.routes(from![module])`) together with the neighbouring
    /// bulk routes of the same blueprint, instead of `bp.route(ID)`
    #[serde(default)]
    pub bulk: bool,
}

#[derive(Clone, Debug, PartialEq, Serialize, Deserialize)]
pub struct CompSpec {
    pub kind: CompKind,
    pub inputs: Vec<(usize, Mode)>,
    pub fallible: Option<usize>,
    pub is_async: bool,
    /// handlers; for a middleware only `path_param_fields` is meaningful (it then asks for `&PathParams<..>`)
    pub route: Option<RouteSpec>,
    /// framework-provided inputs taken by reference (indices into `FRAMEWORK_INPUTS`)
    #[serde(default)]
    pub fw: Vec<u8>,
    /// generic wrappers taken by reference: (wrapper kind 0 = `GS<T>` singleton, 1 = `GR<T>`
    /// request-scoped, 2 = `GT<T>` transient, 3 = `GV<'a, T>` request-scoped and holding `&'a T`;
    /// index of the type `T` it is instantiated with). Each
    /// wrapper kind has ONE generic constructor `fn g<T>(inner: &T) -> G<T>` registered in the root blueprint.
    #[serde(default)]
    pub gens: Vec<(u8, usize)>,
}

/// Values the framework itself injects into any request-time component.
pub const FRAMEWORK_INPUTS: &[&str] = &[
    "&pavex::request::RequestHead",
    "&pavex::request::path::RawPathParams<'_, '_>",
    "&pavex::request::path::MatchedPathPattern",
    "&pavex::connection::ConnectionInfo",
    "&pavex::request::body::RawIncomingBody",
];

#[derive(Clone, Debug, PartialEq, Serialize, Deserialize)]
pub enum Reg {
    Ctor { ty: usize, variant: u8 },
    Comp { idx: usize },
    Nest { prefix: Option<String>, domain: Option<String>, bp: Vec<Reg> },
    /// registration of the generic constructor of wrapper `kind` (`concrete_for: None`), or of a
    /// *concrete* constructor `fn gc(inner: &T<t>) -> G<kind><T<t>>` for one instantiation. When a
    /// blueprint holds no `Gen` registration at all for a kind in use, the generic constructor is
    /// registered in the root blueprint.
    Gen { kind: u8, concrete_for: Option<usize> },
}

#[derive(Clone, Debug, PartialEq, Serialize, Deserialize, Default)]
pub struct AppSpec {
    /// chaos only: a generic constructor whose input is a deeper instantiation of its own output,
    /// `fn g_peel<T>(_: &GP<GP<T>>) -> GP<T>`, and the first handler asks for `&GP<T0>`
    #[serde(default)]
    pub peel: bool,
    pub types: Vec<TypeSpec>,
    pub n_errs: usize,
    pub comps: Vec<CompSpec>,
    pub bp: Vec<Reg>,
    /// free-form tag describing how the spec was produced (class, planted rule, ...)
    #[serde(default)]
    pub note: String,
}

impl AppSpec {
    pub fn walk_regs<'a>(&'a self, f: &mut dyn FnMut(&'a Reg, usize)) {
        fn rec<'a>(regs: &'a [Reg], depth: usize, f: &mut dyn FnMut(&'a Reg, usize)) {
            for r in regs {
                f(r, depth);
                if let Reg::Nest { bp, .. } = r {
                    rec(bp, depth + 1, f);
                }
            }
        }
        rec(&self.bp, 0, f);
    }

    pub fn max_depth(&self) -> usize {
        let mut d = 0;
        self.walk_regs(&mut |_, depth| d = d.max(depth));
        d
    }
}

impl AppSpec {
    /// Groups of consecutive bulk-imported routes: handler index -> group number. A group is a
    /// maximal run of neighbouring `Reg::Comp` registrations of bulk handlers in one blueprint.
    pub fn bulk_groups(&self) -> std::collections::BTreeMap<usize, usize> {
        fn rec(spec: &AppSpec, regs: &[Reg], next: &mut usize, out: &mut std::collections::BTreeMap<usize, usize>) {
            let mut open: Option<usize> = None;
            for r in regs {
                match r {
                    Reg::Comp { idx } if spec.comps[*idx].kind == CompKind::Handler && spec.comps[*idx].route.as_ref().is_some_and(|r| r.bulk) && !out.contains_key(idx) => {
                        let g = *open.get_or_insert_with(|| {
                            *next += 1;
                            *next - 1
                        });
                        out.insert(*idx, g);
                    }
                    Reg::Nest { bp, .. } => {
                        open = None;
                        rec(spec, bp, next, out);
                    }
                    _ => open = None,
                }
            }
        }
        let mut out = Default::default();
        let mut next = 0;
        rec(self, &self.bp, &mut next, &mut out);
        out
    }
}
