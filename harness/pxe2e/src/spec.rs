//! The application spec: plain serde data. A shrunk spec *is* the replay file.
use serde::{Deserialize, Serialize};

#[derive(Clone, Copy, Debug, PartialEq, Eq, Serialize, Deserialize, Hash, PartialOrd, Ord)]
pub enum Life {
    Singleton,
    Request,
    Transient,
}

#[derive(Clone, Copy, Debug, PartialEq, Eq, Serialize, Deserialize, Hash)]
pub enum Mode {
    Ref,
    Move,
    Mut,
}

#[derive(Clone, Debug, PartialEq, Serialize, Deserialize)]
pub struct TypeSpec {
    pub life: Life,
    /// `impl Clone` (hand-written, logging)
    pub is_clone: bool,
    /// `#[derive(Clone, Copy)]`
    pub is_copy: bool,
    /// `None` = no flag on the annotation (default: never clone)
    pub clone_if_necessary: Option<bool>,
    pub inputs: Vec<(usize, Mode)>,
    /// index of the error type returned in `Err`
    pub fallible: Option<usize>,
    pub is_async: bool,
    /// number of alternative constructors for this type (>= 1); variant 0 is the default one
    pub variants: u8,
    /// false => the type holds a `PhantomData<Rc<()>>` (neither Send nor Sync)
    pub send_sync: bool,
    /// registered through `bp.prebuilt` instead of a constructor (singletons only)
    #[serde(default)]
    pub prebuilt: bool,
}

#[derive(Clone, Debug, PartialEq, Serialize, Deserialize)]
pub enum CompKind {
    Pre,
    Post,
    Wrap,
    Handler,
    ErrHandler { err: usize, default: bool },
    Observer,
    Fallback,
}

#[derive(Clone, Debug, PartialEq, Serialize, Deserialize)]
pub struct RouteSpec {
    /// empty = `allow(any_method)`; otherwise upper-case method names (custom ones allowed)
    pub methods: Vec<String>,
    pub path: String,
    /// struct fields requested through `PathParams<...>` (C08 R14); empty = no PathParams input
    #[serde(default)]
    pub path_param_fields: Vec<String>,
}

#[derive(Clone, Debug, PartialEq, Serialize, Deserialize)]
pub struct CompSpec {
    pub kind: CompKind,
    pub inputs: Vec<(usize, Mode)>,
    pub fallible: Option<usize>,
    pub is_async: bool,
    /// handlers only
    pub route: Option<RouteSpec>,
}

#[derive(Clone, Debug, PartialEq, Serialize, Deserialize)]
pub enum Reg {
    Ctor { ty: usize, variant: u8 },
    Comp { idx: usize },
    Nest { prefix: Option<String>, domain: Option<String>, bp: Vec<Reg> },
}

#[derive(Clone, Debug, PartialEq, Serialize, Deserialize, Default)]
pub struct AppSpec {
    pub types: Vec<TypeSpec>,
    pub n_errs: usize,
    pub comps: Vec<CompSpec>,
    pub bp: Vec<Reg>,
    /// free-form tag describing how the spec was produced (class, planted rule, ...)
    #[serde(default)]
    pub note: String,
}

impl AppSpec {
    pub fn walk_regs<'a>(&'a self, f: &mut dyn FnMut(&'a Reg, usize)) {
        fn rec<'a>(regs: &'a [Reg], depth: usize, f: &mut dyn FnMut(&'a Reg, usize)) {
            for r in regs {
                f(r, depth);
                if let Reg::Nest { bp, .. } = r {
                    rec(bp, depth + 1, f);
                }
            }
        }
        rec(&self.bp, 0, f);
    }

    pub fn max_depth(&self) -> usize {
        let mut d = 0;
        self.walk_regs(&mut |_, depth| d = d.max(depth));
        d
    }
}
