//! libFuzzer driver shared by the targets: the target decodes the input bytes into a case of the
//! same class the proptest campaign draws from (`<module>::case_from_bytes`), the oracle is the same
//! function; failures are written as replay files in the format of the proptest campaigns.
use std::collections::HashSet;
use std::sync::atomic::{AtomicU64, Ordering};
use std::sync::Mutex;
use vcommon::CaseResult;

static EXECS: AtomicU64 = AtomicU64::new(0);
static NONTRIVIAL: Mutex<Option<HashSet<u64>>> = Mutex::new(None);
static SAMPLE: Mutex<Option<String>> = Mutex::new(None);

pub fn run<C>(prop: &str, case: C, oracle: fn(&C) -> CaseResult)
where
    C: serde::Serialize + std::fmt::Debug,
{
    let n = EXECS.fetch_add(1, Ordering::Relaxed) + 1;
    match oracle(&case) {
        Ok(info) => {
            if info.nontrivial {
                let text = serde_json::to_string(&case).unwrap_or_default();
                let h = vcommon::fnv(&text);
                let mut g = NONTRIVIAL.lock().unwrap();
                g.get_or_insert_with(HashSet::new).insert(h);
                let mut s = SAMPLE.lock().unwrap();
                if s.is_none() {
                    *s = Some(text);
                }
            }
        }
        Err(f) => {
            let dir = std::path::Path::new(vcommon::VERIF_ROOT).join(".work/violations").join(prop);
            let _ = std::fs::create_dir_all(&dir);
            let text = serde_json::to_string(&case).unwrap_or_default();
            let path = dir.join(format!("fuzz-{:016x}.json", vcommon::fnv(&text)));
            let doc = serde_json::json!({"property": prop, "campaign": "fuzz", "signature": f.signature, "message": f.message, "case": case});
            let _ = std::fs::write(&path, serde_json::to_string_pretty(&doc).unwrap());
            println!("violation detail property={prop} campaign=fuzz signature={}\n{}", f.signature, f.message);
            println!("VIOLATION property={prop} replay={}", path.display());
            write_stats(prop, n);
            std::process::abort();
        }
    }
    if n % 512 == 0 {
        write_stats(prop, n);
    }
}

fn write_stats(prop: &str, execs: u64) {
    let nt = NONTRIVIAL.lock().unwrap().as_ref().map(|s| s.len()).unwrap_or(0);
    let sample = SAMPLE.lock().unwrap().clone();
    let doc = serde_json::json!({"executions": execs, "distinct_nontrivial": nt, "sample": sample.and_then(|s| serde_json::from_str::<serde_json::Value>(&s).ok())});
    let p = std::path::Path::new(vcommon::VERIF_ROOT).join(".work").join(format!("fuzz-stats-{prop}.json"));
    let _ = std::fs::write(p, doc.to_string());
}
