#![no_main]
use libfuzzer_sys::fuzz_target;

fuzz_target!(|data: &[u8]| {
    rtfuzz::run("C14", rtprops::c14::case_from_bytes(data), rtprops::c14::oracle);
});
