#![no_main]
use libfuzzer_sys::fuzz_target;

fuzz_target!(|data: &[u8]| {
    rtfuzz::run("C15", rtprops::c15::case_from_bytes(data), rtprops::c15::oracle);
});
