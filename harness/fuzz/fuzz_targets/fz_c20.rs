#![no_main]
use libfuzzer_sys::fuzz_target;

fuzz_target!(|data: &[u8]| {
    rtfuzz::run("C20", cprops::c20::case_from_bytes(data), cprops::c20::oracle);
});
