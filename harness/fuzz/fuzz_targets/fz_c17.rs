#![no_main]
use libfuzzer_sys::fuzz_target;

fuzz_target!(|data: &[u8]| {
    rtfuzz::run("C17", rtprops::c17::case_from_bytes(data), rtprops::c17::oracle);
});
