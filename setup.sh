#!/usr/bin/env bash
# Run once after a fresh restore (offline): builds everything the checks need from files on disk.
set -eu
cd /verif
export CARGO_NET_OFFLINE=true
mkdir -p .work evidence
( cd harness && cargo build --offline -p rtprops -p cprops -p pxe2e )
./tools/mk_toolchain.sh
( cd /repo && cargo build --offline -p pavexc_cli --bin pavexc --target-dir /verif/.work/target-pavexc )
./.work/target/debug/pxe2e warm
echo "setup done"
